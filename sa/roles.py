"""E3b -- role expressions: a name-free description of *what a value is*.

``Roles(ctx, fi).of(expr, at)`` rewrites an expression of function ``fi`` into
a canonical string in which every local name is replaced by how it is bound at
that program point:

* a parameter                        ->  ``P:<name>``       (names are the
  pinned ones after ``core.normalise_params``)
* a ``for`` / comprehension target   ->  ``each(<iterable>)`` (``[i]`` for
  the i-th element of a tuple target)
* a single reaching assignment       ->  the bound expression (flow-sensitive
  copy propagation, ``dataflow.Reaching``)
* several reaching definitions       ->  ``phi(a|b)`` (sorted)
* anything not bound in the function ->  the name itself (module constant,
  class, function)

so that ``for n in ins: for s in n.event_sets: ev.update_event_sets(
s.to_list())`` and the same code with other local names, hoisted temporaries,
a comprehension instead of a loop or an extracted/inlined helper all describe
the argument as ``each(each(<ins>).event_sets).to_list()``.  Rules compare
role expressions instead of source text."""
from __future__ import annotations

import ast
from typing import Optional

from .core import FuncInfo, unparse

_NEGOP = {ast.In: ast.NotIn, ast.NotIn: ast.In, ast.Is: ast.IsNot,
          ast.IsNot: ast.Is, ast.Eq: ast.NotEq, ast.NotEq: ast.Eq,
          ast.Lt: ast.GtE, ast.GtE: ast.Lt, ast.Gt: ast.LtE, ast.LtE: ast.Gt}
_COMPS = (ast.ListComp, ast.SetComp, ast.GeneratorExp, ast.DictComp)
_WRAP = {"list", "tuple", "iter", "tqdm", "set", "frozenset", "sorted"}


def _cut_short(loop: ast.AST) -> bool:
    """Does the ``for`` loop leave before its iterable is exhausted (a
    ``break`` of its own, or a ``return``)?  Then what is done "for each"
    element is only done up to that point."""
    def rec(n: ast.AST, own: bool) -> bool:
        for c in ast.iter_child_nodes(n):
            if isinstance(c, (ast.FunctionDef, ast.AsyncFunctionDef,
                              ast.Lambda, ast.ClassDef)):
                continue
            if isinstance(c, ast.Return):
                return True
            if isinstance(c, ast.Break) and own:
                return True
            if rec(c, own and not isinstance(c, (ast.For, ast.While,
                                                 ast.AsyncFor))):
                return True
        return False
    body = getattr(loop, "body", [])
    return any(rec(ast.Module(body=[st], type_ignores=[]), True)
               for st in body)


def _cut_kind(loop: ast.AST) -> str:
    """"break": the loop has a ``break`` of its own (elements after that point
    are not visited: ``upto``); "return": it only leaves through ``return``
    (a search - every element is examined until the answer is known:
    ``first``); "": it visits every element (``each``)."""
    kinds: set[str] = set()

    def rec(n: ast.AST, own: bool) -> None:
        for c in ast.iter_child_nodes(n):
            if isinstance(c, (ast.FunctionDef, ast.AsyncFunctionDef,
                              ast.Lambda, ast.ClassDef)):
                continue
            if isinstance(c, ast.Return):
                kinds.add("return")
            if isinstance(c, ast.Break) and own:
                kinds.add("break")
            rec(c, own and not isinstance(c, (ast.For, ast.While,
                                              ast.AsyncFor)))
    for st in getattr(loop, "body", []):
        rec(ast.Module(body=[st], type_ignores=[]), True)
    return "break" if "break" in kinds else (
        "return" if "return" in kinds else "")


class Roles:
    def __init__(self, ctx: "object", fi: FuncInfo) -> None:
        self.ctx = ctx
        self.fi = fi
        self.reach = ctx.reach(fi)            # type: ignore[attr-defined]
        self.defs = ctx.defs(fi)              # type: ignore[attr-defined]
        self._busy: set[tuple[int, int]] = set()
        # filters of comprehensions that were looked through by the last
        # ``of`` call (``for x in [y for y in ys if c(y)]`` == ``for x in ys``
        # under the guard ``c(x)``)
        self.side: list[tuple[str, ...]] = []

    # ------------------------------------------------------------------
    def of(self, e: ast.AST, at: Optional[ast.AST] = None,
           env: Optional[dict[str, str]] = None, depth: int = 12) -> str:
        loc = at if at is not None else e
        env = env or {}
        self.side = []
        return self._of(e, loc, env, depth)

    def _name(self, e: ast.Name, loc: ast.AST, env: dict[str, str],
              d: int) -> str:
        if e.id in env:
            return env[e.id]
        bs = self.reach.at(loc, e.id)
        # the iterable of a `for` is evaluated once, before the loop: what
        # the loop body assigns does not reach it
        for lp in getattr(self, "_pre_loops", []):
            inner = {id(x) for x in ast.walk(lp)}
            kept = [b for b in bs if id(b.stmt) not in inner or b.stmt is lp]
            if kept:
                bs = kept
        if not bs:
            # comprehension-bound name used outside our env, or a global
            if any(b.kind in ("comp", "lambda") for b in self.defs.of(e.id)):
                return f"?{e.id}"
            return e.id
        if all(b.kind == "param" for b in bs):
            return f"P:{e.id}"
        if d <= 0:
            return f"?{e.id}"
        if len(bs) > 1:
            # loop state: a name re-assigned inside a (while / for) loop that
            # encloses this use is described by its value on loop entry -
            # `state(<initial>)` - instead of an ever-growing phi of what the
            # iterations assign
            from .rules.util import enclosing
            loops = [l for l in enclosing(self.fi.node, loc,
                                          (ast.While, ast.For))]
            for lp in loops:
                inside = [b for b in bs if any(x is b.stmt
                                               for x in ast.walk(lp))]
                outside = [b for b in bs if b not in inside]
                if inside and outside:
                    init = sorted({self._binding(b, e.id, env, d - 1)
                                   for b in outside})
                    return "state(" + "|".join(init) + ")"
        outs = []
        for b in bs:
            key = (id(b), id(loc))
            if key in self._busy:
                outs.append(f"?{e.id}")
                continue
            self._busy.add(key)
            try:
                outs.append(self._binding(b, e.id, env, d - 1))
            finally:
                self._busy.discard(key)
        outs = sorted(set(outs))
        return outs[0] if len(outs) == 1 else "phi(" + "|".join(outs) + ")"

    def _binding(self, b: "object", name: str, env: dict[str, str],
                 d: int) -> str:
        kind, val, stmt, tgt = b.kind, b.value, b.stmt, b.target  # type: ignore[attr-defined]
        if kind == "param":
            return f"P:{name}"
        if kind in ("for", "comp") and val is not None:
            src = self.reach.resolve(val, at=stmt) if isinstance(
                val, ast.Name) else val
            if isinstance(src, (ast.ListComp, ast.GeneratorExp,
                                ast.SetComp)) and isinstance(
                    src.elt, ast.Name) and isinstance(tgt, ast.Name):
                # iterating a filtering comprehension: its element, under
                # the comprehension's conditions
                env2 = dict(env)
                loc2 = stmt if src is val else self._stmt_of(val, stmt)
                for g in src.generators:
                    it = self._iter(g.iter, loc2, env2, d)
                    for nm in ast.walk(g.target):
                        if isinstance(nm, ast.Name):
                            env2[nm.id] = f"each({it})" + self._index(
                                g.target, nm.id)
                    for c in g.ifs:
                        self.side += self.expand(c, True, env2, loc2)
                return self._of(src.elt, loc2, env2, d)
            if kind == "for" and isinstance(stmt, ast.For):
                pre = getattr(self, "_pre_loops", [])
                self._pre_loops = pre + [stmt]
                try:
                    it = self._iter(val, stmt, env, d)
                finally:
                    self._pre_loops = pre
            else:
                it = self._iter(val, stmt, env, d)
            q = "each"
            if kind == "for":
                q = {"break": "upto", "return": "first", "": "each"}[
                    _cut_kind(stmt)]
            return f"{q}({it})" + self._index(tgt, name)
        if kind == "assign" and val is not None:
            if isinstance(tgt, ast.Name) or tgt is None:
                return self._of(val, stmt, env, d)
            return self._of(val, stmt, env, d) + self._index(tgt, name)
        if kind == "with" and val is not None:
            return f"with({self._of(val, stmt, env, d)})"
        if kind == "aug":
            op = type(stmt.op).__name__ if isinstance(stmt, ast.AugAssign) \
                else "?"
            return f"aug({op} {self._of(val, stmt, env, d)})" \
                if val is not None else "aug(?)"
        return f"?{name}"

    def _stmt_of(self, name: ast.AST, loc: ast.AST) -> ast.AST:
        bs = self.reach.at(loc, name.id) if isinstance(name, ast.Name) else []
        return bs[0].stmt if len(bs) == 1 else loc

    @staticmethod
    def _index(tgt: Optional[ast.AST], name: str) -> str:
        if isinstance(tgt, (ast.Tuple, ast.List)):
            for i, el in enumerate(tgt.elts):
                if isinstance(el, ast.Name) and el.id == name:
                    return f"[{i}]"
            return "[?]"
        return ""

    def _iter(self, it: ast.AST, loc: ast.AST, env: dict[str, str],
              d: int) -> str:
        cur = it
        for _ in range(6):
            if isinstance(cur, ast.Call) and isinstance(cur.func, ast.Name) \
                    and cur.func.id in _WRAP and cur.args:
                cur = cur.args[0]
                continue
            if isinstance(cur, ast.Name) and cur.id not in env:
                bs = self.reach.at(loc, cur.id)
                if len(bs) == 1 and bs[0].kind == "assign" and isinstance(
                        bs[0].target, ast.Name) and isinstance(
                        bs[0].value, ast.Call) and isinstance(
                        bs[0].value.func, ast.Name) and \
                        bs[0].value.func.id in _WRAP and bs[0].value.args:
                    # a wrapped iterable bound to a name: iterate the
                    # wrapped value (evaluated where the name was bound)
                    cur, loc = bs[0].value.args[0], bs[0].stmt
                    continue
            break
        return self._of(cur, loc, env, d)

    def _of(self, e: ast.AST, loc: ast.AST, env: dict[str, str],
            d: int) -> str:
        f = self._of
        if isinstance(e, ast.Name):
            return self._name(e, loc, env, d)
        if isinstance(e, ast.Attribute):
            return f"{f(e.value, loc, env, d)}.{e.attr}"
        if isinstance(e, ast.Call) and isinstance(e.func, ast.Name) \
                and e.func.id in ("set", "list") and len(e.args) == 1 \
                and not e.keywords and not self.defs.of(e.func.id):
            g, gloc = e.args[0], loc
            if isinstance(g, ast.Name) and g.id not in env:
                bs = self.reach.at(loc, g.id)
                if len(bs) == 1 and bs[0].kind == "assign" and isinstance(
                        bs[0].value, (ast.GeneratorExp, ast.ListComp)):
                    g, gloc = bs[0].value, bs[0].stmt
            if isinstance(g, (ast.GeneratorExp, ast.ListComp)):
                # set(x for ..) == {x for ..};  list(x for ..) == [x for ..]
                cls = ast.SetComp if e.func.id == "set" else ast.ListComp
                return f(ast.copy_location(cls(elt=g.elt,
                                               generators=g.generators), e),
                         gloc, env, d)
        if isinstance(e, ast.Call):
            fn = f"{f(e.func.value, loc, env, d)}.{e.func.attr}" if isinstance(
                e.func, ast.Attribute) else f(e.func, loc, env, d)
            args = [f(a, loc, env, d) for a in e.args]
            args += [f"{k.arg}={f(k.value, loc, env, d)}" for k in e.keywords]
            return f"{fn}({','.join(args)})"
        if isinstance(e, ast.Subscript):
            return f"{f(e.value, loc, env, d)}[{f(e.slice, loc, env, d)}]"
        if isinstance(e, ast.Slice):
            parts = [f(x, loc, env, d) if x is not None else ""
                     for x in (e.lower, e.upper)]
            if e.step is not None:
                parts.append(f(e.step, loc, env, d))
            return ":".join(parts)
        if isinstance(e, ast.Constant):
            return repr(e.value)
        if isinstance(e, (ast.List, ast.Tuple)):
            o, c = ("[", "]") if isinstance(e, ast.List) else ("(", ")")
            return o + ",".join(f(x, loc, env, d) for x in e.elts) + c
        if isinstance(e, ast.Set):
            return "{" + ",".join(sorted(f(x, loc, env, d) for x in e.elts)) \
                + "}"
        if isinstance(e, ast.JoinedStr):
            out = []
            for v in e.values:
                if isinstance(v, ast.Constant):
                    out.append(str(v.value))
                elif isinstance(v, ast.FormattedValue):
                    out.append("{" + f(v.value, loc, env, d) + "}")
            return "f'" + "".join(out) + "'"
        if isinstance(e, ast.Starred):
            return "*" + f(e.value, loc, env, d)
        if isinstance(e, _COMPS):
            env2 = dict(env)
            conds = []
            reps = []
            used = {n.id for part in (
                [e.key, e.value] if isinstance(e, ast.DictComp) else [e.elt])
                for n in ast.walk(part) if isinstance(n, ast.Name)}
            used |= {n.id for g in e.generators for part in [g.iter] + g.ifs
                     for n in ast.walk(part) if isinstance(n, ast.Name)}
            for g in e.generators:
                it = self._iter(g.iter, loc, env2, d)
                tn = [nm.id for nm in ast.walk(g.target)
                      if isinstance(nm, ast.Name)]
                for nm in tn:
                    env2[nm] = f"each({it})" + self._index(g.target, nm)
                if not (set(tn) & used) and not isinstance(
                        e, (ast.SetComp, ast.DictComp)):
                    # a generator whose target is never read only repeats
                    # the element: multiplicity matters for lists
                    reps.append(it)
                conds += [f(c, loc, env2, d) for c in g.ifs]
            if isinstance(e, ast.DictComp):
                body = f"{f(e.key, loc, env2, d)}:{f(e.value, loc, env2, d)}"
            else:
                body = f(e.elt, loc, env2, d)
            o, c = {"ListComp": "[]", "SetComp": "{}", "GeneratorExp": "()",
                    "DictComp": "{}"}[type(e).__name__]
            tail = "".join(f" times({r})" for r in reps)
            tail += (" if " + " and ".join(conds)) if conds else ""
            return f"{o}{body} for..{tail}{c}"
        if isinstance(e, ast.UnaryOp) and isinstance(e.op, ast.Not) and \
                isinstance(e.operand, ast.Compare) and len(
                    e.operand.ops) == 1 and type(e.operand.ops[0]) in _NEGOP:
            # not (a in b) == a not in b
            c = e.operand
            return f(ast.copy_location(ast.Compare(
                left=c.left, ops=[_NEGOP[type(c.ops[0])]()],
                comparators=c.comparators), e), loc, env, d)
        if isinstance(e, ast.UnaryOp) and isinstance(e.op, ast.Not) and \
                isinstance(e.operand, ast.UnaryOp) and isinstance(
                    e.operand.op, ast.Not):
            return f"bool({f(e.operand.operand, loc, env, d)})"
        if isinstance(e, ast.UnaryOp):
            return f"{type(e.op).__name__}({f(e.operand, loc, env, d)})"
        if isinstance(e, ast.BinOp):
            return f"({f(e.left, loc, env, d)} {type(e.op).__name__} " \
                   f"{f(e.right, loc, env, d)})"
        if isinstance(e, ast.BoolOp):
            return "(" + f" {type(e.op).__name__} ".join(
                f(v, loc, env, d) for v in e.values) + ")"
        if isinstance(e, ast.Compare) and len(e.ops) == 1 and isinstance(
                e.ops[0], (ast.Eq, ast.NotEq)):
            a, b = sorted([f(e.left, loc, env, d),
                           f(e.comparators[0], loc, env, d)])
            return f"({a} {type(e.ops[0]).__name__} {b})"
        if isinstance(e, ast.Compare) and len(e.ops) == 1 and isinstance(
                e.ops[0], (ast.Gt, ast.GtE)):
            # a > b == b < a
            op = "Lt" if isinstance(e.ops[0], ast.Gt) else "LtE"
            return f"({f(e.comparators[0], loc, env, d)} {op} " \
                   f"{f(e.left, loc, env, d)})"
        if isinstance(e, ast.Compare):
            s = f(e.left, loc, env, d)
            for op, c in zip(e.ops, e.comparators):
                s += f" {type(op).__name__} {f(c, loc, env, d)}"
            return f"({s})"
        if isinstance(e, ast.IfExp):
            return f"({f(e.body, loc, env, d)} if {f(e.test, loc, env, d)} " \
                   f"else {f(e.orelse, loc, env, d)})"
        return unparse(e)

    # ------------------------------------------------------------------
    def guards(self, target: ast.AST) -> list[tuple[str, ...]]:
        """Role-described controlling conditions (CFG control dependence) of
        the statement containing ``target``: ("truth", role, "1"/"0"),
        ("le", a, b, "1"/"0") for issubset and <= or ("cmp", l, op, r)."""
        cfg = self.ctx.cfg(self.fi)           # type: ignore[attr-defined]
        nid = cfg.node(target) if cfg.has(target) else cfg.container(target)
        out = []
        if nid is None:
            return out
        for test, sense in cfg.controlling(nid):
            out += self.expand(test, sense)
        return out

    def expand(self, test: ast.AST, sense: bool,
               env: Optional[dict[str, str]] = None,
               loc: Optional[ast.AST] = None) -> list[tuple[str, ...]]:
        """A branch condition as a list of conjuncts: ``a and b`` (true) and
        ``a or b`` (false) are split; a disjunction is one ("any", (..), "1")
        guard over its sorted alternatives."""
        e, pos = test, sense
        while isinstance(e, ast.UnaryOp) and isinstance(e.op, ast.Not):
            e, pos = e.operand, not pos
        if isinstance(e, ast.BoolOp):
            conj = isinstance(e.op, ast.And) == pos
            parts = []
            for v in e.values:
                parts.append(self.expand(v, pos, env, loc if loc is not None
                                         else test))
            if conj:
                return [g for p in parts for g in p]
            alts = tuple(sorted(p[0] if len(p) == 1 else ("all", tuple(p))
                                for p in parts))
            return [("any", alts, "1")]
        return [self.test(e, pos, env, loc if loc is not None else test)]

    def test(self, test: ast.AST, sense: bool = True,
             env: Optional[dict[str, str]] = None,
             loc: Optional[ast.AST] = None) -> tuple[str, ...]:
        pos = sense
        e = test
        env = env or {}
        while isinstance(e, ast.UnaryOp) and isinstance(e.op, ast.Not):
            e, pos = e.operand, not pos
        loc = loc if loc is not None else test
        if isinstance(e, ast.Name) and e.id not in env:
            # a hoisted test: look through the temporary
            r = self.reach.resolve(e, at=test)
            if r is not e:
                bs = self.reach.at(test, e.id)
                e, loc = r, (bs[0].stmt if len(bs) == 1 else test)
                while isinstance(e, ast.UnaryOp) and isinstance(e.op, ast.Not):
                    e, pos = e.operand, not pos
        p = "1" if pos else "0"
        if isinstance(e, ast.Call) and isinstance(e.func, ast.Attribute) \
                and e.func.attr == "issubset" and len(e.args) == 1:
            return ("le", self._of(e.func.value, loc, env, 12),
                    self._of(e.args[0], loc, env, 12), p)
        if isinstance(e, ast.Compare) and len(e.ops) == 1 and isinstance(
                e.ops[0], (ast.LtE, ast.GtE)):
            a, b = e.left, e.comparators[0]
            if isinstance(e.ops[0], ast.GtE):
                a, b = b, a
            return ("le", self._of(a, loc, env, 12), self._of(b, loc, env, 12), p)
        if isinstance(e, ast.Compare) and len(e.ops) == 1:
            op = type(e.ops[0])
            l = self._of(e.left, loc, env, 12)
            r = self._of(e.comparators[0], loc, env, 12)
            if op in (ast.NotIn, ast.IsNot, ast.NotEq):
                # one operator per pair: ``a not in b`` is ``a in b`` with
                # the opposite polarity
                op, p = _NEGOP[op], ("0" if p == "1" else "1")
            elif op is ast.Gt:
                op, l, r = ast.Lt, r, l          # a > b  ==  b < a
            if op is ast.Eq and l > r:
                l, r = r, l
            return ("cmp", l, op.__name__, r, p)
        return ("truth", self._of(e, loc, env, 12), p)
