"""E7 -- constant tables and the PlantUML corpus lexicon.

The oracle for "the dialect plus2json consumes" is the repository's own
hand-written corpus (``end-to-end-pumls/**/*.puml`` and
``puml_files/*.puml``), read as text.  A line is normalised to a *shape*:
quoted strings become ``"S"``, an activity line ``:...;`` becomes ``:X;`` and
parenthesised free text after ``repeat while`` / ``if`` / ``else`` is
dropped.
"""
from __future__ import annotations

import re
from dataclasses import dataclass, field
from pathlib import Path
from typing import Iterable, Optional

from .core import AnalysisError


def shape(line: str) -> str:
    s = line.replace("\r", "").strip()
    if not s:
        return ""
    s = re.sub(r'"[^"]*"', '"S"', s)
    if re.match(r"^(#\w+)?:.*;$", s):
        return ":X;"
    if s.startswith("repeat while"):
        return "repeat while"
    if s.startswith("'") or s.startswith("/'"):
        return "<comment>"
    return s


@dataclass
class Corpus:
    files: list[Path] = field(default_factory=list)
    lexicon: dict[str, int] = field(default_factory=dict)
    lines: dict[str, list[str]] = field(default_factory=dict)


def load_corpus(root: Path) -> Corpus:
    c = Corpus()
    for base in ("end-to-end-pumls", "puml_files"):
        d = root / base
        if d.is_dir():
            c.files.extend(sorted(d.rglob("*.puml")))
    if len(c.files) < 20:
        raise AnalysisError(f"PlantUML corpus not found under {root} "
                            f"({len(c.files)} files)")
    for f in c.files:
        shapes = [shape(x) for x in f.read_text(
            encoding="utf-8", errors="replace").splitlines()]
        shapes = [s for s in shapes if s and s != "<comment>"]
        c.lines[str(f.relative_to(root))] = shapes
        for s in shapes:
            c.lexicon[s] = c.lexicon.get(s, 0) + 1
    return c


def check_brackets(corpus: Corpus,
                   families: dict[str, tuple[str, Optional[str], str]]
                   ) -> tuple[dict[str, int], list[str]]:
    """Treat every family (open, separator, close) as a bracket pair and run
    a stack over each corpus file.  Returns (support per family = number of
    properly closed blocks seen, list of mismatches)."""
    opens = {o: f for f, (o, _s, _c) in families.items()}
    closes = {c: f for f, (_o, _s, c) in families.items()}
    seps = {s: f for f, (_o, s, _c) in families.items() if s}
    support = {f: 0 for f in families}
    problems: list[str] = []
    for name, shapes in corpus.lines.items():
        stack: list[str] = []
        bad = False
        for s in shapes:
            if s in opens and not (s in closes and stack
                                   and stack[-1] == closes[s]):
                stack.append(opens[s])
            elif s in closes:
                fam = closes[s]
                if not stack or stack[-1] != fam:
                    problems.append(
                        f"{name}: '{s}' closes "
                        f"'{stack[-1] if stack else 'nothing'}' "
                        f"(family {fam})")
                    bad = True
                    break
                stack.pop()
                support[fam] += 1
            elif s in seps:
                fam = seps[s]
                if not stack or stack[-1] != fam:
                    problems.append(f"{name}: separator '{s}' outside its "
                                    f"block (family {fam})")
                    bad = True
                    break
        if not bad and stack:
            problems.append(f"{name}: unclosed {stack}")
    return support, problems
