"""C05 -- emitted PlantUML is well-formed and names exactly the observed
events (table / placeholder / label clauses)."""
from __future__ import annotations

import ast
import re
from typing import Any, Optional

from ..cfg import ENTRY
from ..core import (AnalysisError, FuncInfo, Report, call_name, const_value,
                    dotted, unparse)
from ..ctx import Ctx
from ..dataflow import default_of
from ..tables import check_brackets, load_corpus, shape
from .util import (actual, arm_where, calls_in, cguards, ctor_arg,
                   enclosing, kw)

EXPLANATION = (
    "Whether the DFS linearisation closes blocks correctly depends on the "
    "shape of the graph the walker built and is NOT decided. Decided: R5.1 "
    "the emission tables are total, paired and balanced (every "
    "PUMLOperatorNodes member has a map entry; each PUMLOperator is (START_X, "
    "END_X[, PATH_X]) of one family; the path-function map has exactly the "
    "START members and returns the PATH member of the same family, none for "
    "the first path; indent deltas of START and END cancel). R5.2 every "
    "constant line the writer can emit has a shape in the lexicon of the "
    "repository's own hand-written corpus (125 .puml files, read as text) "
    "and each family's (open, separator, close) strings bracket-match on "
    "that corpus with non-zero support. R5.3 the frame is one partition and "
    "one group, properly nested around the body. R5.4 every internal "
    "placeholder introduced upstream (discovered: module constants that "
    "flow into Event(...) or a meta-data EventType) has a sink that is "
    "executed on every path before the text is produced, recursing into "
    "loop bodies; the only tolerated guard is keep_dummy_events, whose "
    "default and every repository call site is False. R5.5 the label is the "
    "event type, untouched, along Event.event_type -> Node.event_type -> "
    "create_event_node -> PUMLEventNode.node_type -> ':{node_type};'. R5.6 "
    "break / detach are emitted only as the last line of the node that owns "
    "them."
    " Added: R5.7 copies of a diagram node carry every constructor field; R5.8 separators are indexed by branch position; R5.9 every opened block gets its end node connected; R5.10 the per-path lists of a logic block rotate in lock-step; R5.11 the output file is opened only after the text exists; R5.12 every diagram node gets a fresh identity, the parent reference of the node it stands for and is registered on every path; R5.13 every created event node is connected from its predecessor; R5.14 (anchor: loop end dummy inherits the merge evidence of the loop's exits) the dummy start / end of a loop body mirror the boundary evidence of the parent graph - see R7.12.")
TRUSTED = ["the repository's hand-written corpus is the oracle for the "
           "dialect plus2json consumes"]
NOT_DECIDED = ["block closure and nesting as a function of graph shape",
               "position of break/detach inside a branch"]
ASSUMPTIONS: list[str] = []


def check(rep: Report, ctx: Ctx) -> None:
    tables = r51(rep, ctx)
    r52_53(rep, ctx, tables)
    r54(rep, ctx)
    r55(rep, ctx)
    r56(rep, ctx)
    r57(rep, ctx)
    # R5.22 first: when the rendering is stateful the separator logic may
    # have any shape; R5.8 then has no subject of its own
    n0 = len(rep.violations)
    r522(rep, ctx)
    if len(rep.violations) > n0:
        try:
            r58(rep, ctx)
        except AnalysisError:
            rep.minima["R5.8"] = 0
    else:
        r58(rep, ctx)
    r59(rep, ctx)
    r510(rep, ctx)
    r511(rep, ctx)
    r512(rep, ctx)
    r513(rep, ctx)
    r514(rep, ctx)
    r515(rep, ctx)
    r516(rep, ctx)
    r517(rep, ctx)
    r518(rep, ctx)
    r519(rep, ctx)
    r520(rep, ctx)
    r521(rep, ctx)
    r523(rep, ctx)
    r524(rep, ctx)
    r525(rep, ctx)
    r526(rep, ctx)


# --------------------------------------------------------------------------
def _enum_raw(ctx: Ctx, name: str) -> dict[str, ast.AST]:
    c = ctx.index.cls(name)
    return {st.targets[0].id: st.value for st in c.node.body
            if isinstance(st, ast.Assign)
            and isinstance(st.targets[0], ast.Name)}


def r51(rep: Report, ctx: Ctx) -> dict[str, Any]:
    rep.rule("R5.1", "emission tables are total, paired and balanced", 12)
    pg = ctx.index.module("puml_graph")
    types = ctx.index.cls("PUMLOperatorNodes").module
    nodes = {k: const_value(v) for k, v in _enum_raw(
        ctx, "PUMLOperatorNodes").items()}
    try:
        pmap = pg.constant("OPERATOR_NODE_PUML_MAP")
    except Exception as exc:
        raise AnalysisError(f"OPERATOR_NODE_PUML_MAP: {exc}")
    missing = {k: v for k, v in nodes.items() if tuple(v) not in pmap}
    rep.ob("R5.1", "every operator node has an emission entry", not missing,
           detail=f"missing: {missing}" if missing else
           f"{len(nodes)} members, {len(pmap)} entries (the writer indexes "
           "the map unguarded)")
    rep.obligations[-1].func = "puml_graph:OPERATOR_NODE_PUML_MAP"
    rep.obligations[-1].file = pg.relpath
    ops = _enum_raw(ctx, "PUMLOperator")
    fam_lines: dict[str, tuple[str, Optional[str], str]] = {}
    for x, v in ops.items():
        names = [e.attr for e in v.elts] if isinstance(v, ast.Tuple) else []
        roles = [nodes.get(n) for n in names]
        ok = len(names) in (2, 3) and roles[0] == ("START", x) and roles[1] \
            == ("END", x) and (len(names) == 2 or roles[2] == ("PATH", x))
        rep.ob("R5.1", f"PUMLOperator.{x} = (START_{x}, END_{x}[, PATH_{x}])",
               ok, detail=f"{names} -> {roles}")
        rep.obligations[-1].func = f"tel2puml_types:PUMLOperator.{x}"
        rep.obligations[-1].file = types.relpath
        if not ok:
            continue
        start = pmap.get(("START", x))
        end = pmap.get(("END", x))
        path = pmap.get(("PATH", x)) if len(names) == 3 else None
        if start is None or end is None:
            continue
        bal = start[1] + end[1] == 0 and (path is None or path[1] == 0)
        rep.ob("R5.1", f"{x}: indent deltas cancel", bal,
               detail=f"START {start[1]:+d}, END {end[1]:+d}"
                      + (f", PATH {path[1]:+d}" if path else ""))
        rep.obligations[-1].func = "puml_graph:OPERATOR_NODE_PUML_MAP"
        rep.obligations[-1].file = pg.relpath
        if path is not None:
            sep_ok = len(path[0]) == 1 and (len(start[0]) == 1
                                            or start[0][1] == path[0][0])
            rep.ob("R5.1", f"{x}: the first path is opened like the others",
                   sep_ok, detail=f"START lines {start[0]}, PATH lines "
                   f"{path[0]} (a two-line START must end with the PATH "
                   "line)")
            rep.obligations[-1].func = "puml_graph:OPERATOR_NODE_PUML_MAP"
            rep.obligations[-1].file = pg.relpath
        fam_lines[x] = (start[0][0], path[0][0] if path else None, end[0][0])
    # path function map
    pf = pg.assigns.get("OPERATOR_PATH_FUNCTION_MAP")
    if not pf:
        raise AnalysisError("OPERATOR_PATH_FUNCTION_MAP not found")
    d = pf[0].value  # type: ignore[attr-defined]
    keys = {k.attr: v for k, v in zip(d.keys, d.values)
            if isinstance(k, ast.Attribute)}
    starts = {n for n, v in nodes.items() if v[0] == "START"}
    rep.ob("R5.1", "path functions exist for exactly the START nodes",
           set(keys) == starts, detail=f"keys {sorted(keys)}; START members "
           f"{sorted(starts)}")
    rep.obligations[-1].func = "puml_graph:OPERATOR_PATH_FUNCTION_MAP"
    rep.obligations[-1].file = pg.relpath
    for k, lam in keys.items():
        fam = nodes[k][1]
        body = lam.body if isinstance(lam, ast.Lambda) else None
        has_path = ("PATH", fam) in [tuple(v) for v in nodes.values()]
        if not has_path:
            ok = isinstance(body, ast.Constant) and body.value is None
            why = "no PATH member: returns None"
        else:
            ok = isinstance(body, ast.IfExp) and unparse(body.test).replace(
                " ", "") in ("x==0", "0==x") and isinstance(
                body.body, ast.Constant) and body.body.value is None \
                and isinstance(body.orelse, ast.Call) and any(
                    isinstance(a, ast.Attribute) and a.attr == f"PATH_{fam}"
                    for a in body.orelse.args)
            why = f"lambda x: None if x == 0 else PATH_{fam}"
        rep.ob("R5.1", f"path function of {k}", ok,
               detail=f"{unparse(lam)[:90]} ({why})")
        rep.obligations[-1].func = "puml_graph:OPERATOR_PATH_FUNCTION_MAP"
        rep.obligations[-1].file = pg.relpath
    return {"families": fam_lines, "pmap": pmap}


# --------------------------------------------------------------------------
def _template(e: ast.AST) -> Optional[str]:
    """Constant skeleton of a line expression: constants kept, indentation
    (`" " * n`) dropped, everything else a hole ``{}``."""
    if isinstance(e, ast.Constant) and isinstance(e.value, str):
        return e.value
    if isinstance(e, ast.BinOp) and isinstance(e.op, ast.Mult):
        for a in (e.left, e.right):
            if isinstance(a, ast.Constant) and isinstance(a.value, str) \
                    and a.value.strip() == "":
                return ""
    if isinstance(e, ast.BinOp) and isinstance(e.op, ast.Add):
        l, r = _template(e.left), _template(e.right)
        return None if l is None or r is None else l + r
    if isinstance(e, ast.JoinedStr):
        out = ""
        for v in e.values:
            if isinstance(v, ast.Constant):
                out += str(v.value)
            elif isinstance(v, ast.FormattedValue):
                t = _template(v.value)
                out += t if t == "" else "{}"
        return out
    if isinstance(e, ast.Starred):
        return None
    return "{}"


def _emitted_lines(fi: FuncInfo) -> list[tuple[ast.AST, str]]:
    out = []
    for n in ast.walk(fi.node):
        items: list[ast.AST] = []
        if isinstance(n, ast.Call) and call_name(n) == "append" and n.args:
            items = [n.args[0]]
        elif isinstance(n, ast.List):
            items = list(n.elts)
        for it in items:
            if isinstance(it, ast.Starred):
                continue
            t = _template(it)
            if t is not None and t.strip() not in ("", "{}"):
                out.append((it, t))
    return out


def r52_53(rep: Report, ctx: Ctx, tables: dict[str, Any]) -> None:
    rep.rule("R5.2", "emitted lexicon is inside the corpus lexicon; closers "
             "match openers on the corpus", 14)
    corpus = load_corpus(ctx.index.root)
    rep.analysed["corpus_files"] = len(corpus.files)
    rep.analysed["corpus_shapes"] = len(corpus.lexicon)
    pg = ctx.index.module("puml_graph")
    emitted: list[tuple[str, str, Optional[FuncInfo], Optional[ast.AST]]] = []
    for key, (lines, _d, _u) in tables["pmap"].items():
        for ln in lines:
            emitted.append((f"OPERATOR_NODE_PUML_MAP[{key}]", ln, None, None))
    writers = [ctx.func("PUMLEventNode.write_uml_blocks"),
               ctx.func("PUMLEventNode._write_event_blocks"),
               ctx.func("PUMLOperatorNode.write_uml_blocks"),
               ctx.func("PUMLKillNode.write_uml_blocks"),
               ctx.func("PUMLGraph.write_puml_string")]
    for w in writers:
        for node, t in _emitted_lines(w):
            emitted.append((w.short, t, w, node))
    seen = set()
    for where, text, fi, node in emitted:
        sh = shape(text.replace("{}", "X") if not text.startswith(":")
                   else ":X;")
        key = (where, sh)
        if key in seen:
            continue
        seen.add(key)
        n = corpus.lexicon.get(sh, 0)
        rep.ob("R5.2", f"{where}: '{sh}' is a corpus line shape", n > 0,
               fi=fi, node=node,
               detail=f"template '{text}' -> shape '{sh}', {n} occurrence(s) "
                      f"in {len(corpus.files)} corpus files"
                      + ("" if n else " -- the repository holds no evidence "
                         "that plus2json accepts this spelling"))
        if fi is None:
            rep.obligations[-1].func = "puml_graph:OPERATOR_NODE_PUML_MAP"
            rep.obligations[-1].file = pg.relpath
    fams = {f: (shape(o), shape(s) if s else None, shape(c))
            for f, (o, s, c) in tables["families"].items()}
    fams["partition"] = ('partition "S" {', None, "}")
    fams["group"] = ('group "S"', None, "end group")
    support, problems = check_brackets(corpus, fams)
    for f, trip in fams.items():
        mine = [p for p in problems if f"family {f})" in p]
        ok = support.get(f, 0) > 0 and not mine
        rep.ob("R5.2", f"family {f}: {trip} brackets the corpus", ok,
               detail=f"{support.get(f, 0)} properly closed block(s)"
                      + (f"; mismatches: {mine[:2]}" if mine else ""))
        rep.obligations[-1].func = "puml_graph:OPERATOR_NODE_PUML_MAP"
        rep.obligations[-1].file = pg.relpath
    # the loop strings in the event-node writer equal the table's
    w = writers[0]
    texts = {t for _, t in _emitted_lines(w)}
    lp = tables["families"].get("LOOP")
    if lp:
        rep.ob("R5.2", "loop keywords agree between table and sub-graph "
               "writer", {lp[0], lp[2]} <= texts, fi=w, node=w.node,
               detail=f"table {lp[0]!r}/{lp[2]!r}; writer emits "
                      f"{sorted(texts)}")
    # ---- R5.3 frame
    rep.rule("R5.3", "the frame is one partition and one group around the "
             "body", 1)
    ws = writers[4]
    lists = [n for n in ast.walk(ws.node) if isinstance(n, ast.List)
             and any(isinstance(e, ast.Starred) for e in n.elts)]
    ok, seq = False, []
    if len(lists) == 1:
        for e in lists[0].elts:
            if isinstance(e, ast.Starred):
                seq.append("BODY" if call_name(e.value) == "write_uml_blocks"
                           else "?")
            else:
                seq.append(shape((_template(e) or "?").replace("{}", "S")))
        ok = seq == ["@startuml", 'partition "S" {', 'group "S"', "BODY",
                     "end group", "}", "@enduml"]
    rep.ob("R5.3", "frame sequence", ok, fi=ws,
           node=lists[0] if lists else ws.node, detail=" . ".join(seq))
    rets = [r for r in ast.walk(ws.node) if isinstance(r, ast.Return)]
    rv = ctx.reach(ws).resolve(rets[0].value, at=rets[0]) if len(rets) == 1 \
        and rets[0].value is not None else None
    ok = False
    if isinstance(rv, ast.Call) and isinstance(rv.func, ast.Attribute) \
            and rv.func.attr == "join" and isinstance(
                rv.func.value, ast.Constant) and rv.func.value.value == "\n" \
            and len(rv.args) == 1:
        src = ctx.reach(ws).resolve(rv.args[0], at=rets[0])
        ok = bool(lists) and (src is lists[0] or (
            isinstance(rv.args[0], ast.Name) and any(
                b.value is lists[0]
                for b in ctx.defs(ws).of(rv.args[0].id))))
    rep.ob("R5.3", "lines are joined by newlines", ok, fi=ws,
           node=rets[0] if rets else ws.node,
           detail=unparse(rets[0].value) if rets else "<missing>")


# --------------------------------------------------------------------------
def _placeholders(ctx: Ctx) -> dict[str, list[tuple[FuncInfo, ast.AST]]]:
    """Module-level string constants that flow into Event(...)/LoopEvent(...)
    first argument or a meta_data 'EventType'."""
    consts: dict[str, str] = {}
    for m in ctx.index.modules.values():
        for name, sts in m.assigns.items():
            v = sts[0].value  # type: ignore[attr-defined]
            if isinstance(v, ast.Constant) and isinstance(v.value, str) \
                    and name.isupper():
                consts[name] = v.value
    out: dict[str, list[tuple[FuncInfo, ast.AST]]] = {}
    for fi in ctx.index.all_functions():
        for n in ast.walk(fi.node):
            if isinstance(n, ast.Call) and call_name(n) in ("Event",
                                                           "LoopEvent") \
                    and n.args:
                a = n.args[0]
                for x in ast.walk(ctx.defs(fi).resolve_deep(a)):
                    if isinstance(x, ast.Name) and x.id in consts:
                        out.setdefault(x.id, []).append((fi, n))
                if isinstance(a, ast.Constant) and isinstance(a.value, str):
                    out.setdefault(repr(a.value), []).append((fi, n))
            if isinstance(n, ast.Dict):
                for k, v in zip(n.keys, n.values):
                    if isinstance(k, ast.Constant) and k.value == "EventType" \
                            and isinstance(v, ast.Name) and v.id in consts:
                        out.setdefault(v.id, []).append((fi, n))
    # a helper that builds the name from a constant (LOOP_n)
    for fi in ctx.index.all_functions():
        rets = []
        for r in ast.walk(fi.node):
            if isinstance(r, ast.Return) and r.value is not None:
                v = ctx.reach(fi).resolve(r.value, at=r)
                if isinstance(v, ast.JoinedStr):
                    rets.append((r, v))
        for r, v in rets:
            for x in ast.walk(v):
                if isinstance(x, ast.Name) and x.id in consts:
                    for q in ctx.cg.callers(fi):
                        caller = ctx.index.functions[q]
                        if any(isinstance(c, ast.Call) and call_name(c) in (
                                "Event", "LoopEvent")
                                for c in ast.walk(caller.node)):
                            out.setdefault(x.id, []).append((fi, r))
    return out


def r54(rep: Report, ctx: Ctx) -> None:
    rep.rule("R5.4", "every placeholder has a sink before the writer", 7)
    entry = ctx.func("pv_to_puml_string")
    cfg = ctx.cfg(entry)
    ph = _placeholders(ctx)
    rep.analysed["placeholders"] = {k: sorted({f.short for f, _ in v})
                                    for k, v in ph.items()}
    if len(ph) < 4:
        raise AnalysisError(f"only {len(ph)} placeholders discovered "
                            f"({sorted(ph)}); the discovery pattern no "
                            "longer matches")
    wcalls = [c for c in ast.walk(entry.node) if isinstance(c, ast.Call)
              and call_name(c) == "write_puml_string"]
    if len(wcalls) != 1:
        raise AnalysisError("pv_to_puml_string: writer call not found")
    wn = cfg.container(wcalls[0])
    # sinks: functions that select nodes by node_type == P and remove them
    sinks: dict[str, list[FuncInfo]] = {}
    for fi in ctx.index.all_functions():
        for c in ast.walk(fi.node):
            if isinstance(c, ast.Compare) and len(c.ops) == 1 and isinstance(
                    c.ops[0], ast.Eq):
                sides = [c.left, c.comparators[0]]
                nt = [x for x in sides if unparse(x).endswith(".node_type")]
                nm = [x for x in sides if isinstance(x, ast.Name)]
                if len(nt) != 1 or len(nm) != 1:
                    continue
                p = nm[0].id
                removes = any(isinstance(x, ast.Call) and call_name(x) in (
                    "remove_node", "remove_nodes_from")
                    for x in ast.walk(fi.node))
                reach = removes or any(
                    any(isinstance(x, ast.Call) and call_name(x) ==
                        "remove_node" for x in ast.walk(
                            ctx.index.functions[q].node))
                    for q in ctx.cg.closure([fi]))
                if reach:
                    sinks.setdefault(p, []).append(fi)
    closures = {}
    for site in ctx.cg.sites_in(entry):
        nid = cfg.container(site.node)
        if nid is not None:
            closures.setdefault(nid, set()).update(
                ctx.cg.closure([c.qualname for c in site.callees]))
    _sinks_not_swallowed(rep, ctx, entry, sinks)
    for p in sorted(ph):
        if p == "LOOP_EVENT_TYPE":
            _loop_placeholder(rep, ctx)
            continue
        ss = sinks.get(p, [])
        if not ss:
            f0, n0 = ph[p][0]
            rep.ob("R5.4", f"placeholder {p} has a sink", False, fi=f0,
                   node=n0, detail=f"{p} names internal events (introduced "
                   f"in {sorted({f.short for f, _ in ph[p]})}) but no "
                   "function removes nodes of that type: it would be "
                   "written as an activity")
            continue
        sq = {s.qualname for s in ss}
        through = {n for n, cl in closures.items() if cl & sq}
        ok = bool(through) and cfg.every_path_passes(ENTRY, wn, through)
        guard_note = ""
        if not ok and through:
            # tolerated guard: keep_dummy_events (default False, no caller
            # passes True)
            ok2, guard_note = _tolerated_guard(ctx, entry, cfg, through, wn)
            ok = ok2
        rep.ob("R5.4", f"placeholder {p}: sink runs before the writer", ok,
               fi=entry, node=wcalls[0],
               detail=f"sink(s) {sorted(s.short for s in ss)}; "
                      + (f"reached by {len(through)} statement(s) of the "
                         f"pipeline{guard_note}" if through else
                         "not reachable from the pipeline")
                      + ("" if ok else " -- a path reaches "
                         "write_puml_string with the placeholder still in "
                         "the graph"))
        for s in ss:
            rec = _recurses_into_sub_graphs(ctx, s)
            rep.ob("R5.4", f"sink {s.short} reaches loop bodies", rec, fi=s,
                   node=s.node,
                   detail="called from a function that recurses over "
                          ".sub_graph" if rec else "top-level graph only: "
                          "placeholders inside loop bodies survive")


def _sinks_not_swallowed(rep: Report, ctx: Ctx, entry: FuncInfo,
                         sinks: dict[str, list[FuncInfo]]) -> None:
    """A sink that cannot resolve its placeholder raises (e.g. a break point
    beneath an AND); the conversion must then fail as a whole.  A handler
    that completes normally around a call that reaches a sink lets the
    writer see the unresolved placeholder (seed C05-u: `:DUMMY_BREAK;`)."""
    sq = {s.qualname for ss in sinks.values() for s in ss}
    sq = ctx.cg.closure(sq) if sq else set()
    bad = []
    n_try = 0
    for q in sorted(ctx.cg.closure([entry])):
        fi = ctx.index.functions.get(q)
        if fi is None:
            continue
        for t in ast.walk(fi.node):
            if not isinstance(t, ast.Try):
                continue
            n_try += 1
            inside = {id(x) for st in t.body for x in ast.walk(st)}
            reach: set[str] = set()
            for site in ctx.cg.sites_in(fi):
                if id(site.node) in inside:
                    reach |= ctx.cg.closure(
                        [c.qualname for c in site.callees])
            if not (reach & sq):
                continue
            for h in t.handlers:
                last = h.body[-1] if h.body else None
                if not isinstance(last, ast.Raise):
                    bad.append((fi, h))
    rep.ob("R5.4", "a sink that fails aborts the conversion: no handler "
           "that completes normally encloses a call reaching a sink", not bad,
           fi=bad[0][0] if bad else entry,
           node=bad[0][1] if bad else entry.node,
           detail=(f"handler '{unparse(bad[0][1])[:70]}' in "
                   f"{bad[0][0].short} swallows a failure of a placeholder "
                   "sink; the writer then emits the placeholder as an "
                   "activity" if bad else
                   f"{n_try} try statement(s) in the closure of "
                   f"{entry.name}, none around a sink"))


def _tolerated_guard(ctx: Ctx, entry: FuncInfo, cfg, through: set[int],
                     wn: int) -> tuple[bool, str]:
    flags = set()
    for n in through:
        for t, sense in cfg.path_condition(n):
            flags.add((unparse(t), sense))
    if flags != {("not keep_dummy_events", True)} and flags != {
            ("keep_dummy_events", False)}:
        return False, f" under guard(s) {sorted(flags)}"
    d = default_of(entry.node, "keep_dummy_events")
    if not (isinstance(d, ast.Constant) and d.value is False):
        return False, " (keep_dummy_events does not default to False)"
    # no repository call site passes a value that can be True
    todo, seen = [(entry, "keep_dummy_events")], set()
    while todo:
        f, par = todo.pop()
        if (f.qualname, par) in seen:
            continue
        seen.add((f.qualname, par))
        for q in ctx.cg.callers(f):
            caller = ctx.index.functions[q]
            for call in calls_in(ctx, caller, f):
                a = actual(call, f, par)
                if a is None:
                    continue
                if isinstance(a, ast.Constant) and a.value is False:
                    continue
                if isinstance(a, ast.Name) and ctx.defs(caller).only_param(
                        a.id):
                    dd = default_of(caller.node, a.id)
                    if isinstance(dd, ast.Constant) and dd.value is False:
                        todo.append((caller, a.id))
                        continue
                return False, (f" ({caller.short} passes "
                               f"keep_dummy_events={unparse(a)})")
    return True, " (guarded only by keep_dummy_events, which is False on " \
                 "every repository path)"


def _recurses_into_sub_graphs(ctx: Ctx, sink: FuncInfo) -> bool:
    cands = {sink.qualname} | set(ctx.cg.callers(sink))
    for _ in range(2):
        for q in list(cands):
            cands |= set(ctx.cg.callers(q))
    for q in cands:
        f = ctx.index.functions[q]
        if q in ctx.cg.callees(f) and any(
                isinstance(a, ast.Attribute) and a.attr == "sub_graph"
                for a in ast.walk(f.node)) and (
                sink.qualname in ctx.cg.closure([f])):
            # ... and the recursion visits EVERY node that has a body: the
            # loop over the nodes is not left early (a `return recursion(..)`
            # or `break` inside it cleans the first loop body only)
            from ..roles import _cut_short
            for c in ast.walk(f.node):
                if isinstance(c, ast.Call) and call_name(c) == f.node.name:
                    loops = enclosing(f.node, c, (ast.For, ast.While))
                    if any(_cut_short(l) for l in loops):
                        return False
            return True
    return False


def _loop_placeholder(rep: Report, ctx: Ctx) -> None:
    w = ctx.func("PUMLEventNode.write_uml_blocks")
    ifs = [i for i in w.node.body if isinstance(i, ast.If)]
    has_body = ("cmp", "self.sub_graph", "IsNot", "None")
    arm = arm_where(ifs[0], has_body) if ifs else None
    ok = arm is not None \
        and any(call_name(c) == "write_uml_blocks" and "sub_graph" in
                unparse(c.func) for st in arm for c in ast.walk(st)
                if isinstance(c, ast.Call)) and not any(
            call_name(c) == "_write_event_blocks" for st in arm
            for c in ast.walk(st) if isinstance(c, ast.Call))
    rep.ob("R5.4", "loop nodes are written as their body, never by name", ok,
           fi=w, node=ifs[0] if ifs else w.node,
           detail="if self.sub_graph is not None: write the sub graph "
                  "(else: the event line)")
    wn = ctx.func("walk_nested_graph")
    att = [c for c in ast.walk(wn.node) if isinstance(c, ast.Call)
           and call_name(c) == "add_sub_graph_to_puml_nodes_with_ref"]
    ok = False
    if len(att) == 1:
        loops = enclosing(wn.node, att[0], (ast.For,))
        defs = ctx.defs(wn)
        if loops and not enclosing(loops[-1], att[0], (ast.If,)):
            src = defs.of(unparse(loops[-1].iter))
            # the list iterated holds one entry per SubGraphNode
            fill = [c for c in ast.walk(wn.node) if isinstance(c, ast.Call)
                    and call_name(c) == "append"
                    and unparse(c.func.value) == unparse(loops[-1].iter)]
            ok = len(fill) == 1
            if ok:
                fl = enclosing(wn.node, fill[0], (ast.For,))
                it = defs.resolve(fl[-1].iter) if fl else None
                filled = ctx.reach(wn).resolve_deep(fill[0].args[0],
                                                    at=fill[0])
                ok = bool(fl) and not enclosing(fl[-1], fill[0], (ast.If,)) \
                    and isinstance(it, ast.ListComp) and "SubGraphNode" in \
                    unparse(it) and "walk_nested_graph" in unparse(filled)
    rep.ob("R5.4", "every SubGraphNode gets its walked body attached", ok,
           fi=wn, node=att[0] if att else wn.node,
           detail="for each SubGraphNode: attach walk_nested_graph("
                  "node.sub_graph) to the PUML nodes that reference it")


# --------------------------------------------------------------------------
def r55(rep: Report, ctx: Ctx) -> None:
    rep.rule("R5.5", "labels are the event types, untouched", 7)

    def plain(e: Optional[ast.AST], attr: str) -> bool:
        return isinstance(e, ast.Attribute) and e.attr == attr and \
            isinstance(e.value, ast.Name)
    mk = ctx.func("create_node_from_event")
    for c in [c for c in ast.walk(mk.node) if isinstance(c, ast.Call)
              and call_name(c) in ("Node", "SubGraphNode")]:
        v = ctor_arg(ctx, c, call_name(c) or "Node", "event_type")
        rep.ob("R5.5", f"{call_name(c)}(event_type=event.event_type)",
               plain(v, "event_type"), fi=mk, node=c,
               detail=f"event_type={unparse(v)}")
    walk_mod = ctx.index.module("walk_puml_logic_graph")
    n = 0
    for f in walk_mod.functions.values():
        for c in ast.walk(f.node):
            if isinstance(c, ast.Call) and call_name(c) == "create_event_node":
                n += 1
                a = c.args[0] if c.args else kw(c, "event_name")
                rep.ob("R5.5", f"{f.short}: create_event_node(<node>."
                       "event_type)", plain(a, "event_type"), fi=f, node=c,
                       detail=f"event_name={unparse(a)}")
    if n < 2:
        raise AnalysisError("walker: create_event_node calls not found")
    cen = ctx.func("PUMLGraph.create_event_node")
    c = [c for c in ast.walk(cen.node) if isinstance(c, ast.Call)
         and call_name(c) == "PUMLEventNode"]
    v = ctor_arg(ctx, c[0], "PUMLEventNode", "event_name") if c else None
    rep.ob("R5.5", "PUMLEventNode(event_name=event_name)",
           isinstance(v, ast.Name) and v.id == "event_name"
           and ctx.defs(cen).only_param("event_name"), fi=cen,
           node=c[0] if c else cen.node, detail=f"event_name={unparse(v)}")
    init = ctx.func("PUMLEventNode.__init__")
    defs = ctx.defs(init)
    sup = [c for c in ast.walk(init.node) if isinstance(c, ast.Call)
           and call_name(c) == "__init__"]
    v = kw(sup[0], "node_type") if sup else None
    vr = defs.resolve(v) if v is not None else None
    rep.ob("R5.5", "node_type = event_name", isinstance(vr, ast.Name)
           and vr.id == "event_name" and defs.only_param("event_name"),
           fi=init, node=sup[0] if sup else init.node,
           detail=f"node_type={unparse(v)} -> {unparse(vr)}")
    nx = ctx.func("NXNode.__init__")
    st = [s for s in ast.walk(nx.node) if isinstance(s, ast.Assign)
          and unparse(s.targets[0]) == "self.node_type"]
    rep.ob("R5.5", "NXNode keeps node_type", len(st) == 1 and unparse(
        st[0].value) == "node_type", fi=nx, node=st[0] if st else nx.node,
        detail=unparse(st[0]) if st else "<missing>")
    web = ctx.func("PUMLEventNode._write_event_blocks")
    js = [j for j in ast.walk(web.node) if isinstance(j, ast.JoinedStr)
          and (_template(j) or "").startswith(":")]
    ok = False
    if len(js) == 1:
        fv = [v for v in js[0].values if isinstance(v, ast.FormattedValue)]
        label = [v for v in fv if unparse(v.value) == "self.node_type"]
        ok = len(label) == 1 and label[0].conversion == -1 \
            and label[0].format_spec is None and (_template(js[0]) or ""
                                                  ).endswith(";")
    rep.ob("R5.5", "the activity line prints node_type verbatim", ok, fi=web,
           node=js[0] if js else web.node,
           detail=unparse(js[0]) if js else "<missing>")


def r56(rep: Report, ctx: Ctx) -> None:
    rep.rule("R5.6", "break / detach close the node that owns them", 3)
    web = ctx.func("PUMLEventNode._write_event_blocks")
    apps = [c for c in ast.walk(web.node) if isinstance(c, ast.Call)
            and call_name(c) == "append"]
    rweb = ctx.reach(web)
    brk = [c for c in apps if (_template(rweb.resolve(c.args[0], at=c))
                               or "") == "break"]
    ok = len(brk) == 1 and apps and apps[-1] is brk[0] and all(
        c.lineno <= brk[0].lineno for c in apps)
    g = cguards(ctx, web, brk[0]) if brk else []
    ok = ok and len(g) == 1 and g[0][0] == "cmp" and g[0][2] == "In" \
        and g[0][1] == "PUMLEvent.BREAK"
    rep.ob("R5.6", "event node: break is the last line, only for BREAK "
           "events", ok, fi=web, node=brk[0] if brk else web.node,
           detail="blocks.append(':X;'); if BREAK: blocks.append('break')")
    w = ctx.func("PUMLEventNode.write_uml_blocks")
    apps = [c for c in ast.walk(w.node) if isinstance(c, ast.Call)
            and call_name(c) == "append"]
    rw = ctx.reach(w)
    brk = [c for c in apps if (_template(rw.resolve(c.args[0], at=c))
                               or "") == "break"]
    ok = len(brk) == 1
    if ok:
        gs = cguards(ctx, w, brk[0])
        is_break = ("cmp", "PUMLEvent.BREAK", "In", "self.event_types")
        has_body = ("cmp", "self.sub_graph", "IsNot", "None")
        ok = gs == [has_body, is_break]
        if ok:
            # the loop block (repeat .. repeat while, or the bare body) is
            # complete before the break line is appended
            wcfg = ctx.cfg(w)
            bn = wcfg.container(brk[0])
            body_defs = [b for b in ctx.defs(w).of(unparse(
                brk[0].func.value)) if b.kind == "assign"
                and wcfg.has(b.stmt)]
            loopish = [b for b in body_defs if has_body in cguards(
                ctx, w, b.stmt)]
            ok = bool(loopish) and bn is not None and \
                wcfg.every_path_defines(
                    0, bn, [wcfg.node(b.stmt) for b in loopish])
    rep.ob("R5.6", "loop node: break follows the whole loop block", ok, fi=w,
           node=brk[0] if brk else w.node,
           detail="blocks = repeat..repeat while; if BREAK: append('break')")
    rp = [st for st in ast.walk(w.node) if isinstance(st, ast.Assign)
          and any((_template(e) or "") == "repeat" for x in ast.walk(st.value)
                  if isinstance(x, ast.List) for e in x.elts)]
    ok = len(rp) == 1 and ("cmp", "PUMLEvent.LOOP", "In",
                           "self.event_types") in cguards(ctx, w, rp[0])
    rep.ob("R5.6", "repeat .. repeat while frames exactly the LOOP nodes",
           ok, fi=w, node=rp[0] if rp else w.node,
           detail="the repeat frame is built under `PUMLEvent.LOOP in "
                  "self.event_types`")
    k = ctx.func("PUMLKillNode.write_uml_blocks")
    lines = [t for _, t in _emitted_lines(k)]
    rep.ob("R5.6", "kill node emits exactly one detach", lines == ["detach"],
           fi=k, node=k.node, detail=f"lines {lines}")


def r57(rep: Report, ctx: Ctx) -> None:
    rep.rule("R5.7", "a PUML event node copied from another carries every "
             "field the constructor accepts (the loop body, the parent "
             "reference, the event types)", 3)
    cen = ctx.func("PUMLGraph.create_event_node")
    init = ctx.func("PUMLEventNode.__init__")
    declared = {n.attr for n in ast.walk(init.node)
                if isinstance(n, ast.Attribute) and isinstance(n.ctx, ast.Store)
                and isinstance(n.value, ast.Name) and n.value.id == "self"}
    params = [p for p in cen.params() if p not in ("self", "event_name")]
    copy_params = [p for p in params if p in declared]
    sites = 0
    for fi in ctx.index.all_functions():
        for call in calls_in(ctx, fi, cen):
            name_arg = actual(call, cen, "event_name")
            if not (isinstance(name_arg, ast.Attribute)
                    and name_arg.attr == "node_type"
                    and isinstance(name_arg.value, ast.Name)):
                continue      # built from a walker node, not a copy
            src = name_arg.value.id
            sites += 1
            for p in copy_params:
                a = actual(call, cen, p)
                ok = isinstance(a, ast.Attribute) and a.attr == p and \
                    isinstance(a.value, ast.Name) and a.value.id == src
                rep.ob("R5.7", f"{fi.short}: copy of '{src}' passes {p}", ok,
                       fi=fi, node=call,
                       detail=f"{p}={unparse(a) if a is not None else '<default>'}"
                              + ("" if ok else f" -- the copy loses "
                                 f"{src}.{p}" + (": a copied loop node is "
                                                 "then written by its "
                                                 "internal name (LOOP_n) and "
                                                 "its body disappears"
                                                 if p == "sub_graph" else "")))
    if not sites:
        raise AnalysisError("no copy site of a PUML event node found")


def r58(rep: Report, ctx: Ctx) -> None:
    rep.rule("R5.8", "path separators are inserted between the branches of "
             "a block, indexed by the branch's position", 3)
    fi = ctx.func("PUMLGraph._order_nodes_from_dfs_successors_dict")
    loops = [l for l in ast.walk(fi.node) if isinstance(l, ast.For)
             and isinstance(l.iter, ast.Call) and call_name(l.iter)
             == "enumerate"]
    if len(loops) != 1 or not isinstance(loops[0].target, ast.Tuple):
        raise AnalysisError(f"{fi.qualname}: successor enumeration not found")
    loop = loops[0]
    idx, succ = (unparse(e) for e in loop.target.elts)
    src = loop.iter.args[0]
    inner = src.args[0] if isinstance(src, ast.Call) and call_name(src) in (
        "reversed", "list", "sorted") and src.args else src
    ok = unparse(inner) == f"dfs_successor_dict[{fi.params()[0]}]" and len(
        loop.iter.args) == 1 and not loop.iter.keywords
    rep.ob("R5.8", "every successor of the node is visited, counted from 0",
           ok, fi=fi, node=loop, detail=f"for {idx}, {succ} in "
           f"{unparse(loop.iter)[:70]}")
    lookups = [c for c in ast.walk(loop) if isinstance(c, ast.Call)
               and isinstance(c.func, ast.Subscript)
               and unparse(c.func.value) == "OPERATOR_PATH_FUNCTION_MAP"]
    # the path functions only ask "is this the first branch?" (argument 0
    # -> no separator) and number the separator node; the branch index and
    # "nodes ordered so far - 1" answer that question alike (triaged: the
    # second spelling is behaviour-preserving)
    ok = len(lookups) == 1 and len(lookups[0].args) == 1 and (
        unparse(lookups[0].args[0]) == idx or re.fullmatch(
            r"len\(\w+\) - 1", unparse(lookups[0].args[0])) is not None)
    rep.ob("R5.8", "the separator is chosen by the branch index", ok, fi=fi,
           node=lookups[0] if lookups else loop,
           detail=unparse(lookups[0])[:90] if lookups else "<missing>")
    rec = calls_in(ctx, fi, fi)
    rr = ctx.reach(fi)
    ok = len(rec) == 1 and unparse(rec[0].args[0]) == succ and not enclosing(
        loop, rec[0], (ast.If,)) and any(
        isinstance(c, ast.Call) and call_name(c) == "extend" and c.args
        and (any(x is rec[0] for x in ast.walk(c))
             or rr.resolve(c.args[0], at=c) is rec[0])
        for c in ast.walk(loop))
    rep.ob("R5.8", "every successor's sub-order is appended after its "
           "separator", ok, fi=fi, node=rec[0] if rec else loop,
           detail="ordered_nodes.extend(recurse(successor)) unconditionally, "
                  "after the optional path node")
    apps = [c for c in ast.walk(loop) if isinstance(c, ast.Call)
            and call_name(c) == "append"]
    ok = len(apps) == 1 and rec and apps[0].lineno < rec[0].lineno
    rep.ob("R5.8", "the separator precedes the branch", bool(ok), fi=fi,
           node=apps[0] if apps else loop,
           detail="ordered_nodes.append(path_node) before the recursion")


def r59(rep: Report, ctx: Ctx) -> None:
    rep.rule("R5.9", "every opened logic block gets its end node connected",
             4)
    opener = ctx.func("handle_logic_node_cases")
    pair = [c for c in ast.walk(opener.node) if isinstance(c, ast.Call)
            and call_name(c) == "create_operator_node_pair"]
    holder = [c for c in ast.walk(opener.node) if isinstance(c, ast.Call)
              and call_name(c) == "LogicBlockHolder"]
    ok = False
    if len(pair) == 1 and len(holder) == 1:
        asg = enclosing(opener.node, pair[0], (ast.Assign,))
        names = [unparse(e) for e in asg[-1].targets[0].elts] if asg and \
            isinstance(asg[-1].targets[0], ast.Tuple) else []
        ok = len(names) == 2 and [unparse(a) for a in holder[0].args[:2]] \
            == names
        edge = [c for c in ast.walk(opener.node) if isinstance(c, ast.Call)
                and call_name(c) == "add_puml_edge"]
        ok = ok and len(edge) == 1 and unparse(edge[0].args[1]) == names[0] \
            and any(isinstance(c, ast.Call) and call_name(c) == "append"
                    and unparse(c.func.value) == "logic_list"
                    for c in ast.walk(opener.node))
    rep.ob("R5.9", "a block is opened as (start, end), pushed, and entered "
           "through its start node", ok, fi=opener,
           node=pair[0] if pair else opener.node,
           detail="start, end = create_operator_node_pair(..); "
                  "logic_list.append(LogicBlockHolder(start, end, ..)); "
                  "add_puml_edge(previous, start)")
    walk_mod = ctx.index.module("walk_puml_logic_graph")
    pops = 0
    for f in walk_mod.functions.values():
        pm = ctx.index.parents(f)
        for c in ast.walk(f.node):
            if isinstance(c, ast.Call) and call_name(c) == "pop" and unparse(
                    c.func.value) == "logic_list":
                pops += 1
                par = pm.get(c)
                ok = isinstance(par, ast.Attribute) and par.attr == "end_node"
                st = enclosing(f.node, c, (ast.Assign, ast.AnnAssign))
                tgt = unparse(getattr(st[-1], "target", None)
                              or st[-1].targets[0]) if st else ""
                rep.ob("R5.9", f"{f.short}: a closed block continues from "
                       "its end node", ok and tgt.startswith(
                           "previous_puml_node"), fi=f, node=c,
                       detail=f"{tgt} = logic_list.pop().end_node")
    if pops < 2:
        raise AnalysisError("walker: block-closing sites not found")
    closer = ctx.func("handle_reach_logic_merge_point")
    cfg = ctx.cfg(closer)
    ends = [c for c in ast.walk(closer.node) if isinstance(c, ast.Call)
            and call_name(c) == "add_puml_edge" and len(c.args) == 2
            and unparse(c.args[1]) == "logic_list[-1].end_node"]
    path_pop = [c for c in ast.walk(closer.node) if isinstance(c, ast.Call)
                and call_name(c) == "set_path_node"]
    ok = len(ends) == 1 and len(path_pop) == 1 and cfg.dominates(
        cfg.container(ends[0]), cfg.container(path_pop[0])) and unparse(
        ends[0].args[0]) == "previous_puml_node"
    rep.ob("R5.9", "a finished path is joined to the block's end node before "
           "the next path starts", ok, fi=closer,
           node=ends[0] if ends else closer.node,
           detail="add_puml_edge(previous_puml_node, logic_list[-1].end_node)"
                  " dominates set_path_node(pop=True)")


# --------------------------------------------------------------------------
def _self_attr(e: ast.AST) -> Optional[str]:
    if isinstance(e, ast.Attribute) and isinstance(e.value, ast.Name) \
            and e.value.id == "self":
        return e.attr
    return None


def _slice_of(e: ast.AST) -> Optional[tuple[str, Optional[int], Optional[int]]]:
    """``X[a:b]`` -> (text of X, a, b) for constant / missing bounds."""
    if isinstance(e, ast.Subscript) and isinstance(e.slice, ast.Slice) \
            and e.slice.step is None:
        def val(b: Optional[ast.AST]) -> Any:
            if b is None:
                return None
            try:
                return const_value(b)
            except ValueError:
                return "?"
        lo, up = val(e.slice.lower), val(e.slice.upper)
        if "?" not in (lo, up):
            return unparse(e.value), lo, up
    return None


def _rotation_kind(e: ast.AST, subject: str) -> Optional[str]:
    """Classify ``e`` as a rotation of the list named ``subject``:
    'last-to-front' for ``[x] + S[:-1]`` / ``S[-1:] + S[:-1]``,
    'first-to-back' for ``S[1:] + [x]`` / ``S[1:] + S[:1]``."""
    if not (isinstance(e, ast.BinOp) and isinstance(e.op, ast.Add)):
        return None
    l, r = e.left, e.right
    ls, rs = _slice_of(l), _slice_of(r)
    def single(x: ast.AST, idx: int) -> bool:
        # [S[idx]] or [<a value that is not an element of S>]
        if not (isinstance(x, ast.List) and len(x.elts) == 1):
            return False
        el = x.elts[0]
        if isinstance(el, ast.Subscript) and unparse(el.value) == subject:
            i = el.slice
            if isinstance(i, ast.UnaryOp) and isinstance(i.op, ast.USub) \
                    and isinstance(i.operand, ast.Constant):
                return -i.operand.value == idx
            return isinstance(i, ast.Constant) and i.value == idx
        return True
    one_l = single(l, -1)
    one_r = single(r, 0)
    if rs == (subject, None, -1) and (one_l or ls == (subject, -1, None)):
        return "last-to-front"
    if ls == (subject, 1, None) and (one_r or rs == (subject, None, 1)):
        return "first-to-back"
    return None


def _per_path_lists(ctx: Ctx) -> dict[str, str]:
    """Attributes of LogicBlockHolder that hold one entry per path."""
    holder = ctx.index.cls("LogicBlockHolder")
    init = holder.lookup("__init__")[0]
    # -- discovery of the per-path lists (independent of rotate_path)
    per_path: dict[str, str] = {"paths": "the paths themselves"}
    for st in ast.walk(init.node):
        if isinstance(st, (ast.Assign, ast.AnnAssign)):
            tgt = st.targets[0] if isinstance(st, ast.Assign) else st.target
            a = _self_attr(tgt)
            v = ctx.reach(init).resolve_deep(st.value, at=st) \
                if st.value is not None else None
            if a and v is not None and any(
                    isinstance(c, ast.Call) and dotted(c.func) == "len"
                    and c.args and _self_attr(c.args[0]) == "paths"
                    for c in ast.walk(v)):
                per_path[a] = "initialised with len(self.paths) entries"
    for m in holder.node.body:
        if not isinstance(m, (ast.FunctionDef, ast.AsyncFunctionDef)):
            continue
        for c in ast.walk(m):
            if isinstance(c, ast.Call) and dotted(c.func) == "zip":
                names = [_self_attr(x) for x in c.args]
                if "paths" in names:
                    for n in names:
                        if n and n != "paths":
                            per_path.setdefault(
                                n, f"zipped with self.paths in {m.name}")
    return per_path


def r510(rep: Report, ctx: Ctx) -> None:
    rep.rule("R5.10", "the per-path lists of a logic block are rotated in "
             "lock-step (an index means the same path in every list)", 6)
    holder = ctx.index.cls("LogicBlockHolder")
    init = holder.lookup("__init__")[0]
    rot = ctx.func("LogicBlockHolder.rotate_path")
    rep.seen(init, rot)
    per_path = _per_path_lists(ctx)
    # -- rotations performed by rotate_path
    reach = ctx.reach(rot)
    kinds: dict[str, str] = {}
    for st in ast.walk(rot.node):
        if isinstance(st, ast.Assign) and len(st.targets) == 1:
            a = _self_attr(st.targets[0])
            if not a:
                continue
            v = reach.resolve(st.value, at=st)
            k = _rotation_kind(v, f"self.{a}")
            if k is None and isinstance(v, ast.Call) and len(v.args) == 1 \
                    and _self_attr(v.args[0]) == a:
                # helper(values) returning a rotation of its parameter
                got = ctx.index.resolve_name(rot.module, call_name(v) or "")
                if isinstance(got, FuncInfo) and got.params():
                    rets = [n for n in ast.walk(got.node)
                            if isinstance(n, ast.Return) and n.value is not None]
                    ks = {_rotation_kind(ctx.reach(got).resolve(
                        n.value, at=n), got.params()[0]) for n in rets}
                    if len(ks) == 1:
                        k = ks.pop()
            if k:
                kinds[a] = k
        elif isinstance(st, ast.Expr) and isinstance(st.value, ast.Call) \
                and call_name(st.value) == "insert" and isinstance(
                    st.value.func, ast.Attribute):
            a = _self_attr(st.value.func.value)
            c = st.value
            if a and len(c.args) == 2 and unparse(c.args[0]) == "0" \
                    and isinstance(c.args[1], ast.Call) and call_name(
                        c.args[1]) == "pop" and not c.args[1].args \
                    and _self_attr(c.args[1].func.value) == a:  # type: ignore[attr-defined]
                kinds[a] = "last-to-front"
    if not kinds:
        raise AnalysisError(f"{rot.qualname}: no list rotation recognised "
                            "(idiom outside the vocabulary)")
    majority = max(set(kinds.values()), key=list(kinds.values()).count)
    # positions into the per-path lists (attributes initialised with
    # self.paths.index(..)) move with the rotation
    pos_attrs = []
    for st in ast.walk(init.node):
        if isinstance(st, (ast.Assign, ast.AnnAssign)) and st.value is not None:
            tgt = st.targets[0] if isinstance(st, ast.Assign) else st.target
            a = _self_attr(tgt)
            if a and any(isinstance(c, ast.Call) and call_name(c) == "index"
                         and _self_attr(c.func.value) == "paths"  # type: ignore[attr-defined]
                         for c in ast.walk(st.value)):
                pos_attrs.append(a)
    step = "Add" if majority == "last-to-front" else "Sub"
    for a in sorted(set(pos_attrs)):
        upd = [st for st in ast.walk(rot.node) if isinstance(st, ast.Assign)
               and _self_attr(st.targets[0]) == a]
        ok = False
        if len(upd) == 1:
            v = upd[0].value
            ok = isinstance(v, ast.BinOp) and isinstance(v.op, ast.Mod) \
                and isinstance(v.left, ast.BinOp) and type(
                    v.left.op).__name__ == step and _self_attr(
                    v.left.left) == a and unparse(v.left.right) == "1" \
                and unparse(v.right) == "len(self.paths)" and cguards(
                    ctx, rot, upd[0]) in ([("cmp", f"self.{a}", "IsNot",
                                            "None")], [])
        rep.ob("R5.10", f"self.{a} (a position in the per-path lists) moves "
               "with the rotation", ok, fi=rot,
               node=upd[0] if upd else rot.node,
               detail=(unparse(upd[0])[:90] if upd else "not updated by "
                       "rotate_path") + f"; the lists rotate {majority}")

    for a, why in sorted(per_path.items()):
        k = kinds.get(a)
        rep.ob("R5.10", f"self.{a} rotates with the paths", k == majority,
               fi=rot, node=rot.node,
               detail=f"self.{a} ({why}): "
                      + (f"rotated {k}" if k else "NOT rotated by "
                         "rotate_path") + f"; the other lists rotate "
                      f"{majority}"
                      + ("" if k == majority else
                         " -- after a rotation index i of this list "
                         "belongs to another path than index i of the "
                         "others (wrong alternatives are merged / popped)"))


# --------------------------------------------------------------------------
def r511(rep: Report, ctx: Ctx) -> None:
    """A failed conversion must not leave an empty (or overwrite a good)
    <job>.puml: the diagram text exists before the file is opened."""
    rep.rule("R5.11", "the output file is opened for writing only after the "
             "diagram text has been computed", 1)
    fi = ctx.func("pv_to_puml_file")
    gen = ctx.func("pv_to_puml_string")
    withs = [w for w in ast.walk(fi.node) if isinstance(w, ast.With)
             and any(isinstance(it.context_expr, ast.Call)
                     and dotted(it.context_expr.func) == "open"
                     for it in w.items)]
    if len(withs) != 1:
        raise AnalysisError(f"{fi.qualname}: expected one `with open(...)`")
    w = withs[0]
    inside = [c for st in w.body for c in ast.walk(st)
              if isinstance(c, ast.Call)]
    conv = [c for c in calls_in(ctx, fi, gen)]
    bad = [c for c in conv if any(c is x for x in inside)]
    cfg = ctx.cfg(fi)
    before = [c for c in conv if c not in bad and cfg.dominates(
        cfg.container(c), cfg.node(w))]
    rep.ob("R5.11", "pv_to_puml_file: text first, then open(..., 'w')",
           not bad and bool(before), fi=fi, node=bad[0] if bad else w,
           detail=("the conversion runs inside the `with open(...)` block: "
                   "the file is created / truncated first, so a job whose "
                   "conversion raises leaves an empty .puml and destroys a "
                   "good one from an earlier run" if bad else
                   "pv_to_puml_string(...) dominates the open()"))


# --------------------------------------------------------------------------
def r512(rep: Report, ctx: Ctx) -> None:
    """Diagram nodes are identified by (type, occurrence).  A factory that
    numbers its node with the current occurrence count must register the node
    and advance the count for the *same* key on every path - otherwise the
    next node of that type gets the same identity and the two collapse into
    one graph node (an event / block delimiter silently disappears)."""
    rep.rule("R5.12", "every diagram node gets a fresh identity: the "
             "occurrence count read for a node is advanced for the same key, "
             "and the node is added, on every path", 3)
    graph = ctx.index.cls("PUMLGraph")
    n = 0
    for ms in graph.methods.values():
        for m in ms:
            reads = [c for c in ast.walk(m.node) if isinstance(c, ast.Call)
                     and call_name(c) == "get_occurrence_count"
                     and isinstance(c.func, ast.Attribute)
                     and isinstance(c.func.value, ast.Name)
                     and c.func.value.id == "self"]
            if not reads or m.name in ("get_occurrence_count",
                                       "increment_occurrence_count"):
                continue
            cfg = ctx.cfg(m)
            for r in reads:
                key = unparse(r.args[0]) if r.args else "?"
                incs = [c for c in ast.walk(m.node) if isinstance(c, ast.Call)
                        and call_name(c) == "increment_occurrence_count"
                        and c.args and unparse(c.args[0]) == key]
                adds = [c for c in ast.walk(m.node) if isinstance(c, ast.Call)
                        and call_name(c) == "add_puml_node"]
                rn = cfg.container(r)
                from ..cfg import EXIT as _EXIT
                # the loop header (if the read sits in a loop) or EXIT is the
                # point by which the count must have advanced
                loops = enclosing(m.node, r, (ast.For, ast.While))
                goal = cfg.node(loops[-1]) if loops else _EXIT
                ok = rn is not None and bool(incs) and cfg.every_path_passes(
                    rn, goal, [cfg.container(c) for c in incs]) and bool(
                    adds) and cfg.every_path_passes(
                    rn, goal, [cfg.container(c) for c in adds])
                n += 1
                rep.ob("R5.12", f"{m.short}: count of {key[:40]}", ok, fi=m,
                       node=r,
                       detail=(f"{len(incs)} increment(s) for the same key, "
                               f"{len(adds)} add_puml_node call(s)"
                               + ("" if ok else " -- some path leaves the "
                                  "factory with the count unchanged or the "
                                  "node unregistered")))
    if n < 3:
        raise AnalysisError("PUMLGraph node factories not found")
    # the event node remembers which node of the walked graph it stands for:
    # loop bodies are attached through this reference (R5.4), so a node
    # created without it keeps its placeholder name LOOP_n in the diagram
    cen = ctx.func("PUMLGraph.create_event_node")
    refs = [c for c in ast.walk(cen.node) if isinstance(c, ast.Call)
            and call_name(c) == "add_parent_graph_node_to_node_ref"]
    # (a node created WITH its body need not be registered: the registry is
    # read only while bodies are attached - triaged, DESIGN section 12)
    from ..roles import Roles
    gs = Roles(ctx, cen).guards(refs[0]) if len(refs) == 1 else None
    ok = gs is not None and [g for g in gs if g != (
        "cmp", "P:sub_graph", "Is", "None", "1")] in (
        [("cmp", "P:parent_graph_node", "Is", "None", "0")], [])
    rep.ob("R5.12", "an event node is registered under the walked-graph node "
           "it stands for", ok, fi=cen, node=refs[0] if refs else cen.node,
           detail="add_parent_graph_node_to_node_ref(parent_graph_node, node) "
                  "whenever a parent node is given")
    reg = ctx.func("PUMLGraph.add_parent_graph_node_to_node_ref")
    rp, nr = reg.params()[1], reg.params()[2]
    rcfg = ctx.cfg(reg)
    apps = [c for c in ast.walk(reg.node) if isinstance(c, ast.Call)
            and call_name(c) == "append" and c.args
            and isinstance(c.args[0], ast.Name) and c.args[0].id == nr]
    from ..cfg import ENTRY as _E2, EXIT as _X2
    ok = len(apps) >= 1 and rcfg.every_path_passes(
        _E2, _X2, [rcfg.container(c) for c in apps]) and all(
        rp in unparse(c.func.value) for c in apps)
    rep.ob("R5.12", "every node registered for a walked-graph node is kept "
           "(appended on every path, not only the first one)", ok, fi=reg,
           node=apps[0] if apps else reg.node,
           detail=(f"{len(apps)} append({nr}) on the entry of {rp}"
                   + ("" if ok else " -- a second diagram node that stands "
                      "for the same loop node is not registered: its body "
                      "is never attached and it is written as LOOP_n")))
    walk_mod = ctx.index.module("walk_puml_logic_graph")
    for f in walk_mod.functions.values():
        for c in ast.walk(f.node):
            if isinstance(c, ast.Call) and call_name(c) == "create_event_node":
                a = actual(c, cen, "parent_graph_node")
                src = actual(c, cen, "event_name")
                ok = isinstance(a, ast.Attribute) and a.attr == "uid" \
                    and isinstance(src, ast.Attribute) and unparse(
                        a.value) == unparse(src.value)
                rep.ob("R5.12", f"{f.short}: the created node refers to the "
                       "walked node it was made from", ok, fi=f, node=c,
                       detail=f"event_name={unparse(src)}, parent_graph_node="
                              f"{unparse(a)}")


# --------------------------------------------------------------------------
def r513(rep: Report, ctx: Ctx) -> None:
    """An event only appears in the linearised diagram if its node hangs in
    the PUML graph below its predecessor."""
    rep.rule("R5.13", "every event node the walk creates is connected from "
             "its predecessor (direction predecessor -> new node)", 1)
    fi = ctx.func("update_puml_graph_with_event_node")
    cen = ctx.func("PUMLGraph.create_event_node")
    reach = ctx.reach(fi)
    mk = [c for c in ast.walk(fi.node) if isinstance(c, ast.Call)
          and call_name(c) == "create_event_node"]
    edges = [c for c in ast.walk(fi.node) if isinstance(c, ast.Call)
             and call_name(c) == "add_puml_edge"]
    ok = len(mk) == 1 and len(edges) == 1 and len(edges[0].args) == 2
    if ok:
        src = reach.resolve(edges[0].args[0], at=edges[0])
        dst = reach.resolve(edges[0].args[1], at=edges[0])
        prev_p = fi.params()[2]
        cfg = ctx.cfg(fi)
        from ..cfg import ENTRY as _E, EXIT as _X
        ok = dst is mk[0] and isinstance(src, ast.Name) and src.id == prev_p \
            and ctx.defs(fi).only_param(prev_p) and cfg.every_path_passes(
                _E, _X, [cfg.container(edges[0])])
    rep.ob("R5.13", "add_puml_edge(previous node, created node) on every "
           "path", ok, fi=fi, node=edges[0] if edges else fi.node,
           detail=unparse(edges[0])[:80] if edges else "<missing>")


# --------------------------------------------------------------------------
def r514(rep: Report, ctx: Ctx) -> None:
    """Anchor "loop end dummy inherits the merge evidence of the loop's
    exits": see ``c07.loop_boundary_evidence``."""
    from .c07 import loop_boundary_evidence
    rep.rule("R5.14", "the dummy start / end of a loop body carry the "
             "evidence of the loop's boundary (a fork that ends the body is "
             "closed, every entry branch is drawn)", 10)
    loop_boundary_evidence(rep, ctx, "R5.14")


# --------------------------------------------------------------------------
def reshape_lockstep(rep: Report, ctx: Ctx, rule: str) -> None:
    """(shared: R5.15 / R1.14)  Besides rotation a logic block re-shapes its
    per-path lists in two places: a finished path is popped, and a partial
    merge replaces the merged paths by one nested operator node.  In both,
    index i must keep meaning the same path in every list, and the two index
    maps into ``logic_node.outgoing_logic`` (`_path_indexes` for the active,
    `_merged_path_indexes` for the finished paths) must describe the layout
    the same statement sequence gives to ``outgoing_logic``:
    [active not merged] + [finished] + [new node].  An index that points at a
    finished path makes the next merge nest the wrong alternatives: events of
    the input vanish from the diagram and others are drawn twice."""
    from .effspec import before, effects, expect
    per_path = _per_path_lists(ctx)
    index_maps = {"_path_indexes", "_merged_path_indexes"}
    lists = sorted(a for a in per_path if a not in index_maps)
    # ---- pop of a finished path
    sp = ctx.func("LogicBlockHolder.set_path_node")
    effs = effects(ctx, sp)
    g = [("truth", "P:self.paths", "1"), ("truth", "P:pop", "1")]
    for a in lists:
        expect(rep, rule, sp, effs, f"a finished path leaves self.{a}",
               name="pop", recv=f"P:self.{a}", args=(), must=g[1:], may=g)
    expect(rep, rule, sp, effs, "its position in the logic node moves from "
           "the active to the finished index map", name="append",
           recv="P:self._merged_path_indexes",
           args=("P:self._path_indexes.pop()",), must=g[1:], may=g)
    # ---- partial merge
    cm = ctx.func("LogicBlockHolder.create_logic_merge")
    effs = effects(ctx, cm)

    def sel(op: str) -> str:
        return "[each(enumerate(P:self.merge_nodes))[0] for.. if " \
               f"(P:merge_node {op} each(enumerate(P:self.merge_nodes))[1])]"
    IDX, NOT = sel("Eq"), sel("NotEq")
    NEW = "Node(operator=P:self.logic_node.operator,outgoing_logic=P:self." \
          f"logic_node.get_outgoing_logic_by_indices([P:self._path_indexes" \
          f"[each({IDX})] for..]))"
    stores = {e.recv: e for e in effs if e.kind == "store" and e.name == ""}
    for a in lists:
        e = stores.get(f"P:self.{a}")
        want = f"([P:self.{a}[each({NOT})] for..] Add ["
        ok = e is not None and e.args[0].startswith(want) and \
            e.args[0].endswith("])")
        rep.ob(rule, f"partial merge keeps self.{a} in step: the entries of "
               "the paths that are not merged, then one entry for the new "
               "node", ok, fi=cm, node=e.node if e else cm.node,
               detail=(e.args[0][:200] if e else "not rebuilt by "
                       "create_logic_merge"))
    e = stores.get("P:self.paths")
    ok = e is not None and e.args[0] == f"([P:self.paths[each({NOT})] " \
        f"for..] Add [{NEW}])"
    rep.ob(rule, "the new path is a nested node of the block's operator over "
           "exactly the merged alternatives", ok, fi=cm,
           node=e.node if e else cm.node,
           detail=e.args[0][:300] if e else "<missing>")
    lay = expect(rep, rule, cm, effs, "outgoing logic is laid out as [active "
                 "not merged] + [finished] + [new node]",
                 name="set_outgoing_logic", recv="P:self.logic_node",
                 args=(f"(P:self.logic_node.get_outgoing_logic_by_indices(("
                       f"[P:self._path_indexes[each({NOT})] for..] Add "
                       f"P:self._merged_path_indexes)) Add [{NEW}])",),
                 any_guard=True)
    lk = "P:self.logic_node.is_loop_kill_path"
    e = stores.get(lk)
    ok = e is not None and e.args[0] == (
        f"(([{lk}[P:self._path_indexes[each({NOT})]] for..] Add "
        f"[{lk}[each(P:self._merged_path_indexes)] for..]) Add "
        "P:self.loop_kill_paths[USub(1):])")
    rep.ob(rule, "the node's loop-kill flags get the same layout as its "
           "outgoing logic: [kept] + [finished] + [new node]", ok, fi=cm,
           node=e.node if e else cm.node,
           detail=e.args[0][:300] if e else "<not assigned>")
    e = stores.get(f"{NEW}.is_loop_kill_path")
    ok = e is not None and e.args[0] == f"([False] Mult len({IDX}))"
    rep.ob(rule, "the nested node has one (cleared) loop-kill flag per "
           "merged alternative", ok, fi=cm, node=e.node if e else cm.node,
           detail=e.args[0][:200] if e else "<not assigned>")
    a_len, m_len = f"len({NOT})", "len(P:self._merged_path_indexes)"
    pi = [e for e in effs if e.kind == "store"
          and e.recv == "P:self._path_indexes"]
    forms = [(e.name, e.args[0]) for e in pi]
    ok = forms in (
        [("", f"list(range({a_len}))"),
         ("Add", f"[({a_len} Add {m_len})]")],
        [("", f"(list(range({a_len})) Add [({a_len} Add {m_len})])")])
    rep.ob(rule, "active index map = positions of that layout: 0..a-1 for "
           "the paths kept, a+m for the new node (a kept, m finished)", ok,
           fi=cm, node=pi[0].node if pi else cm.node,
           detail="; ".join(f"_path_indexes {n or '='} {v}"[:160]
                            for n, v in forms) or "<not assigned>")
    mi = [e for e in effs if e.kind == "store"
          and e.recv == "P:self._merged_path_indexes"]
    ok = [(e.name, e.args[0]) for e in mi] == [
        ("", f"list(range({a_len},({a_len} Add {m_len})))")]
    rep.ob(rule, "finished index map = a..a+m-1", ok, fi=cm,
           node=mi[0].node if mi else cm.node,
           detail="; ".join(e.args[0][:160] for e in mi) or "<not assigned>")
    # the old maps are read before they are overwritten
    reads = [c for c in ast.walk(cm.node) if isinstance(c, ast.Call)
             and dotted(c.func) == "len" and c.args
             and _self_attr(c.args[0]) == "_merged_path_indexes"]
    if mi and reads:
        rep.ob(rule, "the number of finished paths is taken before the "
               "finished index map is overwritten",
               all(before(ctx, cm, r, mi[0].node) for r in reads), fi=cm,
               node=reads[0], detail="len(self._merged_path_indexes)")
    if lay is not None and pi:
        rep.ob(rule, "the layout is built from the old index maps (before "
               "they are overwritten)", before(ctx, cm, lay.node, pi[0].node)
               and (not mi or before(ctx, cm, lay.node, mi[0].node)), fi=cm,
               node=lay.node, detail="set_outgoing_logic(..) precedes the "
               "stores of _path_indexes / _merged_path_indexes")


def r515(rep: Report, ctx: Ctx) -> None:
    rep.rule("R5.15", "popping a finished path and merging paths partially "
             "keep the per-path lists and the index maps of a logic block "
             "consistent", 12)
    reshape_lockstep(rep, ctx, "R5.15")


def r516(rep: Report, ctx: Ctx) -> None:
    """(shared with C01 R1.16-R1.19)  The block structure of the diagram is
    the node logic: a tree node that is not translated, a block that does
    not mirror its node, or a merge accepted at the wrong node is a block
    that is closed in the wrong place or never."""
    from .effspec import check_table
    from .walkspec import TABLE
    rep.rule("R5.16", "gate tree -> node logic -> logic block: translation, "
             "initial block state, merge validation, Event -> Node", 38)
    check_table(rep, ctx, "R5.16", TABLE, list(TABLE))
    from .walkspec import MERGE_TABLE
    check_table(rep, ctx, "R5.16", MERGE_TABLE, list(MERGE_TABLE))


def r517(rep: Report, ctx: Ctx) -> None:
    """A dummy break placeholder directly behind an event node is replaced
    by a ``break`` on that node: the placeholder leaves the graph, its
    successor (if any) is re-attached to the event node, and the event node
    is marked BREAK.  (The general case - the placeholder beneath nested XOR
    starts - is R5.24.)"""
    from .effspec import effects, expect
    rep.rule("R5.17", "a dummy break directly behind an event node becomes a "
             "break on that node", 3)
    fi = ctx.func("update_graph_for_dummy_break_event_node")
    effs = effects(ctx, fi)
    D = "P:dummy_break_event_node"
    IN = f"list(P:graph.in_edges([{D}]))[0][0]"
    OUT = f"(list(P:graph.out_edges([{D}]))[0][1] if list(P:graph.out_edges(" \
          f"[{D}])) else None)"
    simple = ("truth", f"isinstance({IN},PUMLEventNode)", "1")
    expect(rep, "R5.17", fi, effs, "the placeholder leaves the graph",
           name="remove_node", recv="P:graph", args=(D,), must=[simple])
    expect(rep, "R5.17", fi, effs, "what followed the placeholder follows "
           "the event node", name="add_puml_edge", recv="P:graph",
           args=(IN, OUT), must=[simple, ("cmp", OUT, "Is", "None", "0")])
    expect(rep, "R5.17", fi, effs, "the event node is marked BREAK",
           kind="store", name="", recv=f"{IN}.event_types",
           args=(f"(*{D}.event_types,PUMLEvent.BREAK)",),
           alt_args=[(f"(*{IN}.event_types,PUMLEvent.BREAK)",)],
           must=[simple])


def r518(rep: Report, ctx: Ctx) -> None:
    """Table-driven (walkspec.PUML_TABLE): how a diagram node is created,
    what its activity line is, and the sinks of the dummy start / end."""
    from .effspec import check_table
    from .walkspec import PUML_TABLE
    rep.rule("R5.18", "diagram nodes: creation, registration, the activity "
             "line, loop body framing, dummy start / end removal", 15)
    check_table(rep, ctx, "R5.18", PUML_TABLE, list(PUML_TABLE))
    # branch separators: in front of each branch of an operator that has
    # separators comes the separator for that position
    fs = ctx.func("PUMLGraph._order_nodes_from_dfs_successors_dict")
    from .effspec import effects as _effects0
    sp = [e for e in _effects0(ctx, fs) if e.kind == "call" and e.name ==
          "append" and e.recv == "[P:node]" and len(e.args) == 1 and
          e.args[0].startswith(
              "OPERATOR_PATH_FUNCTION_MAP[P:node.operator_type](")]
    need = [("cmp", "P:node", "In", "P:dfs_successor_dict", "1"),
            ("truth", "isinstance(P:node,PUMLOperatorNode)", "1"),
            ("cmp", "P:node.operator_type", "In",
             "OPERATOR_PATH_FUNCTION_MAP", "1")]
    oks = len(sp) == 1 and all(g in sp[0].guards for g in need) and (
        "cmp", sp[0].args[0], "Is", "None", "0") in sp[0].guards and len(
        sp[0].guards) == 4
    rep.ob("R5.18", "_order_nodes_from_dfs_successors_dict: the separator of "
           "an operator's table is put in front of each branch (none where "
           "the table says none), for operators that have separators only",
           oks, fi=fs, node=sp[0].node if sp else fs.node,
           detail="; ".join(e.show()[:300] for e in sp) or "no separator is "
           "appended")
    # an operator node writes EVERY keyword line of its table entry (the
    # indentation in front of it is layout, not content)
    from .effspec import effects as _effects
    fo = ctx.func("PUMLOperatorNode.write_uml_blocks")
    KW = "each(enumerate(OPERATOR_NODE_PUML_MAP[P:self.operator_type.value]" \
         "[0]))[1]"
    aps = [e for e in _effects(ctx, fo) if e.kind == "call" and e.name ==
           "append" and e.recv == "[]"]
    okw = len(aps) == 1 and len(aps[0].args) == 1 and aps[0].args[0].endswith(
        "{" + KW + "}'") and not aps[0].guards
    rep.ob("R5.18", "PUMLOperatorNode.write_uml_blocks: every keyword line of "
           "the operator's table entry is written, unconditionally", okw,
           fi=fo, node=aps[0].node if aps else fo.node,
           detail="; ".join(e.show()[:200] for e in aps) or "no line is "
           "appended")
    rets = [e for e in _effects(ctx, fo) if e.kind == "bind"]
    okr = any(e.name == "ret[0]" and e.args == ("[]",) for e in rets) and any(
        e.name == "ret[1]" and e.args == (
            "OPERATOR_NODE_PUML_MAP[P:self.operator_type.value][1]",)
        for e in rets)
    rep.ob("R5.18", "PUMLOperatorNode.write_uml_blocks: hands back the lines "
           "it wrote and the indentation change of its table entry", okr,
           fi=fo, node=fo.node,
           detail="; ".join(e.show()[:120] for e in rets))
    # the linearisation starts at the FIRST node in topological order (for
    # ties: the node created first).  After the dummy end is removed a body
    # can have a second source (a trailing kill node); starting there emits
    # `detach` + the closing keyword and loses every event of the body
    from .effspec import effects
    fi = ctx.func("PUMLGraph.write_uml_blocks")
    calls = [e for e in effects(ctx, fi, names={
        "_order_nodes_from_dfs_successors_dict"}) if e.kind == "call"
        and e.name == "_order_nodes_from_dfs_successors_dict"]
    head = "list(topological_sort(P:self))[0]"
    ok = len(calls) == 1 and calls[0].args == (
        head, f"dfs_successors(P:self,{head})")
    # the two primitive graph operations add what they are asked to add
    for fn, meth, want in (("PUMLGraph.add_puml_edge", "add_edge",
                            ("P:start_node", "P:end_node")),
                           ("PUMLGraph.add_puml_node", "add_node",
                            ("P:node",))):
        f2 = ctx.func(fn)
        hits = [e for e in effects(ctx, f2) if e.kind == "call"
                and e.name == meth and e.recv == "super()"
                and e.args[:len(want)] == want]
        ok2 = len(hits) == 1 and not hits[0].guards
        rep.ob("R5.18", f"{f2.name}: everything the walk asks for is added, "
               "whatever kind of node is involved", ok2, fi=f2,
               node=hits[0].node if hits else f2.node,
               detail=(f"super().{meth}({', '.join(want)}, ..) runs when "
                       f"{hits[0].guards or 'always'}" if hits else
                       f"no unconditional super().{meth}({', '.join(want)})")
               + ("" if ok2 else " -- a branch reaches the end node of its "
                  "block through one edge; dropping it leaves the block "
                  "open and the rest of the branch behind a stray "
                  "separator"))
    rep.ob("R5.18", "the diagram is linearised from the first node in "
           "topological order", ok, fi=fi,
           node=calls[0].node if calls else fi.node,
           detail="; ".join(", ".join(c.args)[:200] for c in calls)
           or "<no ordering call>")


def r519(rep: Report, ctx: Ctx) -> None:
    """(shared with C01 R1.22)"""
    from .c01 import r122
    sub = Report("C01", ctx.index)
    r122(sub, ctx)
    rep.rule("R5.19", "kill paths and break points of a loop body are marked "
             "from a scan of all its nodes (= C01 R1.22)", 5)
    for o in sub.obligations:
        o.rule = "R5.19"
        rep.obligations.append(o)
    rep.funcs_seen |= sub.funcs_seen


def r520(rep: Report, ctx: Ctx) -> None:
    """(shared with C07 R7.16)  "break / detach only at the end of a branch":
    `break` is what a dummy break placeholder becomes; a placeholder that is
    put behind an event outside the loop is drawn outside the repeat, in the
    middle of a branch (defect D9)."""
    from . import c07
    sub = Report("C07", ctx.index)
    c07.r716(sub, ctx)
    rep.rule("R5.20", "dummy breaks are created inside the loop body only, "
             "on edges and sets alike (= C07 R7.16)", 11)
    for o in sub.obligations:
        o.rule = "R5.20"
        rep.obligations.append(o)
    rep.funcs_seen |= sub.funcs_seen


def main_walk_loop(rep: Report, ctx: Ctx, rule: str) -> None:
    """(shared: R5.21 / R1.25)  The dispatch of the walk: what happens to the
    node the walk stands on, as a function of (event or logic node, inside a
    block or not, successor or none, break point or not)."""
    from .effspec import effects, expect
    from .walkspec import MAIN_ABBR, MAIN_NAMES, MAIN_TABLE
    fi = ctx.func("create_puml_graph_from_node_class_graph")

    def ab(x):
        if isinstance(x, (tuple, list)):
            return type(x)(ab(y) for y in x)
        for a, b in MAIN_ABBR:
            x = x.replace(a, b)
        return x
    effs = effects(ctx, fi, names=MAIN_NAMES)
    for e in effs:
        e.recv, e.args, e.guards = ab(e.recv), ab(e.args), ab(e.guards)
    for what, kind, name, recv, args, must, may in MAIN_TABLE:
        expect(rep, rule, fi, effs, what, kind=kind, name=name, recv=recv,
               args=args, must=must, may=may)
    n = len([e for e in effs if e.kind == "call" and e.name in MAIN_NAMES])
    rep.ob(rule, "no other dispatch in the main loop", n == 8, fi=fi,
           node=fi.node, detail=f"{n} calls of the step functions "
           "(8 on the pinned tree)")


def merge_point(rep: Report, ctx: Ctx, rule: str) -> None:
    """(shared: R5.21 / R1.25)  handle_reach_potential_merge_point."""
    from .effspec import effects, expect
    from .walkspec import MP_ABBR, MP_TABLE
    fi = ctx.func("handle_reach_potential_merge_point")

    def ab(x):
        if isinstance(x, (tuple, list)):
            return type(x)(ab(y) for y in x)
        for a, b in MP_ABBR:
            x = x.replace(a, b)
        return x
    effs = effects(ctx, fi)
    for e in effs:
        e.recv, e.args, e.guards = ab(e.recv), ab(e.args), ab(e.guards)
    prev = ""
    for what, kind, name, recv, args, must, may in MP_TABLE:
        what = what or prev + " (paths list)"
        prev = what
        expect(rep, rule, fi, effs, f"{fi.name}: {what}", kind=kind,
               name=name, recv=recv, args=args, must=must, may=may)


def r521(rep: Report, ctx: Ctx) -> None:
    rep.rule("R5.21", "the main loop of the walk dispatches on (event / "
             "logic node, inside a block, successor, break point) as "
             "pinned; a potential merge point is handled per path", 20)
    main_walk_loop(rep, ctx, "R5.21")
    merge_point(rep, ctx, "R5.21")


def r522(rep: Report, ctx: Ctx) -> None:
    """Writing the text is a pure read of the diagram graph.  Loop bodies are
    shared: the dummy-break push-down copies a loop node into every XOR
    branch and all copies hold the SAME sub graph, which is therefore
    rendered several times; and `pv_to_puml_string` may be called again on
    a kept graph.  Any state a rendering leaves on a node or graph (a
    counter, a flag, a cached line) makes the second rendering differ from
    the first (seed C05-t: a per-operator separator counter that is never
    reset -> `fork` / `fork again` in front of the first branch)."""
    rep.rule("R5.22", "rendering the text does not write to the diagram "
             "(nodes and graphs are rendered more than once)", 1)
    entry = ctx.func("PUMLGraph.write_puml_string")
    clo = ctx.cg.closure([entry])
    bad = []
    n = 0
    for q in sorted(clo):
        fi = ctx.index.functions.get(q)
        if fi is None or "puml_graph" not in fi.module.relpath:
            continue
        n += 1
        ps = fi.params()
        for st in ast.walk(fi.node):
            tgt = None
            if isinstance(st, ast.Assign):
                tgt = st.targets[0]
            elif isinstance(st, (ast.AugAssign, ast.AnnAssign)):
                tgt = st.target
            if tgt is None:
                continue
            base = tgt
            while isinstance(base, (ast.Attribute, ast.Subscript)):
                base = base.value
            if isinstance(tgt, (ast.Attribute, ast.Subscript)) and isinstance(
                    base, ast.Name) and base.id in ps:
                bad.append((fi, st))
    rep.ob("R5.22", "no function reachable from write_puml_string stores "
           "into one of its arguments (self, a node, a graph)", not bad,
           fi=bad[0][0] if bad else entry,
           node=bad[0][1] if bad else entry.node,
           detail=(f"{len(bad)} store(s): " + "; ".join(
               f"{f.name}: {unparse(s_)[:50]}" for f, s_ in bad[:4])
               if bad else f"{n} functions of puml_graph.py reachable, none "
               "writes to a parameter's attribute / item"))


def r523(rep: Report, ctx: Ctx) -> None:
    from .util import crossed_handoffs
    rep.rule("R5.23", "positional hand-offs in the diagram builder do not "
             "cross two parameters", 1)
    crossed_handoffs(rep, ctx, "R5.23", ("puml_graph.py", "walk_puml_graph/"),
                     100)


def push_down(rep: Report, ctx: Ctx, rule: str) -> None:
    """The general case of the dummy-break sink: the placeholder sits
    beneath one or more nested XOR starts behind the event that breaks.
    That event is taken out of the line and a copy of it is put in front of
    EVERY branch of every XOR on the way down (the branch that held the
    placeholder gets the copy marked BREAK, the other branches continue
    behind their copy).  `ANC` is the list that starts as [placeholder] and
    grows by one DFS predecessor per step."""
    from .effspec import before, effects, expect
    import re
    fi = ctx.func("update_graph_for_dummy_break_event_node")
    D = "P:dummy_break_event_node"
    ANC = f"[{D}]"
    REV = f"list(reversed({ANC}))"
    PAIR = f"each(zip({REV},({REV}[1:] Add [None])))"
    abbr = [
        (f"list(P:graph.in_edges([{D}]))[0][0]", "IN"),
        (f"(list(P:graph.out_edges([{D}]))[0][1] if list(P:graph.out_edges("
         f"[{D}])) else None)", "OUT"),
        (f"{PAIR}[0]", "OP"), (f"{PAIR}[1]", "CHILD"),
        (f"{ANC}.pop()", "EV"), (f"{ANC}[USub(1)]", "ANC[-1]"), (ANC, "ANC"),
        ("P:graph.create_event_node(EV.node_type,EV.event_types,"
         "EV.sub_graph,EV.parent_graph_node)", "COPY"),
        ("each(P:graph.successors(OP))", "BR"),
        ("each(P:graph.out_edges([OP]))[1]", "BR"), (D, "DUMMY"),
        ("P:graph", "G")]

    def ab(x):  # type: ignore[no-untyped-def]
        if isinstance(x, (tuple, list)):
            return type(x)(ab(y) for y in x)
        for a, b in abbr:
            x = x.replace(a, b)
        # membership in a literal list does not depend on its order
        return re.sub(r"\[([A-Za-z_.,]+)\]", lambda m: "[" + ",".join(
            sorted(m.group(1).split(","))) + "]", x) if ",PUML" in x else x
    effs = effects(ctx, fi, names={"create_event_node"})
    for e in effs:
        e.recv, e.args, e.guards = ab(e.recv), ab(e.args), ab(e.guards)
    GEN = ("truth", "isinstance(IN,PUMLEventNode)", "0")
    FOUND = ("truth", "isinstance(ANC[-1],PUMLEventNode)", "1")
    SANE = [("truth", "isinstance(EV,PUMLEventNode)", "1"),
            ("truth", "isinstance(OP,PUMLOperatorNode)", "1"),
            ("cmp", "PUMLOperatorNodes.START_XOR", "Eq", "OP.operator_type",
             "1")]
    NOTCHILD = ("cmp", "BR", "Eq", "CHILD", "0")
    ISD = ("cmp", "BR", "Eq", "DUMMY", "1")
    NOTD = ("cmp", "BR", "Eq", "DUMMY", "0")
    HASOUT = ("cmp", "OUT", "Is", "None", "0")
    for e in effs:      # operand order of == is normalised by sorting
        e.guards = [("cmp", "BR", "Eq", "DUMMY", g[4]) if g[:4] == (
            "cmp", "DUMMY", "Eq", "BR") else g for g in e.guards]

    def ex(what: str, **kw) -> Optional[object]:  # type: ignore[no-untyped-def]
        return expect(rep, rule, fi, effs, what, **kw)
    ex("the walk climbs one DFS predecessor at a time, starting at the "
       "placeholder", name="append", recv="ANC",
       args=("dfs_predecessors(G)[ANC[-1]]",), must=[GEN])
    ex("an AND / OR start or any END operator on the way is refused (the "
       "break cannot be drawn there) - the conversion fails rather than "
       "emit a break in the wrong block", kind="raise", name="", args=(),
       must=[GEN, ("truth", "isinstance(ANC[-1],PUMLOperatorNode)", "1"),
             ("cmp", "ANC[-1].operator_type", "In",
              "[PUMLOperatorNodes.END_AND,PUMLOperatorNodes.END_OR,"
              "PUMLOperatorNodes.END_XOR,PUMLOperatorNodes.START_AND,"
              "PUMLOperatorNodes.START_OR]", "1")])
    ex("the placeholder itself is not one of its ancestors", name="pop",
       recv="ANC", args=("0",), must=[GEN, FOUND])
    rm = ex("the breaking event (the first event node reached) leaves the "
            "line", name="remove_node", recv="G", args=("EV",),
            must=[GEN, FOUND], may=SANE)
    ex("what preceded it is connected to what followed it",
       name="add_puml_edge", recv="G",
       args=("list(G.in_edges([EV]))[0][0]", "list(G.out_edges([EV]))[0][1]"),
       must=[GEN, FOUND], may=SANE)
    # the neighbours must be looked up while the event is still in the graph
    if rm is not None:
        looks = [c for c in ast.walk(fi.node) if isinstance(c, ast.Call)
                 and call_name(c) in ("in_edges", "out_edges") and c.args
                 and "event_node" in unparse(c.args[0])
                 and "dummy" not in unparse(c.args[0])]
        ok = len(looks) >= 2 and all(before(ctx, fi, c, rm.node)  # type: ignore[attr-defined]
                                     for c in looks)
        rep.ob(rule, "the neighbours of the breaking event are read before "
               "it is removed", ok, fi=fi, node=rm.node,  # type: ignore[attr-defined]
               detail=f"{len(looks)} neighbour lookups, all before "
                      f"remove_node: {ok}")
    cp = [e for e in effs if e.kind == "call" and e.name ==
          "create_event_node"]
    rep.ob(rule, "every branch gets a copy OF ITS OWN, carrying type, flags, "
           "loop body and model reference of the breaking event",
           len(cp) == 1 and cp[0].args == (
               "EV.node_type", "EV.event_types", "EV.sub_graph",
               "EV.parent_graph_node") and NOTCHILD in cp[0].guards,
           fi=fi, node=cp[0].node if cp else fi.node,
           detail=f"{len(cp)} creation site(s): " + "; ".join(
               e.show()[:200] for e in cp))
    ex("the copy hangs beneath the XOR start, on every branch except the "
       "one that leads further down to the placeholder", name="add_puml_edge",
       recv="G", args=("OP", "COPY"), must=[GEN, FOUND, NOTCHILD], may=SANE)
    ex("on the placeholder's branch the placeholder leaves the graph",
       name="remove_node", recv="G", args=("DUMMY",),
       must=[GEN, FOUND, NOTCHILD, ISD], may=SANE)
    ex("... the copy is followed by what followed the placeholder",
       name="add_puml_edge", recv="G", args=("COPY", "OUT"),
       must=[GEN, FOUND, NOTCHILD, ISD], may=SANE + [HASOUT])
    ex("... and the copy is marked BREAK (keeping its own flags)",
       kind="store", name="", recv="COPY.event_types",
       args=("(*COPY.event_types,PUMLEvent.BREAK)",),
       alt_args=[("(*EV.event_types,PUMLEvent.BREAK)",)],
       must=[GEN, FOUND, NOTCHILD, ISD], may=SANE + [HASOUT])
    ex("on every other branch the copy is inserted between the XOR start "
       "and the branch: the old edge goes", name="remove_edge", recv="G",
       args=("OP", "BR"), must=[GEN, FOUND, NOTCHILD, NOTD], may=SANE)
    ex("... and the branch continues behind the copy", name="add_puml_edge",
       recv="G", args=("COPY", "BR"), must=[GEN, FOUND, NOTCHILD, NOTD],
       may=SANE)


def r524(rep: Report, ctx: Ctx) -> None:
    rep.rule("R5.24", "a dummy break beneath nested XOR starts: the breaking "
             "event is copied in front of every branch, the placeholder's "
             "branch gets the BREAK", 12)
    push_down(rep, ctx, "R5.24")


def r525(rep: Report, ctx: Ctx) -> None:
    """(= C01 R1.28)  The lonely merge and the kill flags decide where a
    block is closed: a gate with two continuing paths and a lonely merge
    leaves a branch dangling behind `endswitch` (seed C05-w)."""
    from . import c01
    rep.rule("R5.25", "model nodes: per-direction containers, kill flags and "
             "the lonely merge of a gate (= C01 R1.28)", 21)
    c01.node_tables(rep, ctx, "R5.25")


def r526(rep: Report, ctx: Ctx) -> None:
    """"Names exactly the observed events" has premises that other
    properties decide; a change that breaks one of them makes events vanish
    from, or appear in, the diagram (seeds C05-d, C05-p, C05-r, each caught
    only by the neighbouring check until these were shared): a loaded model
    keeps its gate trees (= C04 R4.1), the model a job is learned into is
    this job's own (= C04 R4.4), loop placeholders get distinct names
    (= C07 R7.18)."""
    from .util import borrow
    from . import c04 as _c04, c07 as _c07
    rep.rule("R5.26", "every write of an event's successor sets marks its "
             "cached gate tree stale (= C04 R4.1)", 3)
    borrow(rep, ctx, _c04, "C04", "R4.1", "R5.26")
    rep.rule("R5.27", "the dictionary a job is learned into is the one "
             "handed in for that job (= C04 R4.4)", 5)
    borrow(rep, ctx, _c04, "C04", "R4.4", "R5.27")
    rep.rule("R5.28", "loop placeholders of one graph get distinct names "
             "(= C07 R7.18)", 1)
    borrow(rep, ctx, _c07, "C07", "R7.18", "R5.28")
