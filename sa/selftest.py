"""E8 -- the checkers are tested both ways on scratch copies.

* mutants: one rule instance broken (release deleted, check dropped, writer
  added in the wrong place, operator flipped ...); the variant still parses;
  the check must fire and the report must name the expected rule;
* benign twins: behaviour-preserving edits (re-formatting through
  ast.unparse, shifted line numbers, renamed locals, hoisted tests,
  equivalent operator spellings, reordered independent phases); the check
  must stay silent (no violation, no analysis error).

Scratch copies live under ``mktemp -d`` (outside /repo and /verif) and are
removed as soon as the variant has been evaluated.  Recipes are exact-once
text edits; a recipe that no longer applies to the tree under analysis is
reported as *stale* and does not influence the exit code.
"""
from __future__ import annotations

import ast
import os
import shutil
import tempfile
import traceback
from concurrent.futures import ProcessPoolExecutor
from dataclasses import dataclass, field
from pathlib import Path
from typing import Any, Callable, Optional

from .core import AnalysisError, PACKAGE


@dataclass
class Variant:
    prop: str
    vid: str
    kind: str                       # mutant | twin
    desc: str
    edits: list[tuple[str, str, str]] = field(default_factory=list)
    expect: frozenset[str] = frozenset()
    transform: Optional[str] = None  # name of a whole-tree transform


VARIANTS: list[Variant] = []


def M(prop: str, vid: str, file: str, old: str, new: str, expect: str,
      desc: str) -> None:
    VARIANTS.append(Variant(prop, vid, "mutant", desc, [(file, old, new)],
                            frozenset(expect.split())))


def MM(prop: str, vid: str, edits: list[tuple[str, str, str]], expect: str,
       desc: str) -> None:
    VARIANTS.append(Variant(prop, vid, "mutant", desc, edits,
                            frozenset(expect.split())))


def T(prop: str, vid: str, file: str, old: str, new: str, desc: str) -> None:
    VARIANTS.append(Variant(prop, vid, "twin", desc, [(file, old, new)]))


def TT(prop: str, vid: str, edits: list[tuple[str, str, str]], desc: str
       ) -> None:
    VARIANTS.append(Variant(prop, vid, "twin", desc, edits))


ALL_PROPS = ["C01", "C04", "C05", "C07", "C08", "C09", "C10", "C11", "C12",
             "C13", "C14", "C15", "C16"]


def _load_recipes() -> None:
    if VARIANTS:
        return
    from . import recipes  # noqa: F401  (registers through M/T)
    for p in ALL_PROPS:
        VARIANTS.append(Variant(p, "twin-unparse", "twin",
                                "every module re-formatted through "
                                "ast.unparse (comments dropped, layout "
                                "changed)", transform="unparse"))
        VARIANTS.append(Variant(p, "twin-shift", "twin",
                                "three comment lines prepended to every "
                                "module (all line numbers shift)",
                                transform="shift"))


# --------------------------------------------------------------------------

def _apply(v: Variant, scratch: Path) -> Optional[str]:
    """Returns None when applied, else the reason it is stale."""
    pkg = scratch / PACKAGE
    if v.transform == "unparse":
        for f in pkg.rglob("*.py"):
            f.write_text(ast.unparse(ast.parse(f.read_text())) + "\n")
        return None
    if v.transform == "shift":
        for f in pkg.rglob("*.py"):
            f.write_text("# shifted\n# shifted\n# shifted\n" + f.read_text())
        return None
    for rel, old, new in v.edits:
        hits = [f for f in pkg.rglob("*.py") if str(f).endswith(rel)]
        if len(hits) != 1:
            return f"file '{rel}' resolves to {len(hits)} files"
        src = hits[0].read_text()
        if old.startswith("@all:"):
            old = old[5:]
            if src.count(old) < 1:
                return f"anchor text absent in {rel}: {old[:50]!r}"
            hits[0].write_text(src.replace(old, new))
            continue
        if src.count(old) != 1:
            return (f"anchor text occurs {src.count(old)} time(s) in {rel}: "
                    f"{old[:50]!r}")
        out = src.replace(old, new)
        try:
            ast.parse(out)
        except SyntaxError as exc:
            return f"edited file does not parse: {exc}"
        hits[0].write_text(out)
    return None


def _evaluate_variant(args: tuple[Variant, str]) -> dict[str, Any]:
    v, root = args
    scratch = Path(tempfile.mkdtemp(prefix="sa_selftest_"))
    try:
        shutil.copytree(Path(root) / PACKAGE, scratch / PACKAGE,
                        ignore=shutil.ignore_patterns("__pycache__"))
        for extra in ("end-to-end-pumls", "puml_files", "docs"):
            src = Path(root) / extra
            if src.exists():
                os.symlink(src, scratch / extra)
        stale = _apply(v, scratch)
        if stale is not None:
            return {"id": v.vid, "kind": v.kind, "status": "stale",
                    "detail": stale, "desc": v.desc}
        from .main import run_rules
        try:
            rep, _ = run_rules(v.prop, scratch)
            fired = sorted({o.rule for o in rep.violations})
            named = [f"{o.rule} [{o.instance}] {o.func.split(':')[-1]}"
                     for o in rep.violations][:4]
            err = None
        except AnalysisError as exc:
            fired, named, err = [], [], str(exc)
        if v.kind == "mutant":
            hit = bool(set(fired) & v.expect)
            status = "detected" if hit else (
                "analysis-error" if err else "MISSED")
        else:
            status = "silent" if not fired and not err else "ALARM"
        return {"id": v.vid, "kind": v.kind, "status": status,
                "fired": fired, "expected": sorted(v.expect),
                "reports": named, "error": err, "desc": v.desc}
    except Exception:
        return {"id": v.vid, "kind": v.kind, "status": "CRASH",
                "detail": traceback.format_exc()[-600:], "desc": v.desc}
    finally:
        shutil.rmtree(scratch, ignore_errors=True)


def run(prop: str, root: Path, jobs: int = 16) -> dict[str, Any]:
    _load_recipes()
    mine = [v for v in VARIANTS if v.prop == prop]
    results: list[dict[str, Any]] = []
    if mine:
        with ProcessPoolExecutor(max_workers=min(jobs, len(mine))) as ex:
            results = list(ex.map(_evaluate_variant,
                                  [(v, str(root)) for v in mine]))
    muts = [r for r in results if r["kind"] == "mutant"
            and r["status"] != "stale"]
    twins = [r for r in results if r["kind"] == "twin"
             and r["status"] != "stale"]
    failures = []
    for r in results:
        if r["status"] in ("MISSED", "ALARM", "CRASH", "analysis-error"):
            failures.append(
                f"{prop} {r['kind']} {r['id']}: {r['status']} -- {r['desc']}"
                f" (fired {r.get('fired')}, expected {r.get('expected')}"
                f"{', error ' + str(r.get('error')) if r.get('error') else ''}"
                f"{r.get('detail', '')})")
    return {
        "mutants": len(muts),
        "mutants_detected": sum(1 for r in muts if r["status"] == "detected"),
        "twins": len(twins),
        "twins_silent": sum(1 for r in twins if r["status"] == "silent"),
        "stale_recipes": [r["id"] for r in results if r["status"] == "stale"],
        "positive_examples": len(muts),
        "positive_examples_ok": sum(1 for r in muts
                                    if r["status"] == "detected"),
        "failures": failures,
        "details": results,
    }


def main() -> int:
    """``python -m sa.selftest [PROP ...]`` -- run and print a table."""
    import sys
    if __name__ == "__main__":       # recipes register on the real module
        from sa import selftest as real
        return real.main()
    from .core import DEFAULT_ROOT
    props = [p.upper() for p in sys.argv[1:]] or ALL_PROPS
    rc = 0
    for p in props:
        res = run(p, DEFAULT_ROOT)
        print(f"{p}: {res['mutants_detected']}/{res['mutants']} mutants "
              f"detected, {res['twins_silent']}/{res['twins']} twins silent, "
              f"stale {res['stale_recipes']}")
        for f in res["failures"]:
            rc = 1
            print("   FAIL", f[:400])
    return rc


if __name__ == "__main__":
    raise SystemExit(main())
