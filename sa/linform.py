"""E6 -- abstract evaluation of time-conversion arithmetic over linear forms.

An instant of the property's quantifier (UTC, 1970..2100, microsecond
precision) is decomposed as  S whole seconds + F microseconds  with
``0 <= S <= S_MAX`` and ``0 <= F <= 999_999``.  Numeric expressions are
evaluated to *linear forms* ``a*S + b*F + c`` with exact rational
coefficients plus a representation kind:

* ``int``                  Python int (exact);
* ``float`` / exact        IEEE double that provably holds the form's value for
                           every (S, F) in range (integer-valued, and
                           ``max|v| / 2^k < 2^53`` with ``2^k`` the common
                           power of two of the coefficients);
* ``float`` / inexact      a double that may differ from the form's value
                           (carries a bound on the absolute error).

The ``datetime`` API the repository uses is given abstract semantics (table
in ``_call``/``_attr``).  A construct outside the vocabulary raises
``AnalysisError`` -- never a guessed verdict.
"""
from __future__ import annotations

import ast
import math
from dataclasses import dataclass, field
from fractions import Fraction
from typing import Any, Optional

from .core import AnalysisError, FuncInfo, Index, dotted, unparse

S_MAX = 4102444800          # 2100-01-01T00:00:00Z
S_MIN = -2208988800         # 1900-01-01T00:00:00Z (instants before the epoch
                            # are legal timestamps: S may be negative)
F_MAX = 999_999
BOUNDS = {"S": (S_MIN, S_MAX), "F": (0, F_MAX), "D": (0, F_MAX),
          "R": (0, 999)}
# "R": the sub-microsecond remainder (0..999 ns) of a span time given in
# nanoseconds - OTel times have nanosecond resolution.
# "D": the fraction digits of the string read as an integer.  A PV / ISO
# timestamp may carry 1..6 fraction digits, so D == F only for exactly six
# digits; D is therefore a component of its own (never equal to F).


def frac(x: Any) -> Fraction:
    if isinstance(x, float):
        return Fraction(x).limit_denominator(10**18) if x != int(x) \
            else Fraction(int(x))
    return Fraction(x)


@dataclass
class Num:
    form: dict[str, Fraction]               # keys 'S', 'F', '1'
    typ: str = "int"                        # int | float
    exact: bool = True
    err: Fraction = Fraction(0)             # abs. error bound when inexact
    notes: tuple[str, ...] = ()

    def coef(self, k: str) -> Fraction:
        return self.form.get(k, Fraction(0))

    def is_const(self) -> bool:
        return not self.coef("S") and not self.coef("F")

    def max_abs(self) -> Fraction:
        lo = hi = self.coef("1")
        for k, (a, b) in BOUNDS.items():
            c = self.coef(k)
            lo += min(c * a, c * b)
            hi += max(c * a, c * b)
        return max(abs(lo), abs(hi))

    def show(self) -> str:
        parts = []
        for k in ("S", "F", "D", "R", "1"):
            c = self.coef(k)
            if c:
                parts.append(f"{c}" + ("" if k == "1" else f"*{k}"))
        return " + ".join(parts) or "0"


def const(v: Any) -> Num:
    if isinstance(v, bool):
        raise AnalysisError("boolean in arithmetic")
    if isinstance(v, int):
        return Num({"1": Fraction(v)}, "int", True)
    if isinstance(v, float):
        # the form carries the decimal the programmer wrote; err is how far
        # the double that is actually used lies from it (1e9 is exact,
        # 1e-9 and 1e-6 are not)
        intent = Fraction(repr(v))
        err = abs(Fraction(v) - intent)
        return Num({"1": intent}, "float", err == 0, err)
    raise AnalysisError(f"constant {v!r} outside the vocabulary")


def conv_err(n: "Num") -> Fraction:
    """Error of an operand when it enters a float operation: an int above
    2**53 is rounded on conversion."""
    if n.typ == "int" and n.max_abs() >= 2 ** 53:
        return ulp_at(n.max_abs()) / 2
    return n.err


def _float_exact(form: dict[str, Fraction]) -> bool:
    """Is the value representable as a double for every (S, F) in range?"""
    coefs = [c for c in form.values() if c]
    if not coefs:
        return True
    if any(c.denominator != 1 for c in coefs):
        # non-integer coefficients: only dyadic constants are exact
        return all(k == "1" and (c.denominator & (c.denominator - 1)) == 0
                   for k, c in form.items() if c)
    k = min((int(c) & -int(c)).bit_length() - 1 for c in coefs)
    n = Num(form)
    return n.max_abs() / (2 ** k) < 2 ** 53


def ulp_at(x: Fraction) -> Fraction:
    if x <= 0:
        return Fraction(0)
    e = math.floor(math.log2(float(x)))
    return Fraction(2) ** (e - 52)


@dataclass
class DT:
    sec: Num                      # whole seconds since epoch
    micro: Num                    # microsecond field
    zone: str                     # utc | naive_utc | naive_local | naive_wall
    notes: tuple[str, ...] = ()
    rounding: str = "exact"       # exact | nearest (fields rounded together
                                  # to the nearest microsecond) | mixed


@dataclass
class Str:
    kind: str                     # pv (…ffffffZ) | iso (no Z) | fmt-result
    z: bool = True
    fmt: Optional[str] = None
    dt: Optional[DT] = None


@dataclass
class Tz:
    name: str


@dataclass
class Seq:
    """A tuple/list of abstract values (result of partition/split or a
    tuple display).  ``exact_len``: the length holds for every input."""
    items: list
    exact_len: bool = True


@dataclass
class Const:
    value: Any


@dataclass
class Delta:
    micro: Num                    # total microseconds


def _is_noise(st: ast.stmt) -> bool:
    from .rules.util import is_noise
    return is_noise(st)


class TimeInterp:
    """Abstract interpreter for one conversion function."""

    def __init__(self, index: Index, fi: FuncInfo,
                 args: Optional[list[Any]] = None, depth: int = 0) -> None:
        self.index = index
        self.fi = fi
        self.depth = depth
        self.env: dict[str, Any] = {}
        self.trace: list[str] = []
        self.hazards: list[tuple[ast.AST, str]] = []
        params = fi.node.args.args
        if args is None:
            args = [self._param_value(p) for p in params]
        for p, v in zip(params, args):
            self.env[p.arg] = v

    def _param_value(self, p: ast.arg) -> Any:
        ann = unparse(p.annotation) if p.annotation else ""
        if ann == "str":
            return Str("pv", z=True)
        if ann == "int":
            return Num({"S": Fraction(10**9), "F": Fraction(1000),
                        "R": Fraction(1)}, "int")
        if ann.endswith("datetime"):
            return DT(Num({"S": Fraction(1)}), Num({"F": Fraction(1)}), "utc")
        raise AnalysisError(
            f"{self.fi.qualname}: parameter {p.arg}: {ann or 'unannotated'} "
            "is outside the time-conversion vocabulary")

    # -- statements -----------------------------------------------------------
    def run(self) -> Any:
        for st in self.fi.node.body:
            if isinstance(st, ast.Expr) and isinstance(st.value, ast.Constant):
                continue  # docstring
            if _is_noise(st):
                continue  # logging / assert / pass: no effect on the value
            if isinstance(st, ast.Assign) and len(st.targets) == 1 \
                    and isinstance(st.targets[0], ast.Name):
                self.env[st.targets[0].id] = self.ev(st.value)
            elif isinstance(st, ast.AnnAssign) and st.value is not None \
                    and isinstance(st.target, ast.Name):
                self.env[st.target.id] = self.ev(st.value)
            elif isinstance(st, ast.Assign) and len(st.targets) == 1 \
                    and isinstance(st.targets[0], (ast.Tuple, ast.List)) \
                    and all(isinstance(t, ast.Name)
                            for t in st.targets[0].elts):
                vals = self.ev(st.value)
                if not (isinstance(vals, Seq) and (
                        vals.exact_len or isinstance(st.value, ast.Tuple))
                        and len(vals.items) == len(st.targets[0].elts)):
                    raise AnalysisError(
                        f"{self.fi.qualname}:{st.lineno}: unpacking of "
                        f"'{unparse(st.value)}' is outside the vocabulary "
                        "(length not known)")
                for t, v in zip(st.targets[0].elts, vals.items):
                    self.env[t.id] = v  # type: ignore[attr-defined]
            elif isinstance(st, ast.Return) and st.value is not None:
                return self.ev(st.value)
            else:
                raise AnalysisError(
                    f"{self.fi.qualname}:{st.lineno}: statement "
                    f"'{type(st).__name__}' is outside the straight-line "
                    "vocabulary of the time-arithmetic interpreter")
        raise AnalysisError(f"{self.fi.qualname}: no return value")

    # -- expressions ----------------------------------------------------------
    def ev(self, e: ast.AST) -> Any:
        if isinstance(e, ast.Constant):
            if isinstance(e.value, (int, float)) and not isinstance(
                    e.value, bool):
                return const(e.value)
            return Const(e.value)
        if isinstance(e, ast.Name):
            if e.id in self.env:
                return self.env[e.id]
            if e.id in ("UTC",):
                return Tz("utc")
            got = self.index.resolve_name(self.fi.module, e.id)
            if got is None and e.id in self.fi.module.assigns:
                return self.ev(self.fi.module.assigns[e.id][-1].value)
            return Const(("name", e.id))
        if isinstance(e, ast.Attribute):
            return self._attr(e)
        if isinstance(e, ast.UnaryOp) and isinstance(e.op, ast.USub):
            v = self.ev(e.operand)
            if isinstance(v, Num):
                return Num({k: -c for k, c in v.form.items()}, v.typ,
                           v.exact, v.err)
        if isinstance(e, ast.BinOp):
            return self._binop(e)
        if isinstance(e, ast.Call):
            return self._call(e)
        if isinstance(e, (ast.Tuple, ast.List)):
            return Seq([self.ev(x) for x in e.elts])
        if isinstance(e, ast.BoolOp) and isinstance(e.op, ast.Or) \
                and len(e.values) == 2:
            a, b = self.ev(e.values[0]), self.ev(e.values[1])
            # "<digits> or 0" / "<digits> or '0'": the empty fraction reads 0
            if isinstance(a, Str) and a.kind.startswith("frac") and (
                    (isinstance(b, Num) and b.is_const()
                     and not b.coef("1"))
                    or (isinstance(b, Const) and b.value in ("0", ""))):
                return a
        if isinstance(e, ast.Subscript):
            base = self.ev(e.value)
            if isinstance(base, Seq) and isinstance(e.slice, ast.Constant) \
                    and isinstance(e.slice.value, int):
                i = e.slice.value
                if -len(base.items) <= i < len(base.items) and (
                        base.exact_len or i >= 0):
                    if not base.exact_len and i > 0:
                        self.hazards.append((
                            e, f"'{unparse(e)}' : a timestamp without a "
                               "fraction has no such element"))
                    return base.items[i]
            if isinstance(base, Str) and base.kind in ("frac6",) \
                    and isinstance(e.slice, ast.Slice) \
                    and e.slice.lower is None and e.slice.step is None \
                    and unparse(e.slice.upper) == "6":
                return base
            if isinstance(base, Str) and isinstance(e.slice, ast.Slice) \
                    and e.slice.lower is None and e.slice.step is None \
                    and isinstance(e.slice.upper, ast.UnaryOp) \
                    and unparse(e.slice.upper) == "-1" and base.z:
                return Str("iso", z=False)
        raise AnalysisError(
            f"{self.fi.qualname}:{getattr(e, 'lineno', 0)}: expression "
            f"'{unparse(e)}' is outside the time-arithmetic vocabulary")

    def _attr(self, e: ast.Attribute) -> Any:
        d = dotted(e)
        if d in ("timezone.utc", "datetime.timezone.utc", "datetime.UTC",
                 "dt.timezone.utc"):
            return Tz("utc")
        base = self.ev(e.value)
        if isinstance(base, DT):
            if e.attr == "microsecond":
                return base.micro
            raise AnalysisError(
                f"datetime attribute .{e.attr} outside the vocabulary")
        return Const(("attr", d or unparse(e)))

    def _binop(self, e: ast.BinOp) -> Any:
        a, b = self.ev(e.left), self.ev(e.right)
        if isinstance(a, DT) and isinstance(b, Delta) and isinstance(
                e.op, ast.Add):
            return self._dt_plus(a, b)
        if isinstance(a, Delta) and isinstance(b, DT) and isinstance(
                e.op, ast.Add):
            return self._dt_plus(b, a)
        if isinstance(a, Str) and isinstance(b, Const) and isinstance(
                e.op, ast.Add) and isinstance(b.value, str):
            if a.kind == "fmt-result" and a.fmt is not None:
                return Str("fmt-result", fmt=a.fmt + b.value.replace(
                    "%", "%%"), dt=a.dt)
        if not (isinstance(a, Num) and isinstance(b, Num)):
            raise AnalysisError(
                f"{self.fi.qualname}:{e.lineno}: operands of "
                f"'{unparse(e)}' are outside the arithmetic vocabulary")
        op = e.op
        typ = "float" if "float" in (a.typ, b.typ) else "int"
        if isinstance(op, (ast.Add, ast.Sub)):
            sgn = 1 if isinstance(op, ast.Add) else -1
            form = dict(a.form)
            for k, c in b.form.items():
                form[k] = form.get(k, Fraction(0)) + sgn * c
            return self._mk(form, typ, a, b, e)
        if isinstance(op, ast.Mult):
            if a.is_const() or b.is_const():
                k, v = (a, b) if a.is_const() else (b, a)
                form = {n: c * k.coef("1") for n, c in v.form.items()}
                return self._mk(form, typ, a, b, e)
        if isinstance(op, ast.Pow) and a.is_const() and b.is_const():
            val = a.coef("1") ** int(b.coef("1"))
            return Num({"1": Fraction(val)}, typ, True)
        if isinstance(op, ast.Div) and b.is_const() and b.coef("1"):
            form = {n: c / b.coef("1") for n, c in a.form.items()}
            return self._mk(form, "float", a, b, e)
        if isinstance(op, ast.FloorDiv) and b.is_const() and typ == "float" \
                and b.coef("1") == 1:
            # floor of S + (fraction in [0, 1)): the whole seconds, for
            # negative S as well (floor, unlike int(), rounds down)
            fracp = {k: c for k, c in a.form.items() if k != "S"}
            if a.coef("S").denominator == 1 and all(
                    c >= 0 for c in fracp.values()) and Num(
                    fracp).max_abs() + a.err < 1 and a.err < Fraction(
                    1, 10**6):
                return Num({"S": a.coef("S")}, "float", True, Fraction(0))
        if isinstance(op, (ast.FloorDiv, ast.Mod)) and b.is_const() \
                and typ == "int" and b.coef("1") > 0:
            d = b.coef("1")
            whole = {k: c for k, c in a.form.items() if c % d == 0}
            rest = {k: c for k, c in a.form.items() if c % d != 0}
            if all(c >= 0 for c in rest.values()) and \
                    Num(rest).max_abs() < d:
                if isinstance(op, ast.FloorDiv):
                    return Num({k: c / d for k, c in whole.items() if c},
                               "int", a.exact, a.err / d)
                # (whole + rest) % d : the multiples of d vanish only if every
                # whole term is a multiple of d for all values -> yes
                return Num({k: c for k, c in rest.items() if c}, "int",
                           a.exact, a.err)
        raise AnalysisError(
            f"{self.fi.qualname}:{e.lineno}: '{unparse(e)}' is outside the "
            "linear-form vocabulary")

    def _mk(self, form: dict[str, Fraction], typ: str, a: Num, b: Num,
            e: ast.AST) -> Num:
        form = {k: c for k, c in form.items() if c}
        if typ == "int":
            if any(c.denominator != 1 for c in form.values()):
                raise AnalysisError("int form with fractional coefficient")
            # integer arithmetic is exact, but it cannot repair an operand
            # that already carries an error (int() of an inexact float)
            if a.exact and b.exact:
                return Num(form, "int", True)
            scale = Fraction(1)
            if isinstance(e, ast.BinOp) and isinstance(e.op, ast.Mult):
                scale = abs((a if a.is_const() else b).coef("1"))
            return Num(form, "int", False, (a.err + b.err) * scale)
        ea, eb = conv_err(a), conv_err(b)
        op = e.op if isinstance(e, ast.BinOp) else None
        if isinstance(op, ast.Mult):
            k, v, ek, ev = (a, b, ea, eb) if a.is_const() else (b, a, eb, ea)
            err = ev * abs(k.coef("1")) + ek * v.max_abs()
        elif isinstance(op, ast.Div):
            d = abs(b.coef("1"))
            err = ea / d + (eb * a.max_abs() / (d * d) if d else 0)
        else:
            err = ea + eb
        res = Num(form)
        if err == 0 and _float_exact(form):
            return Num(form, "float", True, Fraction(0))
        err += ulp_at(res.max_abs()) / 2          # rounding of this operation
        self.trace.append(
            f"{unparse(e)} : double, may differ from {res.show()} by up to "
            f"{float(err):.3g}")
        return Num(form, "float", False, err)

    def _dt_plus(self, d: DT, delta: Delta) -> DT:
        total = {k: d.micro.coef(k) + delta.micro.coef(k)
                 for k in ("S", "F", "1")}
        # carry whole seconds
        sec = dict(d.sec.form)
        for k in ("S", "1"):
            c = total.get(k, Fraction(0))
            if c and c % 10**6 == 0:
                sec[k] = sec.get(k, Fraction(0)) + c / 10**6
                total[k] = Fraction(0)
        return DT(Num({k: c for k, c in sec.items() if c}),
                  Num({k: c for k, c in total.items() if c}), d.zone)

    # -- calls ----------------------------------------------------------------
    def _kw(self, call: ast.Call, name: str) -> Optional[ast.AST]:
        for k in call.keywords:
            if k.arg == name:
                return k.value
        return None

    def _call(self, e: ast.Call) -> Any:
        f = e.func
        name = dotted(f) or ""
        last = name.split(".")[-1] if name else (
            f.attr if isinstance(f, ast.Attribute) else "")
        # ---- builtins
        if name == "int" and len(e.args) == 1:
            v = self.ev(e.args[0])
            if isinstance(v, Num):
                return self._to_int(v, e)
            if isinstance(v, Str) and v.kind == "frac6":
                return Num({"F": Fraction(1)}, "int", True)
            if isinstance(v, Str) and v.kind == "frac":
                self.hazards.append((
                    e, f"'{unparse(e)}' reads the fraction digits as an "
                       "integer: k digits denote D * 10^-k seconds, which is "
                       "the microsecond count only when k == 6 ('.5' is half "
                       "a second, not 5 microseconds)"))
                return Num({"D": Fraction(1)}, "int", True)
        if name == "divmod" and len(e.args) == 2:
            q = self._binop(ast.BinOp(left=e.args[0], op=ast.FloorDiv(),
                                      right=e.args[1], lineno=e.lineno,
                                      col_offset=0))
            r = self._binop(ast.BinOp(left=e.args[0], op=ast.Mod(),
                                      right=e.args[1], lineno=e.lineno,
                                      col_offset=0))
            return Seq([q, r])
        if name == "round" and len(e.args) == 1:
            v = self.ev(e.args[0])
            if isinstance(v, Num):
                if v.typ == "int" or v.exact:
                    return Num(v.form, "int", True)
                if v.err < Fraction(1, 2) and all(
                        c.denominator == 1 for c in v.form.values()):
                    return Num(v.form, "int", True)
                return self._to_int(v, e)
        if name == "float" and len(e.args) == 1:
            v = self.ev(e.args[0])
            if isinstance(v, Num):
                return Num(v.form, "float", v.exact and _float_exact(v.form),
                           v.err)
        # ---- datetime constructors
        if last == "fromisoformat" and len(e.args) == 1:
            s = self.ev(e.args[0])
            if isinstance(s, Str) and s.kind in ("iso", "iso+00:00"):
                zone = "utc" if s.kind == "iso+00:00" else "naive_wall"
                return DT(Num({"S": Fraction(1)}), Num({"F": Fraction(1)}),
                          zone)
            if isinstance(s, Str) and s.kind == "iso-seconds":
                return DT(Num({"S": Fraction(1)}), Num({}), "naive_wall")
            if isinstance(s, Str) and s.kind == "pv" and s.z:
                # Python >= 3.11 parses a trailing 'Z' as UTC
                return DT(Num({"S": Fraction(1)}), Num({"F": Fraction(1)}),
                          "utc", ("fromisoformat given the 'Z' suffix",))
        if last == "strptime" and len(e.args) == 2:
            s, fmt = self.ev(e.args[0]), self.ev(e.args[1])
            if isinstance(s, Str) and isinstance(fmt, Const):
                want = ISO_FMT + ("Z" if s.z else "")
                ok = fmt.value == want
                if not ok:
                    self.hazards.append((e, f"strptime format {fmt.value!r} "
                                         f"does not parse '{want}'"))
                return DT(Num({"S": Fraction(1)}), Num({"F": Fraction(1)}),
                          "naive_wall")
        if last in ("fromtimestamp", "utcfromtimestamp") and e.args:
            v = self.ev(e.args[0])
            tz_expr = self._kw(e, "tz") or (e.args[1] if len(e.args) > 1
                                            else None)
            tz = self.ev(tz_expr) if tz_expr is not None else None
            if isinstance(v, Num):
                zone = ("utc" if isinstance(tz, Tz) and tz.name == "utc"
                        else "naive_utc" if last == "utcfromtimestamp"
                        else "naive_local")
                return self._from_seconds(v, zone, e)
        if last == "timedelta":
            total = Num({}, "int")
            scale = {"microseconds": 1, "milliseconds": 10**3,
                     "seconds": 10**6, "minutes": 6 * 10**7}
            for k in e.keywords:
                if k.arg not in scale:
                    raise AnalysisError(f"timedelta({k.arg}=) unsupported")
                v = self.ev(k.value)
                if not isinstance(v, Num) or v.typ != "int":
                    raise AnalysisError("timedelta with non-int argument")
                total = Num({n: total.coef(n) + c * scale[k.arg]
                             for n, c in v.form.items()} |
                            {n: c for n, c in total.form.items()
                             if n not in v.form}, "int")
            return Delta(total)
        if last == "datetime" and len(e.args) >= 3:
            vals = [self.ev(a) for a in e.args]
            if all(isinstance(v, Num) and v.is_const() for v in vals) and \
                    [int(v.coef("1")) for v in vals[:3]] == [1970, 1, 1]:
                tz_expr = self._kw(e, "tzinfo")
                tz = self.ev(tz_expr) if tz_expr is not None else None
                zone = "utc" if isinstance(tz, Tz) else "naive_utc"
                return DT(Num({}), Num({}), zone)
        # ---- methods
        if isinstance(f, ast.Attribute):
            recv = self.ev(f.value)
            if isinstance(recv, Str):
                return self._str_method(recv, f.attr, e)
            if isinstance(recv, DT):
                return self._dt_method(recv, f.attr, e)
        # ---- repository helpers
        if isinstance(f, ast.Name):
            got = self.index.resolve_name(self.fi.module, f.id)
            if isinstance(got, FuncInfo) and self.depth < 4:
                names = [p.arg for p in got.node.args.args]
                bound: dict[str, Any] = {}
                for nm, a in zip(names, e.args):
                    bound[nm] = self.ev(a)
                for k in e.keywords:
                    if k.arg in names:
                        bound[k.arg] = self.ev(k.value)
                if set(bound) != set(names):
                    raise AnalysisError(
                        f"{self.fi.qualname}:{e.lineno}: call "
                        f"'{unparse(e)}' does not bind every parameter of "
                        f"{got.name}")
                args = [bound[nm] for nm in names]
                sub = TimeInterp(self.index, got, args, self.depth + 1)
                out = sub.run()
                self.trace.extend(sub.trace)
                self.hazards.extend(sub.hazards)
                return out
        if name in ("calendar.timegm", "timegm") and len(e.args) == 1:
            v = self.ev(e.args[0])
            if isinstance(v, Const) and isinstance(v.value, tuple) \
                    and v.value[0] == "timetuple":
                return Num(v.value[1].form, "int")
        raise AnalysisError(
            f"{self.fi.qualname}:{e.lineno}: call '{unparse(e)}' is outside "
            "the time-conversion vocabulary")

    def _to_int(self, v: Num, e: ast.AST) -> Num:
        if v.typ == "int":
            return v
        if v.exact and all(c.denominator == 1 for c in v.form.values()):
            return Num(v.form, "int", True)
        # int() of S + c*F with 0 <= c*F < 1 - err : the whole seconds
        frac_part = {k: c for k, c in v.form.items() if k != "S"}
        if v.coef("S").denominator == 1 and all(
                c >= 0 for c in frac_part.values()) and \
                Num(frac_part).max_abs() + v.err < 1 and \
                Num({"S": v.coef("S")}).max_abs() < 2 ** 52:
            if BOUNDS["S"][0] * v.coef("S") < 0 and Num(
                    frac_part).max_abs() > 0:
                # int() truncates toward zero: for S < 0 and a non-zero
                # fraction the result is S + 1, not the floored S that the
                # non-negative microsecond field is relative to
                self.hazards.append((
                    e, f"int() of {v.show()} truncates toward zero: for an "
                       "instant before 1970 with a non-zero fraction the "
                       "whole seconds come out one too high (the "
                       "microsecond field counts up from the *floored* "
                       "second)"))
                return Num(v.form, "int", False, Fraction(1))
            self.trace.append(f"{unparse(e)} : truncation recovers "
                              f"{v.coef('S')}*S")
            return Num({"S": v.coef("S")}, "int", True)
        self.hazards.append((
            e, f"int() of an inexact float: the value {v.show()} is carried "
               f"by a double that can be off by {float(v.err):.3g} "
               "(fractional float scaled to the target unit)"))
        return Num(v.form, "int", False, v.err)

    def _from_seconds(self, v: Num, zone: str, e: ast.AST) -> DT:
        # seconds value  a*S + b*F + c  ->  (sec, micro) fields
        sec = {k: c for k, c in v.form.items() if c.denominator == 1}
        rest = {k: c * 10**6 for k, c in v.form.items()
                if c.denominator != 1}
        rounding = "exact"
        sub = {k: c for k, c in rest.items() if c.denominator != 1}
        if sub:
            # a remainder below one microsecond: fromtimestamp rounds the
            # whole instant to the nearest microsecond (carrying into the
            # seconds when the fraction rounds up to 1.000000)
            if Num(sub).max_abs() < 1 and all(c >= 0 for c in sub.values()):
                rest = {k: c for k, c in rest.items() if k not in sub}
                rounding = "nearest"
            else:
                raise AnalysisError(
                    f"fromtimestamp argument {v.show()} is not a whole "
                    "number of microseconds")
        if v.typ == "float" and not v.exact:
            # fromtimestamp rounds half-even to the microsecond: the right
            # microsecond is recovered iff the float error stays < 0.5 µs
            ok = v.err < Fraction(1, 2 * 10**6)
            self.trace.append(
                f"{unparse(e)} : float seconds, error bound "
                f"{float(v.err)*1e6:.3f} µs "
                f"({'<' if ok else '>='} 0.5 µs rounding radius)")
            if not ok:
                self.hazards.append((e, "float seconds lose the microsecond"))
        return DT(Num(sec, "int"), Num(rest, "int"), zone, (), rounding)

    def _str_method(self, s: Str, m: str, e: ast.Call) -> Any:
        a0 = self.ev(e.args[0]) if e.args else None
        if m in ("rstrip", "removesuffix", "strip") and isinstance(a0, Const) \
                and a0.value == "Z" and s.z:
            return Str("iso", z=False)
        if m == "replace" and len(e.args) >= 2 and isinstance(a0, Const) \
                and a0.value == "Z" and s.z:
            a1 = self.ev(e.args[1])
            if isinstance(a1, Const) and a1.value == "":
                return Str("iso", z=False)
            if isinstance(a1, Const) and a1.value == "+00:00":
                return Str("iso+00:00", z=False)
        if s.kind == "iso" and isinstance(a0, Const) and a0.value == ".":
            if m in ("partition", "rpartition"):
                return Seq([Str("iso-seconds", z=False), Const("."),
                            Str("frac", z=False)])
            if m in ("split", "rsplit"):
                # one element only when the string carries no fraction
                return Seq([Str("iso-seconds", z=False),
                            Str("frac", z=False)], exact_len=False)
        if s.kind == "frac" and m == "ljust" and len(e.args) == 2:
            a1 = self.ev(e.args[1])
            if isinstance(a0, Num) and a0.is_const() and a0.coef("1") == 6 \
                    and isinstance(a1, Const) and a1.value == "0":
                return Str("frac6", z=False)
        raise AnalysisError(f"string method .{m}({unparse(e)}) unsupported")

    def _dt_method(self, d: DT, m: str, e: ast.Call) -> Any:
        if m == "replace":
            out = DT(d.sec, d.micro, d.zone, d.notes, d.rounding)
            for k in e.keywords:
                v = self.ev(k.value)
                if k.arg == "tzinfo" and isinstance(v, Tz):
                    if d.zone in ("naive_wall", "naive_utc", "utc"):
                        out.zone = "utc"
                    else:
                        out.zone = "local_as_utc"
                elif k.arg == "microsecond" and isinstance(v, Num):
                    out.micro = Num(v.form, "int")
                    if d.rounding == "nearest" and not v.is_const():
                        out.rounding = "mixed"
                        self.hazards.append((
                            e, "the seconds come from rounding the instant to "
                               "the nearest microsecond, the microsecond "
                               "field is set separately: when the "
                               "sub-second part is >= 999999500 ns the "
                               "rounding carries into the next second while "
                               "the microsecond field does not (order and "
                               "value are lost by almost a second)"))
                else:
                    raise AnalysisError(
                        f"datetime.replace({k.arg}=...) unsupported")
            return out
        if m == "astimezone":
            return DT(d.sec, d.micro, "utc" if d.zone in ("utc",) else d.zone,
                      d.notes, d.rounding)
        if m == "timestamp" and not e.args:
            if d.zone not in ("utc",):
                self.hazards.append((
                    e, f".timestamp() on a {d.zone} datetime is interpreted "
                       "in the machine's local time zone"))
            form = dict(d.sec.form)
            for k, c in d.micro.form.items():
                form[k] = form.get(k, Fraction(0)) + c / 10**6
            form = {k: c for k, c in form.items() if c}
            exact = _float_exact(form)
            # datetime.timestamp() of an aware datetime is
            # timedelta.total_seconds(): one correctly rounded division of an
            # exact integer number of microseconds (< 2**53) by 10**6
            err = Fraction(0) if exact else ulp_at(Num(form).max_abs()) / 2
            return Num(form, "float", exact, err)
        if m in ("timetuple", "utctimetuple") and not e.args:
            return Const(("timetuple", d.sec))
        if m == "strftime" and len(e.args) == 1:
            fmt = self.ev(e.args[0])
            if isinstance(fmt, Const) and isinstance(fmt.value, str):
                return Str("fmt-result", fmt=fmt.value, dt=d)
        if m == "isoformat":
            return Str("fmt-result", fmt="<isoformat>", dt=d)
        raise AnalysisError(f"datetime method .{m}() unsupported")


ISO_FMT = "%Y-%m-%dT%H:%M:%S.%f"
