"""Systematic behaviour-preserving rewrites of the functions the rules consult.

``python -m sa.autotwin [C10 ... | ALL] [--show]`` applies, one function and
one kind of rewrite at a time, edits that cannot change behaviour:

* ``rename-locals``   every local variable gets a new name
* ``rename-params``   every parameter gets a new name (keyword call sites in
                      the package are updated; only for functions whose simple
                      name is unique in the package)
* ``rename-function`` the function gets a new name, every reference follows
* ``flip-if``         ``if c: A else: B`` -> ``if not c: B else: A``
* ``swap-compare``    ``a < b`` -> ``b > a`` (and ``==``/``!=`` operands)
* ``log-first``       a debug-log statement at the start of the function
* ``log-blocks``      a debug-log statement at the start of every loop body
                      and if/else arm
* ``log-ends``        a debug-log statement at the end of every loop body
* ``hoist-return``    ``return e`` -> ``result_ = e; return result_``
* ``hoist-args``      non-trivial call arguments of statement-level calls are
                      bound to temporaries first
* ``extract-helper``  a run of top-level statements is moved into a new helper
                      function that is called in its place
* ``ternary``         ``if c: x = a else: x = b`` -> ``x = a if c else b``
* ``comp-to-loop``    a statement-level list comprehension becomes an explicit
                      loop with ``append``
* ``augassign``       ``x += y`` -> ``x = x + y``
* ``guard-clause``    a trailing ``if c: BODY`` of a loop body / function becomes
                      ``if not c: continue`` (``return``) followed by BODY
* ``unguard``         the inverse for ``if c: continue`` guard clauses
* ``keywordise``      positional arguments of calls to package functions are
                      passed by keyword

and runs the rules of every claimed property on a scratch copy.  Any
violation or analysis error is a brittleness of a rule (the property still
holds on the rewritten tree); the list is used to repair the rules.  It never
influences a verdict.
"""
from __future__ import annotations

import ast
import copy
import os
import shutil
import sys
import tempfile
from concurrent.futures import ProcessPoolExecutor
from pathlib import Path
from typing import Any, Callable, Iterator, Optional

from .core import AnalysisError, DEFAULT_ROOT, PACKAGE, Index

SUFFIX = "_rn"
LOG = "logging.getLogger(__name__).debug('autotwin')"


def _log_stmt() -> ast.stmt:
    return ast.parse(LOG).body[0]


def _locate(tree: ast.Module, name: str, lineno: int) -> Optional[ast.FunctionDef]:
    for n in ast.walk(tree):
        if isinstance(n, (ast.FunctionDef, ast.AsyncFunctionDef)) \
                and n.name == name and n.lineno == lineno:
            return n  # type: ignore[return-value]
    return None


def _params(f: ast.FunctionDef) -> list[ast.arg]:
    a = f.args
    out = list(a.posonlyargs) + list(a.args) + list(a.kwonlyargs)
    if a.vararg:
        out.append(a.vararg)
    if a.kwarg:
        out.append(a.kwarg)
    return out


def _docstring_offset(body: list[ast.stmt]) -> int:
    if body and isinstance(body[0], ast.Expr) and isinstance(
            body[0].value, ast.Constant) and isinstance(
            body[0].value.value, str):
        return 1
    return 0


# -- individual rewrites: each mutates ``f`` in place, returns True if changed
def t_rename_locals(f: ast.FunctionDef, tree: ast.Module) -> bool:
    params = {a.arg for a in _params(f)}
    skip: set[str] = set(params)
    for n in ast.walk(f):
        if isinstance(n, (ast.Global, ast.Nonlocal)):
            skip |= set(n.names)
        if n is not f and isinstance(n, (ast.FunctionDef, ast.AsyncFunctionDef,
                                         ast.Lambda)):
            args = n.args
            for a in (list(args.posonlyargs) + list(args.args)
                      + list(args.kwonlyargs)
                      + ([args.vararg] if args.vararg else [])
                      + ([args.kwarg] if args.kwarg else [])):
                skip.add(a.arg)
            if not isinstance(n, ast.Lambda):
                skip.add(n.name)
    stored = {n.id for n in ast.walk(f) if isinstance(n, ast.Name)
              and isinstance(n.ctx, (ast.Store, ast.Del))}
    exc = {n.name for n in ast.walk(f) if isinstance(n, ast.ExceptHandler)
           and n.name}
    targets = (stored | exc) - skip
    if not targets:
        return False
    for n in ast.walk(f):
        if isinstance(n, ast.Name) and n.id in targets:
            n.id = n.id + SUFFIX
        if isinstance(n, ast.ExceptHandler) and n.name in targets:
            n.name = n.name + SUFFIX
    return True


def t_flip_if(f: ast.FunctionDef, tree: ast.Module) -> bool:
    changed = False
    for n in ast.walk(f):
        if isinstance(n, ast.If) and n.orelse and not (
                len(n.orelse) == 1 and isinstance(n.orelse[0], ast.If)):
            if isinstance(n.test, ast.UnaryOp) and isinstance(n.test.op,
                                                              ast.Not):
                n.test = n.test.operand
            else:
                n.test = ast.UnaryOp(op=ast.Not(), operand=n.test)
            n.body, n.orelse = n.orelse, n.body
            changed = True
    return changed


SWAP = {ast.Lt: ast.Gt, ast.Gt: ast.Lt, ast.LtE: ast.GtE, ast.GtE: ast.LtE,
        ast.Eq: ast.Eq, ast.NotEq: ast.NotEq}


def t_swap_compare(f: ast.FunctionDef, tree: ast.Module) -> bool:
    changed = False
    for n in ast.walk(f):
        if isinstance(n, ast.Compare) and len(n.ops) == 1 and type(
                n.ops[0]) in SWAP:
            n.left, n.comparators[0] = n.comparators[0], n.left
            n.ops = [SWAP[type(n.ops[0])]()]
            changed = True
    return changed


def t_log_first(f: ast.FunctionDef, tree: ast.Module) -> bool:
    k = _docstring_offset(f.body)
    f.body.insert(k, _log_stmt())
    return True


def t_log_blocks(f: ast.FunctionDef, tree: ast.Module) -> bool:
    changed = False
    for n in ast.walk(f):
        if isinstance(n, (ast.For, ast.While)):
            n.body.insert(0, _log_stmt())
            changed = True
        elif isinstance(n, ast.If):
            n.body.insert(0, _log_stmt())
            if n.orelse and not (len(n.orelse) == 1 and isinstance(
                    n.orelse[0], ast.If)):
                n.orelse.insert(0, _log_stmt())
            changed = True
    return changed


def t_log_ends(f: ast.FunctionDef, tree: ast.Module) -> bool:
    changed = False
    for n in ast.walk(f):
        if isinstance(n, (ast.For, ast.While)):
            last = n.body[-1]
            if isinstance(last, (ast.Continue, ast.Break, ast.Return,
                                 ast.Raise)):
                continue
            n.body.append(_log_stmt())
            changed = True
    return changed


def _neg(test: ast.expr) -> ast.expr:
    if isinstance(test, ast.UnaryOp) and isinstance(test.op, ast.Not):
        return test.operand
    return ast.UnaryOp(op=ast.Not(), operand=test)


def t_guard_clause(f: ast.FunctionDef, tree: ast.Module) -> bool:
    """``for ..: ...; if c: BODY`` -> ``for ..: ...; if not c: continue;
    BODY`` and, at the end of a function, ``if c: BODY`` -> ``if not c:
    return; BODY``."""
    changed = False
    for n in ast.walk(f):
        if isinstance(n, (ast.For, ast.While)) and n.body and isinstance(
                n.body[-1], ast.If) and not n.body[-1].orelse:
            last = n.body[-1]
            n.body[-1:] = [ast.If(test=_neg(last.test),
                                  body=[ast.Continue()], orelse=[])] + \
                list(last.body)
            changed = True
    if f.body and isinstance(f.body[-1], ast.If) and not f.body[-1].orelse \
            and not any(isinstance(x, (ast.Yield, ast.YieldFrom))
                        for x in ast.walk(f)):
        last = f.body[-1]
        f.body[-1:] = [ast.If(test=_neg(last.test),
                              body=[ast.Return(value=None)], orelse=[])] + \
            list(last.body)
        changed = True
    return changed


def t_unguard(f: ast.FunctionDef, tree: ast.Module) -> bool:
    """``if c: continue; REST`` (in a loop body) -> ``if not c: REST``."""
    changed = False
    for n in ast.walk(f):
        if isinstance(n, (ast.For, ast.While)):
            for i, st in enumerate(n.body):
                if isinstance(st, ast.If) and not st.orelse and len(
                        st.body) == 1 and isinstance(st.body[0],
                                                     ast.Continue) \
                        and i + 1 < len(n.body):
                    rest = n.body[i + 1:]
                    n.body[i:] = [ast.If(test=_neg(st.test), body=rest,
                                         orelse=[])]
                    changed = True
                    break
    return changed


def _blocks(f: ast.AST) -> Iterator[list[ast.stmt]]:
    for n in ast.walk(f):
        for fld in ("body", "orelse", "finalbody"):
            blk = getattr(n, fld, None)
            if isinstance(blk, list) and blk and isinstance(blk[0], ast.stmt):
                yield blk
        if isinstance(n, ast.Try):
            for h in n.handlers:
                yield h.body


def t_hoist_return(f: ast.FunctionDef, tree: ast.Module) -> bool:
    changed = False
    for blk in list(_blocks(f)):
        i = 0
        while i < len(blk):
            st = blk[i]
            if isinstance(st, ast.Return) and st.value is not None and not \
                    isinstance(st.value, (ast.Name, ast.Constant)) and not any(
                        isinstance(x, (ast.Yield, ast.YieldFrom, ast.Await))
                        for x in ast.walk(st.value)):
                tmp = ast.Assign(targets=[ast.Name(id="result_",
                                                   ctx=ast.Store())],
                                 value=st.value)
                blk[i:i + 1] = [tmp, ast.Return(value=ast.Name(
                    id="result_", ctx=ast.Load()))]
                i += 1
                changed = True
            i += 1
    return changed


def _trivial(e: ast.AST) -> bool:
    return isinstance(e, (ast.Name, ast.Constant, ast.Attribute, ast.Lambda,
                          ast.Starred))


def t_hoist_args(f: ast.FunctionDef, tree: ast.Module) -> bool:
    changed = False
    counter = 0
    for blk in list(_blocks(f)):
        i = 0
        while i < len(blk):
            st = blk[i]
            call = None
            if isinstance(st, (ast.Expr, ast.Assign)) and isinstance(
                    st.value, ast.Call):
                call = st.value
            if call is not None and not any(
                    isinstance(x, (ast.Yield, ast.YieldFrom, ast.Await,
                                   ast.NamedExpr))
                    for x in ast.walk(call)) and _trivial(call.func) or (
                    call is not None and isinstance(call.func, ast.Name)):
                assert call is not None
                pre: list[ast.stmt] = []
                # evaluation order: func (trivial), positional, keywords
                seen_nontrivial_after = False
                for k, a in enumerate(call.args):
                    if isinstance(a, ast.Starred):
                        seen_nontrivial_after = True
                        break
                    if not _trivial(a):
                        counter += 1
                        nm = f"arg{counter}_"
                        pre.append(ast.Assign(
                            targets=[ast.Name(id=nm, ctx=ast.Store())],
                            value=a))
                        call.args[k] = ast.Name(id=nm, ctx=ast.Load())
                if not seen_nontrivial_after:
                    for kwd in call.keywords:
                        if kwd.arg is None:
                            break
                        if not _trivial(kwd.value):
                            counter += 1
                            nm = f"arg{counter}_"
                            pre.append(ast.Assign(
                                targets=[ast.Name(id=nm, ctx=ast.Store())],
                                value=kwd.value))
                            kwd.value = ast.Name(id=nm, ctx=ast.Load())
                if pre:
                    blk[i:i] = pre
                    i += len(pre)
                    changed = True
            i += 1
    return changed


class PackageFacts:
    """Simple-name -> parameter list for functions/classes whose simple name
    is unique in the package (used by keywordise / rename-params)."""

    def __init__(self, index: Index) -> None:
        self.unique: dict[str, list[str]] = {}
        self.has_var: set[str] = set()
        by: dict[str, list[Any]] = {}
        for fi in index.all_functions():
            by.setdefault(fi.node.name, []).append(fi)
        for name, fis in by.items():
            if len(fis) == 1 and fis[0].cls is None:
                a = fis[0].node.args
                if a.vararg or a.kwarg or a.posonlyargs:
                    self.has_var.add(name)
                self.unique[name] = [x.arg for x in a.args]
        self.method_names = {fi.node.name for fi in index.all_functions()
                             if fi.cls is not None}


def make_keywordise(facts_unique: dict[str, list[str]],
                    method_names: set[str]) -> Callable[..., bool]:
    def t_keywordise(f: ast.FunctionDef, tree: ast.Module) -> bool:
        changed = False
        for n in ast.walk(f):
            if isinstance(n, ast.Call) and isinstance(n.func, ast.Name) \
                    and n.func.id in facts_unique and n.args and not any(
                        isinstance(a, ast.Starred) for a in n.args):
                ps = facts_unique[n.func.id]
                if len(n.args) > len(ps):
                    continue
                new = [ast.keyword(arg=ps[k], value=a)
                       for k, a in enumerate(n.args)]
                n.keywords = new + n.keywords
                n.args = []
                changed = True
        return changed
    return t_keywordise


def rename_params_everywhere(tree_by_mod: dict[str, ast.Module], relpath: str,
                             f: ast.FunctionDef, unique: dict[str, list[str]]
                             ) -> Optional[dict[str, ast.Module]]:
    """Rename every parameter of ``f``; fix keyword call sites in all modules.
    Returns the set of changed module trees or None if not applicable."""
    if f.name not in unique:
        return None
    ps = [a for a in _params(f) if a.arg not in ("self", "cls")]
    if not ps:
        return None
    mapping = {a.arg: a.arg + SUFFIX for a in ps}
    # names shadowed in nested scopes: bail out if a nested def/lambda rebinds
    for n in ast.walk(f):
        if n is not f and isinstance(n, (ast.FunctionDef, ast.Lambda)):
            inner = {a.arg for a in (n.args.args + n.args.kwonlyargs)}
            if inner & set(mapping):
                return None
    for a in ps:
        a.arg = mapping[a.arg]
    for n in ast.walk(f):
        if isinstance(n, ast.Name) and n.id in mapping:
            n.id = mapping[n.id]
    for mod in tree_by_mod.values():
        for n in ast.walk(mod):
            if isinstance(n, ast.Call):
                nm = n.func.id if isinstance(n.func, ast.Name) else (
                    n.func.attr if isinstance(n.func, ast.Attribute) else None)
                if nm == f.name:
                    for kwd in n.keywords:
                        if kwd.arg in mapping:
                            kwd.arg = mapping[kwd.arg]
    return tree_by_mod


def rename_function_everywhere(tree_by_mod: dict[str, ast.Module],
                               f: ast.FunctionDef) -> bool:
    """Rename ``f`` (and every reference by that simple name) to
    ``<name>_rn`` across the package."""
    old, new = f.name, f.name + SUFFIX
    if old.startswith("__"):
        return False
    for mod in tree_by_mod.values():
        for n in ast.walk(mod):
            if isinstance(n, (ast.FunctionDef, ast.AsyncFunctionDef)) \
                    and n.name == old:
                n.name = new
            elif isinstance(n, ast.Name) and n.id == old:
                n.id = new
            elif isinstance(n, ast.Attribute) and n.attr == old:
                n.attr = new
            elif isinstance(n, ast.alias):
                if n.name == old:
                    n.name = new
                if n.asname == old:
                    n.asname = new
    return True


def t_extract_helper(f: ast.FunctionDef, tree: ast.Module) -> bool:
    """Extract method: the first run of >= 2 consecutive top-level statements
    without control transfer becomes a module-level helper; the run is
    replaced by ``outs = helper(ins)``."""
    body = f.body
    k0 = _docstring_offset(body)
    bad = (ast.Return, ast.Yield, ast.YieldFrom, ast.Break, ast.Continue,
           ast.Raise, ast.Global, ast.Nonlocal, ast.FunctionDef, ast.ClassDef,
           ast.Await, ast.Lambda, ast.Try)

    def movable(st: ast.stmt) -> bool:
        return isinstance(st, (ast.Assign, ast.AnnAssign, ast.AugAssign,
                               ast.Expr, ast.For, ast.If, ast.With)) and \
            not any(isinstance(n, bad) for n in ast.walk(st))
    i = k0
    run: Optional[tuple[int, int]] = None
    while i < len(body):
        if movable(body[i]):
            j = i
            while j < len(body) and movable(body[j]):
                j += 1
            if j - i >= 2:
                run = (i, j)
                break
            i = j
        else:
            i += 1
    if run is None:
        return False
    i, j = run
    block = body[i:j]
    params = [a.arg for a in _params(f)]
    before = set(params) | {n.id for st in body[:i] for n in ast.walk(st)
                            if isinstance(n, ast.Name)
                            and isinstance(n.ctx, ast.Store)}
    loads = [n.id for st in block for n in ast.walk(st)
             if isinstance(n, ast.Name) and isinstance(n.ctx, ast.Load)]
    stores = {n.id for st in block for n in ast.walk(st)
              if isinstance(n, ast.Name) and isinstance(n.ctx, (ast.Store,
                                                                ast.Del))}
    after_loads = {n.id for st in body[j:] for n in ast.walk(st)
                   if isinstance(n, ast.Name) and isinstance(n.ctx, ast.Load)}
    ins = [v for v in dict.fromkeys(loads) if v in before]
    # an augmented assignment reads its target
    for st in block:
        for n in ast.walk(st):
            if isinstance(n, ast.AugAssign) and isinstance(n.target, ast.Name) \
                    and n.target.id in before and n.target.id not in ins:
                ins.append(n.target.id)
    outs = sorted(stores & after_loads)
    hname = f"_extracted_{f.name.strip('_')}"
    ret: list[ast.stmt] = []
    if outs:
        ret = [ast.Return(value=ast.Tuple(
            elts=[ast.Name(id=o, ctx=ast.Load()) for o in outs],
            ctx=ast.Load()) if len(outs) > 1 else
            ast.Name(id=outs[0], ctx=ast.Load()))]
    helper = ast.FunctionDef(
        name=hname,
        args=ast.arguments(posonlyargs=[], args=[ast.arg(arg=v) for v in ins],
                           kwonlyargs=[], kw_defaults=[], defaults=[]),
        body=block + ret, decorator_list=[], returns=None, type_comment=None,
        type_params=[])
    call = ast.Call(func=ast.Name(id=hname, ctx=ast.Load()),
                    args=[ast.Name(id=v, ctx=ast.Load()) for v in ins],
                    keywords=[])
    if outs:
        tgt: ast.expr = ast.Tuple(elts=[ast.Name(id=o, ctx=ast.Store())
                                        for o in outs], ctx=ast.Store()) \
            if len(outs) > 1 else ast.Name(id=outs[0], ctx=ast.Store())
        repl: ast.stmt = ast.Assign(targets=[tgt], value=call)
    else:
        repl = ast.Expr(value=call)
    body[i:j] = [repl]
    # place the helper at module level, before the (class of the) function
    for k, st in enumerate(tree.body):
        if st is f or (isinstance(st, ast.ClassDef) and f in st.body):
            tree.body.insert(k, helper)
            return True
    return False


def t_ternary(f: ast.FunctionDef, tree: ast.Module) -> bool:
    """``if c: x = a else: x = b`` -> ``x = a if c else b``."""
    changed = False
    for blk in list(_blocks(f)):
        for i, st in enumerate(blk):
            if isinstance(st, ast.If) and len(st.body) == 1 and len(
                    st.orelse) == 1 and all(
                    isinstance(x, ast.Assign) and len(x.targets) == 1
                    and isinstance(x.targets[0], ast.Name)
                    for x in (st.body[0], st.orelse[0])) \
                    and st.body[0].targets[0].id == \
                    st.orelse[0].targets[0].id:      # type: ignore[attr-defined]
                blk[i] = ast.Assign(
                    targets=[st.body[0].targets[0]],  # type: ignore[attr-defined]
                    value=ast.IfExp(test=st.test,
                                    body=st.body[0].value,   # type: ignore[attr-defined]
                                    orelse=st.orelse[0].value))  # type: ignore[attr-defined]
                changed = True
    return changed


def t_comp_to_loop(f: ast.FunctionDef, tree: ast.Module) -> bool:
    """``xs = [e for t in it if c]`` (statement level, one generator) ->
    ``xs = []; for t in it: if c: xs.append(e)``."""
    changed = False
    for blk in list(_blocks(f)):
        i = 0
        while i < len(blk):
            st = blk[i]
            tgt = None
            if isinstance(st, ast.Assign) and len(st.targets) == 1 and \
                    isinstance(st.targets[0], ast.Name):
                tgt = st.targets[0].id
            elif isinstance(st, ast.AnnAssign) and isinstance(
                    st.target, ast.Name) and st.value is not None:
                tgt = st.target.id
            v = getattr(st, "value", None)
            if tgt and isinstance(v, ast.ListComp) and len(
                    v.generators) == 1 and not v.generators[0].is_async \
                    and not any(isinstance(n, ast.Name) and n.id == tgt
                                for n in ast.walk(v)):
                g = v.generators[0]
                app: ast.stmt = ast.Expr(value=ast.Call(
                    func=ast.Attribute(value=ast.Name(id=tgt, ctx=ast.Load()),
                                       attr="append", ctx=ast.Load()),
                    args=[v.elt], keywords=[]))
                for cond in reversed(g.ifs):
                    app = ast.If(test=cond, body=[app], orelse=[])
                loop = ast.For(target=g.target, iter=g.iter, body=[app],
                               orelse=[], type_comment=None)
                init = ast.Assign(targets=[ast.Name(id=tgt, ctx=ast.Store())],
                                  value=ast.List(elts=[], ctx=ast.Load()))
                blk[i:i + 1] = [init, loop]
                i += 1
                changed = True
            i += 1
    return changed


def t_augassign(f: ast.FunctionDef, tree: ast.Module) -> bool:
    """``x += y`` -> ``x = x + y`` (names only)."""
    changed = False
    for blk in list(_blocks(f)):
        for i, st in enumerate(blk):
            if isinstance(st, ast.AugAssign) and isinstance(
                    st.target, ast.Name) and isinstance(
                    st.op, (ast.Add, ast.Sub, ast.Mult)):
                blk[i] = ast.Assign(
                    targets=[ast.Name(id=st.target.id, ctx=ast.Store())],
                    value=ast.BinOp(left=ast.Name(id=st.target.id,
                                                  ctx=ast.Load()),
                                    op=st.op, right=st.value))
                changed = True
    return changed


TRANSFORMS: dict[str, Callable[[ast.FunctionDef, ast.Module], bool]] = {
    "rename-locals": t_rename_locals,
    "flip-if": t_flip_if,
    "swap-compare": t_swap_compare,
    "log-first": t_log_first,
    "log-blocks": t_log_blocks,
    "log-ends": t_log_ends,
    "hoist-return": t_hoist_return,
    "hoist-args": t_hoist_args,
    "extract-helper": t_extract_helper,
    "ternary": t_ternary,
    "comp-to-loop": t_comp_to_loop,
    "augassign": t_augassign,
    "guard-clause": t_guard_clause,
    "unguard": t_unguard,
}


def _ensure_logging(tree: ast.Module) -> None:
    for n in tree.body:
        if isinstance(n, ast.Import) and any(a.name == "logging" and
                                             a.asname is None for a in n.names):
            return
    k = _docstring_offset(tree.body)
    while k < len(tree.body) and isinstance(tree.body[k], ast.ImportFrom) \
            and tree.body[k].module == "__future__":
        k += 1
    tree.body.insert(k, ast.parse("import logging").body[0])


def _run(args: tuple[list[str], str, dict[str, str], str, str]
         ) -> dict[str, Any]:
    props, root, files, qual, desc = args
    scratch = Path(tempfile.mkdtemp(prefix="sa_autotwin_"))
    try:
        shutil.copytree(Path(root) / PACKAGE, scratch / PACKAGE,
                        ignore=shutil.ignore_patterns("__pycache__"))
        for extra in ("end-to-end-pumls", "puml_files", "docs"):
            if (Path(root) / extra).exists():
                os.symlink(Path(root) / extra, scratch / extra)
        for rel, src in files.items():
            (scratch / rel).write_text(src)
        from .main import run_rules
        fired: list[str] = []
        for pr in props:
            try:
                rep, _ = run_rules(pr, scratch)
                fired += [f"{pr}:{o.rule} {o.instance[:50]} -- "
                          f"{o.detail[:90]}" for o in rep.violations]
            except AnalysisError as exc:
                fired.append(f"{pr}:ANALYSIS-ERROR {str(exc)[:140]}")
            except Exception as exc:  # internal error = brittleness too
                fired.append(f"{pr}:INTERNAL {type(exc).__name__} "
                             f"{str(exc)[:100]}")
        return {"func": qual, "desc": desc, "fired": fired}
    finally:
        shutil.rmtree(scratch, ignore_errors=True)


def generate(props: list[str], root: Path, only: Optional[set[str]] = None,
             funcs: Optional[set[str]] = None) -> list[tuple[list[str], str, dict[str, str], str, str]]:
    from .main import run_rules
    seen: dict[str, set[str]] = {}
    ctx = None
    for pr in props:
        rep, ctx = run_rules(pr, root)
        for q in rep.funcs_seen:
            seen.setdefault(q, set()).add(pr)
    assert ctx is not None
    index: Index = ctx.index
    facts = PackageFacts(index)
    tfs = dict(TRANSFORMS)
    tfs["keywordise"] = make_keywordise(
        {k: v for k, v in facts.unique.items() if k not in facts.has_var},
        facts.method_names)
    jobs = []
    for q in sorted(seen):
        fi = index.functions.get(q)
        if fi is None or (funcs and fi.node.name not in funcs):
            continue
        rel = fi.module.relpath
        # run every claimed property: a rewrite in a function one property
        # consults may upset another property's rule as well
        for tname, tf in tfs.items():
            if only and tname not in only:
                continue
            tree = ast.parse(fi.module.src)
            f = _locate(tree, fi.node.name, fi.node.lineno)
            if f is None:
                continue
            try:
                if not tf(f, tree):
                    continue
                if tname.startswith("log-"):
                    _ensure_logging(tree)
                src = ast.unparse(ast.fix_missing_locations(tree)) + "\n"
                ast.parse(src)
            except Exception:
                continue
            jobs.append((props, str(root), {rel: src},
                         q.split(":")[-1], tname))
        if (not only or "rename-function" in only) and len(
                index.by_simple_name.get(fi.node.name, [])) == 1:
            trees = {m.relpath: ast.parse(m.src)
                     for m in index.modules.values()}
            f = _locate(trees[rel], fi.node.name, fi.node.lineno)
            if f is not None:
                before = {r: ast.dump(t) for r, t in trees.items()}
                if rename_function_everywhere(trees, f):
                    files = {r: ast.unparse(ast.fix_missing_locations(t))
                             + "\n" for r, t in trees.items()
                             if ast.dump(t) != before[r]}
                    if files:
                        jobs.append((props, str(root), files,
                                     q.split(":")[-1], "rename-function"))
        if (not only or "rename-params" in only) and fi.cls is None:
            trees = {m.relpath: ast.parse(m.src)
                     for m in index.modules.values()}
            f = _locate(trees[rel], fi.node.name, fi.node.lineno)
            if f is not None:
                before = {r: ast.dump(t) for r, t in trees.items()}
                res = rename_params_everywhere(trees, rel, f, facts.unique)
                if res is not None:
                    files = {}
                    for r, t in trees.items():
                        if ast.dump(t) != before[r]:
                            files[r] = ast.unparse(
                                ast.fix_missing_locations(t)) + "\n"
                    if files:
                        jobs.append((props, str(root), files,
                                     q.split(":")[-1], "rename-params"))
    return jobs


def main() -> int:
    from .main import CLAIMED
    args = [a.upper() for a in sys.argv[1:] if not a.startswith("--")]
    only = None
    for a in sys.argv[1:]:
        if a.startswith("--only="):
            only = set(a.split("=")[1].split(","))
    funcs = None
    for a in sys.argv[1:]:
        if a.startswith("--funcs="):
            funcs = set(a.split("=")[1].split(","))
    props = CLAIMED if (not args or "ALL" in args) else args
    jobs = generate(props, DEFAULT_ROOT, only, funcs)
    with ProcessPoolExecutor(max_workers=16) as ex:
        res = list(ex.map(_run, jobs, chunksize=2))
    bad = [r for r in res if r["fired"]]
    print(f"autotwin: {len(res)} behaviour-preserving variants over "
          f"{len({r['func'] for r in res})} functions, "
          f"{len(res) - len(bad)} silent, {len(bad)} alarmed")
    for r in bad:
        print(f"  ALARM {r['func']} [{r['desc']}]")
        for x in r["fired"][:4]:
            print(f"      {x}")
    return 1 if bad else 0


if __name__ == "__main__":
    raise SystemExit(main())
