"""C10 -- ingestion stores each span once whatever the batching/duplication."""
from __future__ import annotations

import ast
from typing import Optional

from .. import sqlabs as S
from ..cfg import ENTRY, EXIT
from ..core import AnalysisError, FuncInfo, Report, call_name, dotted, unparse
from ..ctx import Ctx
from .sqlutil import sql_of, stmt_kind, table_of
from .util import (actual, calls_in, cguards, enclosing, kw,
                   norm_compare)

EXPLANATION = (
    "Structure that makes ingestion idempotent, decided on the source: "
    "R10.1 the span id is declared unique and the link table has the "
    "composite key (parent, child); R10.2 who-may-insert: every path from "
    "the ingestion entry points (save_data, __exit__) to a raw insert "
    "passes through the duplicate-recovering wrapper, and the raw commit / "
    "raw inserts have only the expected callers (resolved call graph + "
    "interprocedural statement trace); R10.3 the wrapper's recovery handler "
    "catches the integrity error, calls the filter routine, swallows "
    "nothing else, and every failing write path rolls the session back "
    "before the retry; R10.4 every normally-returning path of __exit__ "
    "flushes through the wrapper before closing the session and every "
    "save_data call site is lexically inside `with <that holder>`; R10.5 a "
    "saved span is appended to the pending list together with its link, "
    "and pending lists are reset only after both inserts; R10.6 the filter "
    "keeps the first occurrence, removes ids already stored (queried for "
    "the batch's ids), resets the pending links and rebuilds them only from "
    "the surviving nodes' own parent ids, then commits; R10.7 the stored "
    "record and link copy each field from the span's field of the same "
    "name."
    " Added: who may mutate the pending list (arrival order), no flush between a span's node and its link, the stored-id lookup dominates the retry, link guard agrees with the stored parent id.")
TRUSTED = ["builder-method semantics table of sa/sqlabs.py"]
NOT_DECIDED = ["behaviour of SQLAlchemy's unit of work on partial flushes"]
ASSUMPTIONS = ["one process writes the store at a time"]


def check(rep: Report, ctx: Ctx) -> None:
    sql = sql_of(ctx)
    sch = sql.schema
    wrapper = ctx.func("SQLDataHolder.commit_batched_unique_data_to_database")
    raw = ctx.func("SQLDataHolder.commit_batched_data_to_database")
    filt = ctx.func(
        "SQLDataHolder.check_and_filter_non_unique_nodes_and_associations")
    save = ctx.func("SQLDataHolder._save_data")
    exit_ = ctx.func("SQLDataHolder.__exit__")
    ins_nodes = ctx.func("SQLDataHolder.batch_insert_node_models")
    ins_assoc = ctx.func("SQLDataHolder.batch_insert_node_associations")
    ins_obj = ctx.func("SQLDataHolder.batch_insert_objects")
    rep.seen(wrapper, raw, filt, save, exit_, ins_nodes, ins_assoc, ins_obj)

    # ---- R10.1 ---------------------------------------------------------------
    rep.rule("R10.1", "unique key on the span id; composite key on links", 2)
    rep.ob("R10.1", "nodes.event_id is unique",
           "event_id" in sch.unique.get("nodes", set()),
           fi=None, detail=f"unique columns of nodes: "
           f"{sorted(sch.unique.get('nodes', set()))} -- without the "
           "constraint duplicates are stored silently")
    rep.obligations[-1].file = "tel2puml/otel_to_pv/data_holders/" \
        "sql_data_holder/data_model.py"
    rep.obligations[-1].func = "NodeModel"
    rep.ob("R10.1", "NODE_ASSOCIATION key is (parent_id, child_id)",
           sorted(sch.pk.get("NODE_ASSOCIATION", [])) == ["child_id",
                                                          "parent_id"],
           detail=f"primary key {sch.pk.get('NODE_ASSOCIATION')}")
    rep.obligations[-1].func = "NODE_ASSOCIATION"

    # ---- R10.2 ---------------------------------------------------------------
    rep.rule("R10.2", "who may insert", 8)
    for entry in (ctx.func("DataHolder.save_data"), exit_):
        it = sql.run(entry)
        ins = [x for x in it.execs if stmt_kind(x) == "INSERT"
               and table_of(x.stmt) in ("nodes", "NODE_ASSOCIATION")]
        if not ins:
            rep.ob("R10.2", f"{entry.short} reaches an insert", False,
                   fi=entry, node=entry.node,
                   detail="no insert into nodes/NODE_ASSOCIATION reachable: "
                          "pending spans are never written on this path")
        for x in ins:
            rep.ob("R10.2",
                   f"{entry.short}: insert into {table_of(x.stmt)} "
                   f"{'(retry)' if filt.short in x.chain else '(first try)'}",
                   wrapper.short in x.chain, fi=x.func, node=x.node,
                   path=x.chain,
                   detail=("passes through the duplicate-recovering wrapper"
                           if wrapper.short in x.chain else
                           "reaches the raw insert without the wrapper: a "
                           "duplicate id aborts the whole batch"))
    expected = {
        raw.qualname: {wrapper.qualname, filt.qualname},
        ins_nodes.qualname: {raw.qualname},
        ins_assoc.qualname: {raw.qualname},
        ins_obj.qualname: {ins_nodes.qualname,
                           ctx.func("insert_job_hashes").qualname},
    }
    for q, allowed in expected.items():
        callers = ctx.cg.callers(q)
        extra = callers - allowed
        f = ctx.index.functions[q]
        rep.ob("R10.2", f"callers of {f.short}", not extra, fi=f, node=f.node,
               detail=f"called by {sorted(c.split(':')[-1] for c in callers)}"
                      + ("" if not extra else
                         f"; unexpected: "
                         f"{sorted(c.split(':')[-1] for c in extra)}"))
    # raw session writes appear only in the two raw insert helpers
    writers = set()
    for f in ctx.index.all_functions():
        for c in ast.walk(f.node):
            if isinstance(c, ast.Call) and call_name(c) in ("add_all", "add",
                                                            "bulk_save_objects",
                                                            "merge") \
                    and isinstance(c.func, ast.Attribute) and "session" in (
                        dotted(c.func.value) or ""):
                writers.add(f.qualname)
            if isinstance(c, ast.Call) and call_name(c) == "insert":
                writers.add(f.qualname)
    allowed = {ins_obj.qualname, ins_assoc.qualname, ctx.func(
        "create_temp_table_of_root_nodes_in_time_window").qualname}
    rep.ob("R10.2", "raw session inserts live only in the insert helpers",
           writers <= allowed, fi=ins_obj, node=ins_obj.node,
           detail=f"functions building inserts: "
                  f"{sorted(w.split(':')[-1] for w in writers)}")

    # ---- R10.3 ---------------------------------------------------------------
    rep.rule("R10.3", "recovery handler", 5)
    tries = [t for t in ast.walk(wrapper.node) if isinstance(t, ast.Try)]
    raw_calls = calls_in(ctx, wrapper, raw)
    ok_try = len(tries) == 1 and len(raw_calls) == 1 and any(
        x is raw_calls[0] for st in tries[0].body for x in ast.walk(st))
    rep.ob("R10.3", "the raw commit runs inside the wrapper's try", ok_try,
           fi=wrapper, node=tries[0] if tries else wrapper.node,
           detail="try: commit_batched_data_to_database()")
    if ok_try:
        t = tries[0]
        recovers = False
        for h in t.handlers:
            names = _handler_names(h)
            calls_filter = any(isinstance(c, ast.Call) and call_name(c) ==
                               filt.name for st in h.body for c in ast.walk(st))
            reraises = any(isinstance(x, ast.Raise) for st in h.body
                           for x in ast.walk(st))
            catches_integrity = bool(names & {"IntegrityError", "Exception",
                                              "SQLAlchemyError", "DBAPIError",
                                              "BaseException", ""})
            if calls_filter and catches_integrity:
                recovers = True
            if calls_filter:
                # the filter drops every pending span whose id is stored,
                # *together with its links*: sound only when the failure was
                # the unique key firing at the span insert (which rolled the
                # spans of this batch back).  After any other failure (a
                # transient OperationalError at the link insert, when the
                # spans are already committed) it drops the links for good.
                rep.ob("R10.3", "the duplicate filter is entered only for an "
                       "IntegrityError", names == {"IntegrityError"},
                       fi=wrapper, node=h,
                       detail=f"handler catches ({', '.join(sorted(names)) or 'everything'}) "
                              "and calls the filter routine"
                       + ("" if names == {"IntegrityError"} else
                          ": for a failure after the spans were committed "
                          "the filter finds every span stored, removes them "
                          "and their links from the batch, and the links are "
                          "never written"))
            rep.ob("R10.3", f"handler ({', '.join(sorted(names)) or 'bare'}) "
                   "recovers or re-raises", calls_filter or reraises,
                   fi=wrapper, node=h,
                   detail=("calls the filter routine" if calls_filter else
                           "re-raises" if reraises else
                           "swallows the error: the pending batch is neither "
                           "written nor reported"))
        rep.ob("R10.3", "an IntegrityError leads to the filter routine",
               recovers, fi=wrapper, node=t,
               detail="except IntegrityError: check_and_filter_...()")
        fin_swallow = t.finalbody and any(
            isinstance(x, ast.Return) for st in t.finalbody
            for x in ast.walk(st))
        if fin_swallow:
            rep.ob("R10.3", "finally does not swallow", False, fi=wrapper,
                   node=t, detail="return inside finally")
    # every failing write path rolls back before the retry
    rb_ok, why = _rollback_discipline(ctx, raw, ins_obj, ins_assoc)
    rep.ob("R10.3", "a failed write is rolled back and re-raised", rb_ok,
           fi=raw, node=raw.node, detail=why)
    # the recovery assumes a failed insert wrote NOTHING (it looks the
    # batch's ids up in the store and drops, with their links, the spans it
    # finds there): each raw insert is one transaction - one commit, not in
    # a loop, after the whole list was handed to the session (seed C10-z)
    for f in (ins_obj, ins_assoc):
        commits = [c for c in ast.walk(f.node) if isinstance(c, ast.Call)
                   and call_name(c) == "commit"]
        looped = [c for c in commits
                  if enclosing(f.node, c, (ast.For, ast.While))]
        ok = len(commits) >= 1 and not looped
        rep.ob("R10.3", f"{f.short}: a batch is inserted in one transaction",
               ok, fi=f, node=(looped or commits or [f.node])[0],
               detail=("one commit after the whole list" if ok else
                       (f"{len(looped)} commit(s) inside a loop: a duplicate "
                        "in a later chunk fails the insert after earlier "
                        "chunks were committed; the duplicate filter then "
                        "takes those spans for stored ones and drops them "
                        "together with their parent links" if looped else
                        "no commit")))

    # ---- R10.4 ---------------------------------------------------------------
    rep.rule("R10.4", "final flush", 3)
    cfg = ctx.cfg(exit_)
    wc = calls_in(ctx, exit_, wrapper)
    closes = [c for c in ast.walk(exit_.node) if isinstance(c, ast.Call)
              and call_name(c) == "close"]
    if not wc:
        rep.ob("R10.4", "__exit__ flushes the pending batch", False,
               fi=exit_, node=exit_.node,
               detail="no call of the wrapper: the last partial batch is "
                      "never written")
    else:
        wn = cfg.container(wc[0])
        ok = cfg.every_path_passes(ENTRY, EXIT, {wn})
        if not ok:
            # tolerated: skipping the flush when nothing is pending
            guards = enclosing(exit_.node, wc[0], (ast.If,))
            tol = bool(guards) and all(
                unparse(g.test) in (
                    "self.node_models_to_save",
                    "len(self.node_models_to_save) > 0",
                    "len(self.node_models_to_save)",
                    "self.node_models_to_save or "
                    "self.node_relationships_to_save")
                and any(x is wc[0] for st in g.body for x in ast.walk(st))
                for g in guards)
            ok = tol and cfg.every_path_passes(
                ENTRY, EXIT, {cfg.node(guards[0])})
            if ok:
                wn = cfg.node(guards[0])
        rep.ob("R10.4", "every normal path of __exit__ flushes", ok,
               fi=exit_, node=wc[0],
               detail="the wrapper call is on every path from entry to "
                      "normal exit" if ok else "a path leaves __exit__ "
                      "without flushing")
        for c in closes:
            cn = cfg.container(c)
            ok = cfg.dominates(wn, cn)
            rep.ob("R10.4", "flush before session.close()", ok, fi=exit_,
                   node=c, detail="the flush dominates the close")
    sd = ctx.func("DataHolder.save_data")
    sites = 0
    for q in ctx.cg.callers(sd):
        caller = ctx.index.functions[q]
        for call in calls_in(ctx, caller, sd):
            sites += 1
            recv = unparse(call.func.value) if isinstance(
                call.func, ast.Attribute) else "?"
            withs = enclosing(caller.node, call, (ast.With,))
            ok = any(unparse(i.context_expr) == recv for w in withs
                     for i in w.items)
            rep.ob("R10.4", f"save_data in {caller.short} is inside "
                   f"`with {recv}`", ok, fi=caller, node=call,
                   detail="only the context exit flushes the last batch")
    if not sites:
        raise AnalysisError("no call site of save_data found")

    # ---- R10.5 ---------------------------------------------------------------
    rep.rule("R10.5", "pending lists", 4)
    apps = [c for c in ast.walk(save.node) if isinstance(c, ast.Call)
            and call_name(c) == "append"
            and unparse(c.func.value) == "self.node_models_to_save"]
    defs = ctx.defs(save)
    ev = save.params()[1] if len(save.params()) > 1 else "otel_event"
    ok = len(apps) == 1 and not enclosing(save.node, apps[0], (ast.If, ast.For,
                                                              ast.Try))
    src = defs.resolve(apps[0].args[0]) if apps else None
    ok = ok and isinstance(src, ast.Call) and call_name(src) == \
        "convert_otel_event_to_node_model" and unparse(src.args[0]) == ev
    rep.ob("R10.5", "every saved span is appended to the pending nodes", ok,
           fi=save, node=apps[0] if apps else save.node,
           detail="self.node_models_to_save.append(convert(otel_event)), "
                  "unconditionally")
    rel = [c for c in ast.walk(save.node) if isinstance(c, ast.Call)
           and call_name(c) == "add_node_relations"]
    ok = len(rel) == 1 and unparse(rel[0].args[0]) == ev and not enclosing(
        save.node, rel[0], (ast.If, ast.For, ast.Try))
    rep.ob("R10.5", "... together with its parent link", ok, fi=save,
           node=rel[0] if rel else save.node,
           detail="self.add_node_relations(otel_event), unconditionally")
    flush = calls_in(ctx, save, wrapper)
    raw_in_save = calls_in(ctx, save, raw)
    rep.ob("R10.5", "a full batch is flushed through the wrapper",
           len(flush) >= 1 and not raw_in_save, fi=save,
           node=(raw_in_save or flush or [save.node])[0],
           detail="threshold flush calls commit_batched_unique_data_..."
                  if not raw_in_save else "threshold flush calls the raw "
                  "commit: one duplicate id loses the whole batch")
    # node and link of one span are queued together: no flush in between (the
    # recovery path assumes the pending links are exactly the links of the
    # pending nodes and rebuilds them from the surviving nodes)
    scfg = ctx.cfg(save)
    n_app = scfg.container(apps[0]) if apps else None
    n_rel = scfg.container(rel[0]) if rel else None
    bad_flush = [c for c in flush
                 if n_app is None or n_rel is None or not (
                     scfg.dominates(n_app, scfg.container(c))
                     and scfg.dominates(n_rel, scfg.container(c)))]
    rep.ob("R10.5", "no flush between queueing a span and queueing its link",
           bool(flush) and not bad_flush, fi=save,
           node=bad_flush[0] if bad_flush else (flush[0] if flush
                                                else save.node),
           detail=("the batch is flushed after the node was appended but "
                   "before its parent link is queued: the link travels with "
                   "the next batch and is discarded when that batch goes "
                   "through the duplicate filter" if bad_flush else
                   "append(node) and add_node_relations(span) both dominate "
                   "the threshold flush"))
    # resets only after both inserts
    rcfg = ctx.cfg(raw)
    resets = [n for n in ast.walk(raw.node) if isinstance(n, ast.Assign)
              and isinstance(n.targets[0], ast.Attribute)
              and n.targets[0].attr in ("node_models_to_save",
                                        "node_relationships_to_save")]
    inserts = [rcfg.container(c) for c in calls_in(ctx, raw, ins_nodes)
               + calls_in(ctx, raw, ins_assoc)]
    ok = len(inserts) == 2 and all(
        all(rcfg.dominates(i, rcfg.node(r)) for i in inserts) for r in resets)
    rep.ob("R10.5", "pending lists are reset only after both inserts", ok,
           fi=raw, node=resets[0] if resets else raw.node,
           detail=f"{len(resets)} reset(s), {len(inserts)} insert call(s)")

    # the pending list keeps every span, in arrival order, until it is filtered
    # or committed ("the first occurrence seen" is the first in this list)
    holder = ctx.index.cls("SQLDataHolder")
    pend = "node_models_to_save"
    offenders: list[tuple[FuncInfo, ast.AST, str]] = []
    for ms in holder.methods.values():
        for m in ms:
            for n in ast.walk(m.node):
                if isinstance(n, ast.Call) and isinstance(
                        n.func, ast.Attribute) and isinstance(
                        n.func.value, ast.Attribute) \
                        and n.func.value.attr == pend:
                    meth = n.func.attr
                    if meth == "append" and m.name == save.name:
                        continue
                    if meth in ("sort", "reverse", "insert", "pop", "remove",
                                "extend", "clear", "append"):
                        offenders.append((m, n, f".{meth}() in {m.name}"))
                if isinstance(n, (ast.Assign, ast.AugAssign, ast.Delete)):
                    tg = n.targets if not isinstance(n, ast.AugAssign) \
                        else [n.target]
                    for t in tg:
                        if isinstance(t, ast.Subscript) and isinstance(
                                t.value, ast.Attribute) \
                                and t.value.attr == pend:
                            offenders.append((m, n, f"item store in "
                                                    f"{m.name}"))
                        if isinstance(t, ast.Attribute) and t.attr == pend \
                                and isinstance(n, ast.Assign):
                            v = n.value
                            if isinstance(v, ast.List) and not v.elts:
                                continue           # reset
                            if m.name in (filt.name, "__init__"):
                                continue           # the filter's own result
                            offenders.append((m, n, f"rebinding in "
                                                    f"{m.name}"))
                        if isinstance(t, ast.Attribute) and t.attr == pend \
                                and isinstance(n, ast.AugAssign):
                            offenders.append((m, n, f"augmented assignment "
                                                    f"in {m.name}"))
    rep.ob("R10.5", "the pending list keeps arrival order until it is "
           "filtered or committed", not offenders,
           fi=offenders[0][0] if offenders else save,
           node=offenders[0][1] if offenders else save.node,
           detail=("; ".join(o[2] for o in offenders) + " -- the duplicate "
                   "filter keeps the first occurrence *in list order*; "
                   "re-ordering or editing the pending list makes a later "
                   "occurrence (and its parent link) win")
           if offenders else
           "only _save_data appends; resets and the filter's result are the "
           "only rebindings")

    # ---- R10.6 ---------------------------------------------------------------
    rep.rule("R10.6", "filter skeleton", 7)
    _filter(rep, ctx, filt, raw)

    # ---- R10.7 ---------------------------------------------------------------
    rep.rule("R10.7", "record and link field mapping", 10)
    conv = ctx.func("convert_otel_event_to_node_model")
    ctor = [c for c in ast.walk(conv.node) if isinstance(c, ast.Call)
            and call_name(c) == "NodeModel"]
    if len(ctor) != 1:
        raise AnalysisError(f"{conv.qualname}: expected one NodeModel(...)")
    p = conv.params()[0]
    cols = [c for c in sch.models["NodeModel"].columns if c != "id"]
    for col in cols:
        v = kw(ctor[0], col)
        if col == "parent_event_id" and not isinstance(v, ast.Attribute):
            # a normalising expression over the span's own parent id: a real
            # id is stored unchanged (three-point domain of rules/optval.py)
            from . import optval
            ok = optval.table(v, f"{p}.{col}")[2] == "s" and {
                unparse(a) for a in ast.walk(v)
                if isinstance(a, ast.Attribute)} == {f"{p}.{col}"}
        else:
            ok = isinstance(v, ast.Attribute) and v.attr == col \
                and isinstance(v.value, ast.Name) and v.value.id == p
        rep.ob("R10.7", f"nodes.{col} <- span.{col}", ok, fi=conv,
               node=ctor[0], detail=f"{col} = {unparse(v)}")
    for fn, obj in ((ctx.func("SQLDataHolder.add_node_relations"),
                     "parent_event_id"),
                    (ctx.func("SQLDataHolder._update_node_relations_from_node"),
                     "parent_event_id")):
        dicts = [d for d in ast.walk(fn.node) if isinstance(d, ast.Dict)]
        ok = False
        if len(dicts) == 1:
            m = {k.value: v for k, v in zip(dicts[0].keys, dicts[0].values)
                 if isinstance(k, ast.Constant)}
            ok = set(m) == {"parent_id", "child_id"} and isinstance(
                m["parent_id"], ast.Attribute) and m["parent_id"].attr == obj \
                and isinstance(m["child_id"], ast.Attribute) \
                and m["child_id"].attr == "event_id"
        rep.ob("R10.7", f"{fn.short}: link = (parent_event_id, event_id)", ok,
               fi=fn, node=dicts[0] if dicts else fn.node,
               detail=unparse(dicts[0])[:100] if dicts else "<missing>")
        gs = cguards(ctx, fn, dicts[0]) if dicts else []
        subj = f"{fn.params()[1]}.parent_event_id"
        from . import optval as _ov
        tests = _tests_at(ctx, fn, dicts[0]) if dicts else []
        # a span with a real parent id always gets its link; a span without
        # a parent (None) never does
        okg = bool(tests) and _ov.holds(tests, subj, "s") and \
            not _ov.holds(tests, subj, None)
        rep.ob("R10.7", f"{fn.short}: only root spans have no link", okg,
               fi=fn, node=dicts[0] if dicts else fn.node,
               detail=f"link queued under {[' '.join(g) for g in gs]}")
    root_classification(rep, ctx, "R10.7")


def link_root_agreement(rep: Report, ctx: Ctx, rule: str) -> None:
    """(shared with C11 / C12)"""
    root_classification(rep, ctx, rule)


def _tests_at(ctx: Ctx, fn: FuncInfo, node: ast.AST
              ) -> list[tuple[ast.AST, bool]]:
    cfg = ctx.cfg(fn)
    nid = cfg.node(node) if cfg.has(node) else cfg.container(node)
    if nid is None:
        raise AnalysisError(f"{fn.qualname}: no CFG node for the link")
    return cfg.controlling(nid)


def root_classification(rep: Report, ctx: Ctx, rule: str) -> None:
    """Every site that decides "does this span have a parent?" gives the
    same answer for each kind of parent id a span can carry -- None, the
    empty string (what OTLP/JSON exporters write for a root) and a real id.
    The sites: the value the record stores (NULL = root for every SQL
    reader: root pages, job names, the streamed tree), the guard under which
    the ingestion path queues a link row for the raw span, the guard of the
    link rebuild from stored records, and every Python reader of a stored
    parent id.  Evaluated on the three-point domain of rules/optval.py."""
    from . import optval
    conv = ctx.func("convert_otel_event_to_node_model")
    ctor = [c for c in ast.walk(conv.node) if isinstance(c, ast.Call)
            and call_name(c) == "NodeModel"]
    add = ctx.func("SQLDataHolder.add_node_relations")
    reb = ctx.func("SQLDataHolder._update_node_relations_from_node")
    if len(ctor) != 1:
        raise AnalysisError("record construction not found")
    pv = kw(ctor[0], "parent_event_id")
    if pv is None:
        raise AnalysisError("NodeModel(... parent_event_id=...) not found")
    stored = optval.table(pv, f"{conv.params()[0]}.parent_event_id")
    # -- the raw link guard
    d_add = [d for d in ast.walk(add.node) if isinstance(d, ast.Dict)]
    d_reb = [d for d in ast.walk(reb.node) if isinstance(d, ast.Dict)]
    if len(d_add) != 1 or len(d_reb) != 1:
        raise AnalysisError("link construction not found")
    subj_add = f"{add.params()[1]}.parent_event_id"
    t_add = _tests_at(ctx, add, d_add[0])
    link = tuple(optval.holds(t_add, subj_add, v) for v in optval.POINTS)
    has_parent = tuple(v is not None and v != "!" for v in stored)
    ok = link == has_parent and "!" not in stored
    rep.ob(rule, "a link row is queued exactly when the stored record has a "
           "parent", ok, fi=add, node=d_add[0],
           detail=f"stored parent_event_id = {unparse(pv)}: "
                  f"{optval.show(stored)}; link queued: "
                  f"{optval.show(link)}"
                  + ("" if ok else " -- for the differing kind of parent id "
                     "the link table and the nodes table disagree on whether "
                     "the span is a root: either a root gets a link to a "
                     "parent that cannot exist (cleaning deletes its "
                     "well-formed trace), or a span stored with a parent has "
                     "no link and is not a root for any reader (its trace "
                     "keeps its per-span names and is streamed in pieces)"))
    # -- the rebuild guard sees STORED values
    subj_reb = f"{reb.params()[1]}.parent_event_id"
    t_reb = _tests_at(ctx, reb, d_reb[0])
    okr = all(v == "!" or optval.holds(t_reb, subj_reb, v) == (v is not None)
              for v in stored)
    rep.ob(rule, "the link rebuild after a duplicate agrees with the stored "
           "record", okr, fi=reb, node=d_reb[0],
           detail="guards " + ", ".join(
               ("" if s_ else "not ") + unparse(t)[:50] for t, s_ in t_reb)
           + f" on stored values {sorted(set(map(repr, stored)))}")
    # -- every other reader of a (stored) parent id
    n = 0
    bad = []
    for fi in ctx.index.all_functions():
        if "otel_to_pv" not in fi.module.relpath or fi.qualname in (
                conv.qualname, add.qualname):
            continue
        for t in ast.walk(fi.node):
            tests: list[ast.AST] = []
            if isinstance(t, (ast.If, ast.While, ast.IfExp)):
                tests = [t.test]
            elif isinstance(t, ast.comprehension):
                tests = list(t.ifs)
            for test in tests:
                for sub in ast.walk(test):
                    subj = None
                    if isinstance(sub, ast.Attribute) and \
                            sub.attr == "parent_event_id" and isinstance(
                                sub.value, ast.Name):
                        subj = unparse(sub)
                        break
                if subj is None:
                    continue
                # a membership / lookup test on the id is not a root test
                try:
                    vals = [bool(optval.ev(test, subj, v)) for v in stored
                            if v != "!"]
                except (AnalysisError, optval.Raises):
                    continue
                n += 1
                want = [v is None for v in stored if v != "!"]
                if vals != want and vals != [not w for w in want]:
                    bad.append((fi, test))
    rep.ob(rule, "every reader of a stored parent id separates exactly the "
           "records stored without a parent", not bad and n >= 3,
           fi=bad[0][0] if bad else conv, node=bad[0][1] if bad else ctor[0],
           detail=f"{n} root tests on stored parent ids"
                  + ("; disagrees: " + "; ".join(
                      f"{f.short}: {unparse(t)[:50]}" for f, t in bad)
                     if bad else ""))


def _handler_names(h: ast.ExceptHandler) -> set[str]:
    if h.type is None:
        return {""}
    if isinstance(h.type, ast.Tuple):
        return {(dotted(e) or "").split(".")[-1] for e in h.type.elts}
    return {(dotted(h.type) or "").split(".")[-1]}


def _rollback_discipline(ctx: Ctx, raw: FuncInfo, ins_obj: FuncInfo,
                         ins_assoc: FuncInfo) -> tuple[bool, str]:
    """Both insert calls of the raw commit are inside a try whose handlers
    roll back and re-raise."""
    tries = [t for t in ast.walk(raw.node) if isinstance(t, ast.Try)]
    if len(tries) != 1:
        return False, f"{len(tries)} try statements in the raw commit"
    t = tries[0]
    body_calls = {call_name(c) for st in t.body for c in ast.walk(st)
                  if isinstance(c, ast.Call)}
    if not {"batch_insert_node_models",
            "batch_insert_node_associations"} <= body_calls:
        return False, "an insert call is outside the try of the raw commit"
    for h in t.handlers:
        rb = any(isinstance(c, ast.Call) and call_name(c) == "rollback"
                 for st in h.body for c in ast.walk(st))
        rr = any(isinstance(x, ast.Raise) for st in h.body
                 for x in ast.walk(st))
        if not (rb and rr):
            return False, (f"handler ({', '.join(_handler_names(h))}) of the "
                           "raw commit " + ("does not roll back"
                                            if not rb else "does not re-raise")
                           + ": the wrapper never sees the IntegrityError / "
                           "the session stays in a failed transaction")
    names = set().union(*[_handler_names(h) for h in t.handlers]) \
        if t.handlers else set()
    if not names & {"IntegrityError", "Exception", "BaseException", ""}:
        return False, "no handler of the raw commit catches IntegrityError"
    return True, "try: inserts; except ...: session.rollback(); raise"


def _filter(rep: Report, ctx: Ctx, filt: FuncInfo, raw: FuncInfo) -> None:
    defs = ctx.defs(filt)
    body = filt.node.body
    loops = [n for n in body if isinstance(n, ast.For)]
    first = [l for l in loops
             if unparse(l.iter) == "self.node_models_to_save"]
    wrapped = [l for l in loops if l not in first and isinstance(
        l.iter, ast.Call) and call_name(l.iter) in ("groupby", "enumerate")
        and l.iter.args and unparse(l.iter.args[0]) ==
        "self.node_models_to_save"]
    if not first and len(wrapped) == 1:
        _filter_dict_survivors(rep, ctx, filt, raw, wrapped[0])
        return
    if len(first) != 1:
        bad = [l for l in loops if "node_models_to_save" in unparse(l.iter)]
        rep.ob("R10.6", "the batch is scanned in arrival order", False,
               fi=filt, node=bad[0] if bad else filt.node,
               detail=(f"loop over '{unparse(bad[0].iter)}'" if bad else
                       "no loop over self.node_models_to_save")
               + ": 'the first occurrence is kept' needs the pending list "
                 "in arrival order")
        return
    loop = first[0]
    v = loop.target.id if isinstance(loop.target, ast.Name) else "?"
    rep.ob("R10.6", "the batch is scanned in arrival order", True, fi=filt,
           node=loop, detail=f"for {v} in self.node_models_to_save")
    # keep iff first occurrence
    appends = [c for c in ast.walk(loop) if isinstance(c, ast.Call)
               and call_name(c) == "append" and c.args
               and isinstance(c.args[0], ast.Name) and c.args[0].id == v]
    if len(appends) != 1:
        raise AnalysisError(f"{filt.qualname}: survivor append not found")
    keep = appends[0]
    kept_list = unparse(keep.func.value)
    guards = enclosing(loop, keep, (ast.If,))
    ok, why = False, "the survivor append is unconditional"
    counter = None
    if len(guards) == 1 and any(x is keep for st in guards[0].body
                                for x in ast.walk(st)):
        t = defs.resolve_deep(guards[0].test)
        why = f"kept when '{unparse(guards[0].test)}' i.e. '{unparse(t)}'"
        # count == 0 with count = D.get(v.event_id, 0)
        nc = norm_compare(t)
        if nc is not None and isinstance(nc[2], ast.Constant):
            l, opt, c = nc[0], nc[1], nc[2].value
            is_zero = (opt is ast.Eq and c == 0) or (
                opt is ast.Lt and c == 1) or (opt is ast.LtE and c == 0)
            if isinstance(l, ast.Call) and call_name(l) == "get" and len(
                    l.args) == 2 and unparse(l.args[0]) == f"{v}.event_id" \
                    and isinstance(l.args[1], ast.Constant) \
                    and l.args[1].value == 0:
                counter = unparse(l.func.value)
                ok = is_zero
        # `v.event_id not in seen`
        if nc is not None and nc[1] is ast.NotIn and unparse(
                nc[0]) == f"{v}.event_id":
            counter = unparse(nc[2])
            ok = True
    rep.ob("R10.6", "a span is kept iff its id was not seen before in the "
           "batch", ok, fi=filt, node=guards[0] if guards else keep,
           detail=why + ("" if ok else " -- a later duplicate would replace "
                         "or join the first occurrence"))
    # the seen-marker is updated unconditionally, keyed by the same id
    upd = [n for n in loop.body if isinstance(n, ast.Assign)
           and isinstance(n.targets[0], ast.Subscript)
           and unparse(n.targets[0].value) == (counter or "")
           and unparse(n.targets[0].slice) == f"{v}.event_id"] + \
          [n for n in loop.body if isinstance(n, ast.Expr) and isinstance(
              n.value, ast.Call) and call_name(n.value) == "add"
           and unparse(n.value.func.value) == (counter or "")]
    ok = len(upd) == 1
    if ok and isinstance(upd[0], ast.Assign):
        val = defs.resolve_deep(upd[0].value)
        ok = isinstance(val, ast.BinOp) and isinstance(val.op, ast.Add) \
            and loop.body.index(upd[0]) >= loop.body.index(guards[0]) \
            if guards and guards[0] in loop.body else ok
    rep.ob("R10.6", "every occurrence is recorded after the test", ok,
           fi=filt, node=upd[0] if upd else loop,
           detail=f"{unparse(upd[0]) if upd else '<missing>'} "
                  "(unconditional, keyed by the span id)")
    # ids already stored
    ex = [c for c in ast.walk(filt.node) if isinstance(c, ast.Call)
          and call_name(c) == "get_event_ids_existing_in_db"]
    if len(ex) != 1:
        raise AnalysisError(f"{filt.qualname}: existing-id query not found")
    arg = defs.resolve(ex[0].args[0]) if ex[0].args else None
    atxt = unparse(arg) if arg is not None else ""
    ok = counter is not None and (atxt in (f"{counter}.keys()", counter,
                                           f"set({counter})",
                                           f"list({counter})")
                                  or (isinstance(arg, (ast.ListComp, ast.SetComp,
                                                      ast.GeneratorExp))
                                      and unparse(arg.elt).endswith(".event_id")
                                      and not arg.generators[0].ifs))
    rep.ob("R10.6", "stored ids are looked up for the batch's ids", ok,
           fi=filt, node=ex[0], detail=f"get_event_ids_existing_in_db({atxt})")
    # ... on every path to the retry: duplicates inside the batch and rows
    # already stored can occur together (re-ingesting files that repeat a span)
    fcfg = ctx.cfg(filt)
    n_lookup = fcfg.container(ex[0])
    retry = [c for c in ast.walk(filt.node) if isinstance(c, ast.Call)
             and call_name(c) == "commit_batched_data_to_database"]
    n_retry = fcfg.container(retry[0]) if retry else None
    ok = n_lookup is not None and n_retry is not None and \
        fcfg.dominates(n_lookup, n_retry)
    rep.ob("R10.6", "the stored-id lookup runs on every path to the retry",
           ok, fi=filt, node=ex[0],
           detail=("unconditional" if ok else
                   "the lookup is skipped on some path (under "
                   f"{[unparse(t) for t, _ in fcfg.controlling(n_lookup)] if n_lookup is not None else '?'}"
                   "): a batch that repeats a span AND contains spans already "
                   "stored is retried with the stored ones still in it -> "
                   "IntegrityError on re-ingest"))
    q = ctx.func("SQLDataHolder.get_event_ids_existing_in_db")
    it = sql_of(ctx).run(q)
    reads = [x for x in it.execs if x.kind == "read"]
    s = reads[0].stmt if reads else None
    ok = isinstance(s, S.Select) and [c.nf() for c in s.cols] == [
        "nodes.event_id"] and len(s.where) == 1 and isinstance(
        s.where[0], S.In) and not s.where[0].negated and s.where[0].col.nf() \
        == "nodes.event_id" and isinstance(s.where[0].what, S.Param) \
        and s.where[0].what.text == q.params()[1] and s.window is None
    detail = s.nf()[:160] if s is not None else "<no read>"
    if not ok and isinstance(s, S.Select) and [c.nf() for c in s.cols] == [
            "nodes.event_id"] and len(s.where) == 1 and isinstance(
            s.where[0], S.In) and not s.where[0].negated and \
            s.where[0].col.nf() == "nodes.event_id" and s.window is None:
        ok, detail = _chunked_lookup(ctx, q)
    rep.ob("R10.6", "the lookup returns exactly the given ids that are "
           "stored", ok, fi=q, node=reads[0].node if reads else q.node,
           detail=detail)
    existing = None
    asg = enclosing(filt.node, ex[0], (ast.Assign,))
    if asg and isinstance(asg[-1].targets[0], ast.Name):
        existing = asg[-1].targets[0].id
    # survivors minus stored ids
    refilter = [b for b in defs.of(kept_list) if b.kind == "assign"
                and isinstance(b.value, ast.ListComp)]
    ok = False
    if len(refilter) == 1:
        lc = refilter[0].value
        g = lc.generators[0]
        ok = isinstance(g.iter, ast.Name) and g.iter.id == kept_list \
            and len(g.ifs) == 1 and isinstance(g.ifs[0], ast.Compare) \
            and isinstance(g.ifs[0].ops[0], ast.NotIn) \
            and unparse(g.ifs[0].left).endswith(".event_id") \
            and unparse(g.ifs[0].comparators[0]) == existing \
            and isinstance(lc.elt, ast.Name) and isinstance(g.target, ast.Name) \
            and lc.elt.id == g.target.id
    rep.ob("R10.6", "spans whose id is already stored are dropped", ok,
           fi=filt, node=refilter[0].stmt if refilter else filt.node,
           detail=(unparse(refilter[0].stmt)[:140] if refilter else
                   "<missing>"))
    # pending state replaced by the survivors; links rebuilt from them only
    set_nodes = [n for n in body if isinstance(n, ast.Assign)
                 and unparse(n.targets[0]) == "self.node_models_to_save"]
    set_rel = [n for n in body if isinstance(n, ast.Assign)
               and unparse(n.targets[0]) == "self.node_relationships_to_save"]
    ok = len(set_nodes) == 1 and unparse(set_nodes[0].value) == kept_list \
        and (not refilter or set_nodes[0].lineno > refilter[0].stmt.lineno)
    rep.ob("R10.6", "pending nodes := survivors", ok, fi=filt,
           node=set_nodes[0] if set_nodes else filt.node,
           detail=unparse(set_nodes[0]) if set_nodes else "<missing>")
    ok = len(set_rel) == 1 and isinstance(set_rel[0].value, ast.List) \
        and not set_rel[0].value.elts
    rep.ob("R10.6", "pending links are reset", ok, fi=filt,
           node=set_rel[0] if set_rel else filt.node,
           detail=(unparse(set_rel[0]) if set_rel else
                   "<missing>: links of dropped duplicates would be inserted "
                   "again and abort the retry"))
    upd_fn = ctx.func("SQLDataHolder._update_node_relations_from_node")
    reb = calls_in(ctx, filt, upd_fn)
    ok = False
    if len(reb) == 1:
        l = enclosing(filt.node, reb[0], (ast.For,))
        ok = len(l) == 1 and unparse(l[0].iter) == kept_list and unparse(
            reb[0].args[0]) == unparse(l[0].target) and not enclosing(
                l[0], reb[0], (ast.If,)) and bool(set_rel) \
            and l[0].lineno > set_rel[0].lineno \
            and (not refilter or l[0].lineno > refilter[0].stmt.lineno)
    rep.ob("R10.6", "links are rebuilt from every survivor, after the reset",
           ok, fi=filt, node=reb[0] if reb else filt.node,
           detail=f"for node in {kept_list}: "
                  "self._update_node_relations_from_node(node)")
    rc = calls_in(ctx, filt, raw)
    cfg = ctx.cfg(filt)
    ok = len(rc) == 1
    if ok:
        rn = cfg.container(rc[0])
        reb_loop = enclosing(filt.node, reb[0], (ast.For,)) if reb else []
        needed = [cfg.node(n) for n in set_nodes + set_rel] + (
            [cfg.node(reb_loop[0])] if reb_loop else [])
        ok = all(cfg.dominates(x, rn) for x in needed) and \
            cfg.every_path_passes(ENTRY, EXIT, {rn})
    rep.ob("R10.6", "the filtered batch is committed afterwards", ok,
           fi=filt, node=rc[0] if rc else filt.node,
           detail="commit_batched_data_to_database() after the rebuild, on "
                  "every path")


def _filter_dict_survivors(rep: Report, ctx: Ctx, filt: FuncInfo,
                           raw: FuncInfo, loop: ast.For) -> None:
    """Survivors collected in a dict keyed by the span id while scanning the
    pending list in arrival order (possibly run-wise through groupby):
    a plain ``d[key] = node`` keeps the LAST occurrence, ``setdefault`` / a
    ``key not in d`` guard keeps the first."""
    rep.ob("R10.6", "the batch is scanned in arrival order", True, fi=filt,
           node=loop, detail=f"for {unparse(loop.target)} in "
           f"{unparse(loop.iter)[:70]}")
    stores = [s for s in ast.walk(loop) if isinstance(s, ast.Assign)
              and isinstance(s.targets[0], ast.Subscript)
              and isinstance(s.targets[0].value, ast.Name)]
    setdefaults = [c for c in ast.walk(loop) if isinstance(c, ast.Call)
                   and call_name(c) == "setdefault"]
    model_stores = []
    for st in stores:
        ann = [b for b in ctx.defs(filt).of(st.targets[0].value.id)]
        txt = " ".join(unparse(getattr(b.stmt, "annotation", None))
                       for b in ann if hasattr(b.stmt, "annotation"))
        if "NodeModel" in txt:
            model_stores.append(st)
    if not model_stores and not setdefaults:
        raise AnalysisError(f"{filt.qualname}: survivor collection outside "
                            "the vocabulary of R10.6")
    for st in model_stores:
        g = enclosing(loop, st, (ast.If,))
        guarded = any(" not in " in unparse(i.test) and unparse(
            st.targets[0].value) in unparse(i.test) for i in g)
        rep.ob("R10.6", "a span is kept iff its id was not seen before in "
               "the batch", guarded, fi=filt, node=st,
               detail=(f"'{unparse(st)[:70]}' "
                       + ("is guarded by a not-seen test" if guarded else
                          "overwrites an earlier entry with the same id: when "
                          "the same id occurs again later in the batch (not "
                          "adjacent) the LAST occurrence and its parent link "
                          "are stored instead of the first")))
    raise_rest = [o for o in rep.obligations if o.rule == "R10.6"
                  and not o.ok]
    if not raise_rest:
        raise AnalysisError(f"{filt.qualname}: dict-based duplicate filter "
                            "recognised as first-wins; the remaining "
                            "skeleton of R10.6 is outside the vocabulary")


def _chunked_lookup(ctx: Ctx, q: FuncInfo) -> tuple[bool, str]:
    """The id lookup split into chunks (to stay below the bound-parameter
    limit): sound iff the chunks tile the given ids -- slice
    ``ids[a:a + N]`` for ``a`` over ``range(0, len(ids), N)`` with one N --
    and the result is the union over every chunk."""
    import re
    from ..roles import Roles
    R = Roles(ctx, q)
    p = q.params()[1]
    ins = [c for c in ast.walk(q.node) if isinstance(c, ast.Call)
           and isinstance(c.func, ast.Attribute) and c.func.attr == "in_"
           and len(c.args) == 1]
    if len(ins) != 1:
        return False, f"{len(ins)} in_() filters"
    role = R.of(ins[0].args[0], ins[0])
    src = rf"(?:list|tuple|sorted)\(P:{p}\)|P:{p}"
    m = re.match(rf"^(?P<x>{src})\[(?P<a>each\(range\(0,len\((?P<x2>{src})\),"
                 rf"(?P<n>[^,()]+)\)\)):\((?P<a2>each\(range\(0,len\((?:{src})\),"
                 rf"[^,()]+\)\)) Add (?P<n2>[^,()]+)\)\]$", role)
    if not m or m.group("x") != m.group("x2") or m.group("a") != \
            m.group("a2") or m.group("n") != m.group("n2"):
        return False, (f"ids looked up: {role[:200]} -- neither the given "
                       "ids nor slices ids[a:a+N] for a in range(0, len(ids),"
                       " N) that tile them")
    # the result is the union over every chunk
    rets = [r for r in ast.walk(q.node) if isinstance(r, ast.Return)
            and r.value is not None]
    if len(rets) != 1 or not isinstance(rets[0].value, ast.Name):
        return False, "chunked lookup does not return one accumulated set"
    acc = rets[0].value.id
    ups = [c for c in ast.walk(q.node) if isinstance(c, ast.Call)
           and isinstance(c.func, ast.Attribute) and c.func.attr == "update"
           and isinstance(c.func.value, ast.Name) and c.func.value.id == acc]
    if len(ups) != 1 or len(ups[0].args) != 1:
        return False, f"{len(ups)} update(s) of the returned set '{acc}'"
    ur = R.of(ups[0].args[0], ups[0])
    gs = R.guards(ups[0])
    ok = re.match(r"^[\(\[\{]str\(each\(.*\.all\(\)\)\[0\]\) for\.\.[\)\]\}]$",
                  ur) is not None and f".in_({role})" in ur and not gs
    return ok, (f"chunks {role[:120]}; union of every chunk: "
                f"{acc}.update({ur[:80]}) when {gs or 'always'}")
