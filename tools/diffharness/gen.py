"""Random differential campaign: original vs candidate fix.

usage: gen.py SEED_START SEED_END [outfile]
Run with PYTHONHASHSEED pinned.  uuid4 is pinned by h.py.
"""
import os
import sys
import random
import json
import re

MODE = int(os.environ.get("GEN_MODE", "1"))
REUSE = 0.06 if MODE == 1 else 0.15
SIDE = 0.2 if MODE == 1 else 0.4
DUP = 0.0 if MODE == 1 else 0.4
sys.path.insert(0, os.path.dirname(os.path.abspath(__file__)))
import h  # noqa: E402


class Brk(Exception):
    def __init__(self, prevs):
        self.prevs = prevs


class Kill(Exception):
    pass


class Gen:
    def __init__(self, rng):
        self.rng = rng
        self.n = 0
        self.types = []

    def new_type(self):
        r = self.rng
        if self.types and r.random() < REUSE:
            return r.choice(self.types)
        self.n += 1
        t = f"E{self.n}"
        self.types.append(t)
        return t

    def ev(self):
        return ("ev", self.new_type())

    def brk_path(self, depth):
        r = self.rng
        n = r.choice([1, 2, 2, 2, 3, 3])
        items = []
        for _ in range(n):
            x = r.random()
            if x < 0.55:
                items.append(self.ev())
            elif x < 0.75:
                a = self.ev()
                b = a if r.random() < 0.35 else self.ev()
                kids = [a, b]
                if r.random() < 0.3:
                    kids = [("seq", [k, self.ev()]) if r.random() < 0.5 else k
                            for k in kids]
                items.append(("and", kids))
            elif x < 0.87:
                items.append(("xor", [self.ev(), self.ev()]))
            else:
                items.append(("loop", ("seq", [self.ev()] + (
                    [self.ev()] if r.random() < 0.5 else []))))
        return ("seq", items)

    def loop(self, depth, allow_kill):
        """loop with body and break(s)"""
        r = self.rng
        k = r.choice([1, 2, 2, 3])
        body = []
        nbreaks = 0
        for i in range(k):
            if depth < 2 and r.random() < 0.15:
                body.append(self.loop(depth + 1, allow_kill))
            elif r.random() < 0.12:
                a = self.ev()
                body.append(("and", [a, a if r.random() < DUP else self.ev()]))
            else:
                body.append(self.ev())
            # break decision after this element (not after last usually)
            if (i < k - 1 or r.random() < 0.25) and r.random() < (
                0.75 if nbreaks == 0 else 0.25
            ):
                nbreaks += 1
                if allow_kill and r.random() < 0.2:
                    alt = ("kill", self.brk_path(depth))
                else:
                    alt = ("brk", self.brk_path(depth))
                body.append(("xor", [("skip",), alt]))
        return ("loop", ("seq", body))

    def flow(self, depth, allow_kill):
        r = self.rng
        items = []
        if r.random() < 0.6:
            items.append(self.ev())
        main = self.loop(depth, allow_kill)
        if r.random() < SIDE:
            # parallel AND branch next to the loop
            side = ("seq", [self.ev()] + ([self.ev()] if r.random() < .5
                                          else []))
            main = ("and", [main, side])
        items.append(main)
        x = r.random()
        if x < 0.25:
            items.append(self.loop(depth, allow_kill))  # second loop
            if r.random() < 0.7:
                items.append(self.ev())
        elif x < 0.9:
            items.append(self.ev())
            if r.random() < 0.4:
                if r.random() < 0.5:
                    items.append(self.loop(depth, allow_kill))
                else:
                    a = self.ev()
                    items.append(
                        ("and", [a, a if r.random() < DUP else self.ev()]))
                    items.append(self.ev())
            elif r.random() < 0.5:
                items.append(self.ev())
        else:
            pass  # nothing after the loop
        node = ("seq", items)
        if depth == 0 and r.random() < 0.25:
            node = ("loop", ("seq", [node] + (
                [self.ev()] if r.random() < 0.5 else [])))
        if depth == 0 and r.random() < 0.2:
            # alternative route from the root sharing a type
            alt = ("seq", [self.ev(), ("ev", r.choice(self.types))])
            node = ("xor", [node, alt])
        return node


class Job:
    def __init__(self, jid):
        self.jid = jid
        self.evs = []

    def add(self, typ, prevs):
        i = len(self.evs)
        eid = f"{self.jid}-{i}"
        self.evs.append(dict(
            jobId=self.jid, jobName="J", eventId=eid, eventType=typ,
            timestamp=f"2024-01-01T00:{i // 60:02d}:{i % 60:02d}.000000Z",
            applicationName="app", previousEventIds=list(prevs)))
        return eid


def execute(node, prevs, job, rng):
    kind = node[0]
    if kind == "ev":
        return [job.add(node[1], prevs)]
    if kind == "skip":
        return prevs
    if kind == "seq":
        for c in node[1]:
            prevs = execute(c, prevs, job, rng)
        return prevs
    if kind == "xor":
        return execute(rng.choice(node[1]), prevs, job, rng)
    if kind == "and":
        out = []
        for c in node[1]:
            for p in execute(c, prevs, job, rng):
                if p not in out:
                    out.append(p)
        return out
    if kind == "loop":
        n = rng.choice([1, 2, 2, 3])
        try:
            for _ in range(n):
                prevs = execute(node[1], prevs, job, rng)
        except Brk as b:
            prevs = b.prevs
        return prevs
    if kind == "brk":
        raise Brk(execute(node[1], prevs, job, rng))
    if kind == "kill":
        execute(node[1], prevs, job, rng)
        raise Kill()
    raise ValueError(kind)


def has_bad_break(node, in_and=False):
    """break/kill below an AND that sits between it and its loop"""
    kind = node[0]
    if kind in ("ev", "skip"):
        return False
    if kind in ("brk", "kill"):
        return in_and or has_bad_break(node[1], in_and)
    if kind == "loop":
        return has_bad_break(node[1], False) if not in_and else \
            _has_kill(node[1]) or has_bad_break(node[1], False)
    if kind == "and":
        return any(has_bad_break(c, True) for c in node[1])
    return any(has_bad_break(c, in_and) for c in node[1])


def _has_kill(node):
    kind = node[0]
    if kind in ("ev", "skip"):
        return False
    if kind == "kill":
        return True
    if kind in ("brk", "loop"):
        return _has_kill(node[1])
    return any(_has_kill(c) for c in node[1])


def make_case(seed):
    rng = random.Random(seed)
    for _ in range(50):
        g = Gen(rng)
        proc = g.flow(0, allow_kill=True)
        if not has_bad_break(proc):
            break
    jobs = []
    seen = set()
    for k in range(rng.choice([8, 12, 16])):
        job = Job(f"j{k}")
        try:
            execute(proc, [], job, rng)
        except Kill:
            pass
        except Brk:
            continue
        sig = tuple((e["eventType"], tuple(e["previousEventIds"]))
                    for e in job.evs)
        sig = re.sub(r"j\d+-", "", repr(sig))
        if sig in seen or not job.evs:
            continue
        seen.add(sig)
        jobs.append(job.evs)
    return proc, jobs, g.types


def wellformed(puml, types):
    """return list of problems"""
    probs = []
    lines = [ln.strip() for ln in puml.splitlines()]
    stack = []
    seen_types = set()
    for idx, ln in enumerate(lines):
        nxt = lines[idx + 1] if idx + 1 < len(lines) else ""
        if ln == "repeat":
            stack.append("repeat")
        elif ln == "repeat while":
            if not stack or stack.pop() != "repeat":
                probs.append(f"unbalanced repeat while @{idx}")
        elif ln.startswith("switch"):
            stack.append("switch")
        elif ln.startswith("case"):
            if not stack or stack[-1] != "switch":
                probs.append(f"case outside switch @{idx}")
        elif ln == "endswitch":
            if not stack or stack.pop() != "switch":
                probs.append(f"unbalanced endswitch @{idx}")
        elif ln == "fork":
            stack.append("fork")
        elif ln == "fork again":
            if not stack or stack[-1] != "fork":
                probs.append(f"fork again outside fork @{idx}")
        elif ln == "end fork":
            if not stack or stack.pop() != "fork":
                probs.append(f"unbalanced end fork @{idx}")
        elif ln == "split":
            stack.append("split")
        elif ln == "split again":
            if not stack or stack[-1] != "split":
                probs.append(f"split again outside split @{idx}")
        elif ln == "end split":
            if not stack or stack.pop() != "split":
                probs.append(f"unbalanced end split @{idx}")
        elif ln in ("break", "detach"):
            if ln == "break" and "repeat" not in stack:
                probs.append(f"break outside repeat @{idx}")
            ok_next = nxt.startswith("case") or nxt in (
                "endswitch", "fork again", "end fork", "split again",
                "end split", "repeat while", "end group", "break", "detach")
            if not ok_next:
                probs.append(f"{ln} not at end of branch @{idx} next={nxt}")
        elif ln.startswith(":") and ln.endswith(";"):
            seen_types.add(ln[1:-1].split(",")[0])
    if [s for s in stack]:
        probs.append(f"unclosed {stack}")
    missing = set(types) - seen_types
    if missing:
        probs.append(f"missing types {sorted(missing)}")
    return probs


def main():
    a, b = int(sys.argv[1]), int(sys.argv[2])
    out = open(sys.argv[3], "a") if len(sys.argv) > 3 else sys.stdout
    for seed in range(a, b):
        proc, jobs, types = make_case(seed)
        used = sorted({e["eventType"] for j in jobs for e in j})
        res = {}
        for fix in (False, True):
            h._cnt = None
            res[fix] = run_stream(jobs, fix)
        r0, r1 = res[False], res[True]
        rec = dict(seed=seed, njobs=len(jobs), stale=len(r0[2]),
                   stale_fix=len(r1[2]), st0=r0[0], st1=r1[0],
                   differ=(r0[0], norm(r0[1])) != (r1[0], norm(r1[1])))
        if r0[0] == "ok":
            rec["wf0"] = wellformed(r0[1], used)
        if r1[0] == "ok":
            rec["wf1"] = wellformed(r1[1], used)
        if r0[0] != "ok":
            rec["err0"] = r0[1][:200]
        if r1[0] != "ok":
            rec["err1"] = r1[1][:200]
        out.write(json.dumps(rec) + "\n")
        out.flush()


def norm(txt):
    return re.sub(r"[0-9a-f]{8}-[0-9a-f]{4}-[0-9a-f]{4}-[0-9a-f]{4}-[0-9a-f]{12}",
                  "UUID", txt)


def run_stream(jobs, fix, timeout=30):
    import itertools
    import signal
    h._cnt = itertools.count()
    h.VIOLATIONS.clear()
    h.set_fix(fix)
    signal.signal(signal.SIGALRM, h._alarm)
    signal.alarm(timeout)
    try:
        out = h.pv_to_puml_string([list(j) for j in jobs])
        return ("ok", out, list(h.VIOLATIONS))
    except h.Timeout:
        return ("timeout", "", list(h.VIOLATIONS))
    except BaseException as e:  # noqa
        import traceback
        tb = traceback.extract_tb(e.__traceback__)[-1]
        return ("exc", f"{type(e).__name__}: {e} @ "
                f"{tb.filename.split('/')[-1]}:{tb.lineno} {tb.name}",
                list(h.VIOLATIONS))
    finally:
        signal.alarm(0)


if __name__ == "__main__":
    main()
