"""Table-driven effect obligations (effspec.py) for the graph walk that turns
the learned model into the block structure (C01 anchors "merge-point
validation against predecessor sets", "graph walk building the block
structure"; C05 through the same code).  Nothing here is executed by the
pinned suite."""
from __future__ import annotations

L = "P:logic_tree"
D = "P:direction"
M = "P:event_node_map"
LEAF = ("cmp", f"{L}.label", "Is", "None", "0")
INNER = ("cmp", f"{L}.label", "Is", "None", "1")
STUB = f"Node(str(uuid4()),event_type={L}.label,is_stub=True)"
# the flag of a stub is never read (stubs are not nodes of the graph)
STUBS = ((STUB,), (STUB.replace("is_stub=True", "is_stub=False"),),
         (STUB.replace(",is_stub=True", ""),))
NEWOP = f"Node(operator=operator_name_map[{L}.operator.name])"
SEQ = ("cmp", "Operator.SEQUENCE", "Eq", f"{L}.operator", "1")
NOSEQ = ("cmp", "Operator.SEQUENCE", "Eq", f"{L}.operator", "0")
BRANCH = ("cmp", "Logic_operator.BRANCH", "Eq", f"{L}.operator", "1")
OUTG = ("cmp", "'outgoing'", "Eq", D, "1")
REC = (f"each({L}.children)", M, D, "P:root_node")
NEEDS_STUB = [LEAF, ("cmp", f"{L}.label", "In", M, "0"),
              ("cmp", f"{L}.label", "Eq", "P:self.event_type", "0")]

PT = "[each(zip(P:self.paths,P:self.merge_nodes))[0].event_type for.. if " \
     "(P:potential_merge_node Eq each(zip(P:self.paths,P:self.merge_nodes))" \
     "[1])]"
ANDOR = ("cmp", "P:self.logic_node.operator", "In", "['AND','OR']", "1")
XOR = ("cmp", "P:self.logic_node.operator", "In", "['AND','OR']", "0")
CONTAINS = "phi(False|has_event_set_as_subset(P:potential_merge_node." \
           f"eventsets_incoming,[each({PT}) for.. if (each({PT}) IsNot " \
           "None)]))"
HAS = ("truth", CONTAINS, "1")
HASNOT = ("truth", CONTAINS, "0")

EV_NODE = "Node(P:event.uid,event_type=P:event.event_type)"
EV_SUB = "SubGraphNode(P:event.uid,P:event.event_type,P:event.start_uid," \
         "P:event.end_uid,P:event.break_uids)"
EV_ANY = f"phi({EV_NODE}|{EV_SUB})"
IS_LOOP = ("truth", "isinstance(P:event,LoopEvent)", "1")

_UNDECIDED = ("any", (("truth", "P:self.loop_kill_paths[USub(1)]", "1"),
                      ("truth", "P:self.will_merge", "0")), "1")
_HAS_PATH = ("cmp", "P:self.current_path", "Is", "None", "0")
_MKEV = "P:puml_graph.create_event_node(P:event_node.event_type," \
        "P:event_node.get_puml_event_types(),parent_graph_node=" \
        "P:event_node.uid)"
_LNODE = "phi(P:previous_node_class|P:previous_node_class.outgoing_logic[0])"
_PAIR = f"P:puml_graph.create_operator_node_pair({_LNODE}.get_operator_type())"
_ROT = "P:logic_list[USub(1)].rotate_path(P:previous_node_class," \
       "P:previous_puml_node)"
_LEAVES = "chain(*[get_node_as_list(each(P:paths_to_check)) for..])"
_NO_LONELY = ("cmp", "P:logic_block_holder.lonely_merge_index", "Is", "None",
              "1")
_LB_UNDECIDED = ("any", (
    ("truth", "P:logic_block_holder.loop_kill_paths[USub(1)]", "1"),
    ("truth", "P:logic_block_holder.will_merge", "0")), "1")

_NEXTP = "P:logic_list[USub(1)].set_path_node()"
_NONE_LEFT = ("cmp", _NEXTP, "Is", "None", "1")
_SOME_LEFT = ("cmp", _NEXTP, "Is", "None", "0")
_NEXT_IS_OP = ("cmp", f"{_NEXTP}.operator", "Is", "None", "0")
_NEXT_IS_EV = ("cmp", f"{_NEXTP}.operator", "Is", "None", "1")
_POPP = "P:logic_list[USub(1)].set_path_node(True)"
_POP_NONE = ("cmp", _POPP, "Is", "None", "1")
_POP_SOME = ("cmp", _POPP, "Is", "None", "0")
_FRESH = ("cmp", "P:logic_list[USub(1)].current_path_puml_node", "Eq",
          "P:logic_list[USub(1)].start_node", "1")
_WALKED = ("cmp", "P:logic_list[USub(1)].current_path_puml_node", "Eq",
           "P:logic_list[USub(1)].start_node", "0")
_A3 = "P:puml_graph,P:logic_list,P:previous_node_class"
TABLE: dict[str, list[tuple]] = {
    # ---- Event -> Node: identity, type, loop references, merge flag
    "create_node_from_event": [
        ("the node keeps the event's uid and type; a loop node also the "
         "uids of its body's dummy start / end / breaks", "ret", "", "",
         (EV_ANY,), [], [], ""),
        ("a loop event becomes a LOOP node", "call", "update_event_types",
         EV_SUB, ("PUMLEvent.LOOP",), [IS_LOOP], [], ""),
        ("incoming sets are the event's predecessor sets", "store", "",
         f"{EV_ANY}.eventsets_incoming", ("P:event.in_event_sets",), [], [],
         ""),
        ("MERGE exactly when the gate inferred from the predecessor sets is "
         "a BRANCH (repeated predecessor)", "call", "update_event_types",
         EV_ANY, ("PUMLEvent.MERGE",),
         [("truth", f"{EV_ANY}.eventsets_incoming", "1"),
          ("cmp", "Logic_operator.BRANCH", "Eq", "calculate_logic_gates("
           f"{EV_ANY}.eventsets_incoming).operator", "1")], [], ""),
    ],
    # ---- gate tree -> node logic (one arm per kind of tree node, every
    # ---- child visited, leaves attached in the direction asked for)
    "Node._load_logic_into_logic_list": [
        ("a leaf under an operator node enters the operator's logic list, in "
         "the direction asked for", "call", "update_logic_list",
         "P:self", (f"{M}[{L}.label]", D),
         [LEAF, ("cmp", "P:self.operator", "Is", "None", "0")], [], ""),
        ("an event type seen only inside a set (no node of its own) gets a "
         "stub node, registered in the map", "store", "", f"{M}[{L}.label]",
         STUBS, NEEDS_STUB, [], ""),
        ("the stub hangs off the root in the same direction", "call",
         "append", f"getattr(P:root_node,{D})", STUBS, NEEDS_STUB, [], ""),
        ("an operator other than SEQUENCE becomes a nested operator node",
         "call", "update_logic_list", "P:self", (NEWOP, D), [INNER, NOSEQ],
         [], ""),
        ("whose children are loaded beneath it", "call",
         "_load_logic_into_logic_list", NEWOP, REC, [INNER, NOSEQ], [], ""),
        ("an outgoing BRANCH marks the root as a branch event", "call",
         "update_event_types", "P:root_node", ("PUMLEvent.BRANCH",),
         [INNER, BRANCH, OUTG], [], ""),
        ("and its children are loaded in place", "call",
         "_load_logic_into_logic_list", "P:self", REC, [INNER, BRANCH, OUTG],
         [], ""),
    ],
    # ---- selecting / replacing the alternatives of a logic node by position
    "Node.get_outgoing_logic_by_indices": [
        ("the alternatives at the given positions, IN THE ORDER GIVEN (the "
         "caller lays out kept, finished and new alternatives by that order "
         "and computes index maps from it)", "ret", "", "",
         ("[P:self.outgoing_logic[each(P:indices)] for..]",), [], [], ""),
    ],
    "Node.set_outgoing_logic": [
        ("the node's alternatives are replaced by the list given", "store",
         "", "P:self.outgoing_logic", ("P:outgoing_logic",), [], [], ""),
    ],
    # ---- a logic block starts as a faithful, private mirror of its node
    "LogicBlockHolder.__init__": [
        ("paths are a private copy of the node's outgoing logic", "store",
         "", "P:self.paths", ("P:logic_node.outgoing_logic.copy()",), [], [],
         "popping a finished path would otherwise remove the alternative "
         "from the node itself"),
        ("index map = identity over the paths", "store", "",
         "P:self._path_indexes", ("list(range(len(P:self.paths)))",), [], [],
         ""),
        ("no path is finished", "store", "", "P:self._merged_path_indexes",
         ("[]",), [], [], ""),
        ("one (unknown) merge node per path", "store", "",
         "P:self.merge_nodes", ("([None] Mult len(P:self.paths))",), [], [],
         ""),
        ("every path starts at the block's start node", "store", "",
         "P:self.puml_nodes", ("([P:start_node] Mult len(P:self.paths))",),
         [], [], ""),
        ("loop-kill flags are a private copy of the node's", "store", "",
         "P:self.loop_kill_paths", ("P:logic_node.is_loop_kill_path.copy()",),
         [], [], ""),
        ("one impossible-merge flag per path", "store", "",
         "P:self.impossible_and_or_merges",
         ("([False] Mult len(P:self.paths))",), [], [], ""),
        ("the lonely-merge path is addressed by its position among the "
         "paths", "store", "", "P:self.lonely_merge_index",
         ("P:self.paths.index(P:logic_node.lonely_merge)",),
         [("truth", "P:logic_node.lonely_merge", "1")], [], ""),
        ("no merge is pending", "store", "", "P:self.will_merge", ("False",),
         [], [], ""),
        ("start / end / logic node are the ones given", "store", "",
         "P:self.end_node", ("P:end_node",), [], [], ""),
    ],
    # ---- merge validation: XOR merges anywhere; an AND / OR block merges
    # ---- at a node only if one of its predecessor sets contains the event
    # ---- types of ALL arriving paths, with multiplicities
    # ---- a path arrives at a potential merge node
    "LogicBlockHolder.handle_path_merge": [
        ("the stuck counter counts consecutive visits that leave the "
         "current path's merge node unchanged", "store", "Add",
         "P:self.merge_counter", ("1",),
         [_UNDECIDED, _HAS_PATH,
          ("cmp", "P:potential_merge_node", "Eq",
           "P:self.merge_nodes[USub(1)]", "1")], [], ""),
        ("and restarts when the merge node changes", "store", "",
         "P:self.merge_counter", ("0",),
         [_UNDECIDED, _HAS_PATH,
          ("cmp", "P:potential_merge_node", "Eq",
           "P:self.merge_nodes[USub(1)]", "0")], [], ""),
        ("once the block has decided to merge, every further non-kill path "
         "merges without being validated again (with one path fewer the "
         "validation would fail)", "ret", "", "", ("True",),
         [("truth", "P:self.will_merge", "1"),
          ("truth", "P:self.loop_kill_paths[USub(1)]", "0")], [], ""),
        ("the arriving path records the node it waits at", "store", "",
         "P:self.merge_nodes[USub(1)]", ("P:potential_merge_node",),
         [_UNDECIDED, _HAS_PATH], [], ""),
        ("the block decides to merge exactly when no kill path is left, all "
         "paths wait at one node and the merge is valid there", "store", "",
         "P:self.will_merge",
         ("P:self._check_merge_is_correct(P:potential_merge_node)",),
         [_UNDECIDED, _HAS_PATH,
          ("truth", "P:self.loop_kill_paths[USub(1)]", "0"),
          ("truth", "any(P:self.loop_kill_paths)", "0"),
          ("cmp", "1", "Eq", "len(set(P:self.merge_nodes))", "1")], [], ""),
        ("and answers with that decision", "ret", "", "",
         ("P:self.will_merge",),
         [_UNDECIDED, _HAS_PATH,
          ("truth", "P:self.loop_kill_paths[USub(1)]", "0"),
          ("truth", "any(P:self.loop_kill_paths)", "0"),
          ("cmp", "1", "Eq", "len(set(P:self.merge_nodes))", "1")], [], ""),
        ("a kill path never merges the block", "ret", "", "", ("False",),
         [_UNDECIDED, _HAS_PATH,
          ("truth", "P:self.loop_kill_paths[USub(1)]", "1")], [], ""),
        ("nor does any path while a kill path is still open", "ret", "", "",
         ("False",),
         [_UNDECIDED, _HAS_PATH,
          ("truth", "P:self.loop_kill_paths[USub(1)]", "0"),
          ("truth", "any(P:self.loop_kill_paths)", "1")], [], ""),
    ],
    # ---- the two elementary steps of the walk
    "update_puml_graph_with_event_node": [
        ("an event node of the model becomes one diagram node with its own "
         "type, its flags, and a reference back to the model node", "ret",
         "", "", (f"({_MKEV},P:event_node)",),
         [("cmp", "P:event_node.event_type", "Is", "None", "0")], [], ""),
        ("connected from the node the walk came from", "call",
         "add_puml_edge", "P:puml_graph", ("P:previous_puml_node", _MKEV),
         [("cmp", "P:event_node.event_type", "Is", "None", "0")], [], ""),
    ],
    "handle_logic_node_cases": [
        ("an EVENT node opens the block of its (single) gate, an operator "
         "node opens its own block", "bind", "LogicBlockHolder#2", "",
         ("P:previous_node_class.outgoing_logic[0]",),
         [("cmp", "P:previous_node_class.operator", "Is", "None", "1")], [],
         ""),
        ("... (operator node)", "bind", "LogicBlockHolder#2", "",
         ("P:previous_node_class",),
         [("cmp", "P:previous_node_class.operator", "Is", "None", "0")], [],
         ""),
        ("a logic node opens a block: an operator pair of the node's own "
         "operator type, remembered with the logic node on the block stack",
         "call", "append", "P:logic_list",
         (f"LogicBlockHolder({_PAIR}[0],{_PAIR}[1],{_LNODE})",), [], [], ""),
        ("the block's start is connected from the node the walk came from",
         "call", "add_puml_edge", "P:puml_graph",
         ("P:previous_puml_node", f"{_PAIR}[0]"), [], [], ""),
        ("and the walk continues with the block's first path", "ret", "", "",
         ("handle_logic_list_next_path(P:puml_graph,P:logic_list,"
          "P:previous_node_class)",), [], [], ""),
    ],
    # ---- "next path of the open block" and "a path has reached the merge
    # point": what the walk continues with (bind = which value the returned
    # pair takes under which condition)
    "handle_logic_list_next_path": [
        ("the block is asked for its next path exactly once", "call",
         "set_path_node", "P:logic_list[USub(1)]", (), [], [], ""),
        ("no path left: the block is closed and the walk continues from its "
         "END operator", "bind", "ret[0]", "",
         ("P:logic_list.pop().end_node",), [_NONE_LEFT], [], ""),
        ("the next path begins with an operator: the walk continues AT that "
         "operator node, drawn from the block's start", "bind", "ret[0]", "",
         ("P:logic_list[USub(1)].start_node",), [_SOME_LEFT, _NEXT_IS_OP],
         [], ""),
        ("... (model node)", "bind", "ret[1]", "", (_NEXTP,),
         [_SOME_LEFT, _NEXT_IS_OP], [], ""),
        ("the next path begins with an event: it is drawn behind the block's "
         "START operator and the walk continues from it", "call",
         "update_puml_graph_with_event_node", "",
         ("P:puml_graph", _NEXTP, "P:logic_list[USub(1)].start_node"),
         [_SOME_LEFT, _NEXT_IS_EV], [], ""),
        ("... (diagram node)", "bind", "ret[0]", "",
         (f"update_puml_graph_with_event_node(P:puml_graph,{_NEXTP},"
          "P:logic_list[USub(1)].start_node)[0]",),
         [_SOME_LEFT, _NEXT_IS_EV], [], ""),
        ("... (model node of the event)", "bind", "ret[1]", "",
         (f"update_puml_graph_with_event_node(P:puml_graph,{_NEXTP},"
          "P:logic_list[USub(1)].start_node)[1]",),
         [_SOME_LEFT, _NEXT_IS_EV], [], ""),
    ],
    "handle_reach_logic_merge_point": [
        ("the finished path is joined to the block's END operator", "call",
         "add_puml_edge", "P:puml_graph",
         ("P:previous_puml_node", "P:logic_list[USub(1)].end_node"), [], [],
         ""),
        ("the finished path is popped", "call", "set_path_node",
         "P:logic_list[USub(1)]", ("True",), [], [], ""),
        ("no path left: the block is closed, the walk continues from its END "
         "operator", "bind", "ret[0]", "", ("P:logic_list.pop().end_node",),
         [_POP_NONE], [], ""),
        ("the path that is current now has not been walked yet (it still "
         "sits on the START operator): it is started", "bind", "ret[0]", "",
         (f"handle_logic_list_next_path({_A3})[0]",), [_POP_SOME, _FRESH],
         [], ""),
        ("... (model node)", "bind", "ret[1]", "",
         (f"handle_logic_list_next_path({_A3})[1]",), [_POP_SOME, _FRESH],
         [], ""),
        ("a path that was already walked is resumed where it stopped",
         "bind", "ret[0]", "",
         ("P:logic_list[USub(1)].current_path_puml_node",),
         [_POP_SOME, _WALKED], [], ""),
        ("... (its model node)", "bind", "ret[1]", "", (_POPP,),
         [_POP_SOME, _WALKED], [], ""),
    ],
    "handle_rotate_path": [
        ("after a rotation a path is (re)started only when it has not been "
         "walked yet: its diagram node is still the block's START node "
         "itself (a walked path can sit on the END operator of a nested "
         "block - also an operator node)", "call",
         "handle_logic_list_next_path", "",
         ("P:puml_graph", "P:logic_list", f"{_ROT}[1]"),
         [("cmp", f"{_ROT}[0]", "Eq", "P:logic_list[USub(1)].start_node",
           "1")], [], ""),
    ],
    # ---- is the node the walk arrived at a merge node of the open block?
    "check_is_merge_node_for_logic_block": [
        ("on the lonely-merge path (the current path is the only one that "
         "continues) every node except the lonely merge itself closes the "
         "path", "ret", "", "", ("True",),
         [("cmp", "P:logic_block_holder.lonely_merge_index", "Is", "None",
           "0"),
          ("cmp", "(len(P:logic_block_holder.paths) Sub 1)", "Eq",
           "P:logic_block_holder.lonely_merge_index", "1"),
          ("cmp", "P:logic_block_holder.logic_node.lonely_merge", "Eq",
           "P:node", "0")], [], ""),
        ("a block that has decided to merge merges at once for a non-kill "
         "path", "ret", "", "", ("True",),
         [_NO_LONELY, ("truth", "P:logic_block_holder.will_merge", "1"),
          ("truth", "P:logic_block_holder.loop_kill_paths[USub(1)]", "0")],
         [], ""),
        ("a kill path is compared with the OTHER kill paths only", "ret", "",
         "", ("check_has_valid_merge(P:node,P:logic_block_holder."
              "paths_loop_kill[:USub(1)],P:node_class_graph)",),
         [_NO_LONELY, _LB_UNDECIDED,
          ("truth", "P:logic_block_holder.loop_kill_paths[USub(1)]", "1")],
         [], ""),
        ("a normal path with the OTHER normal paths only", "ret", "", "",
         ("check_has_valid_merge(P:node,P:logic_block_holder."
          "paths_non_loop_kill[:USub(1)],P:node_class_graph)",),
         [_NO_LONELY, _LB_UNDECIDED,
          ("truth", "P:logic_block_holder.loop_kill_paths[USub(1)]", "0")],
         [], ""),
    ],
    "check_has_valid_merge": [
        ("the node is a merge node when SOME leaf of the sibling paths (every "
         "leaf is examined until one is found) reaches it through a "
         "predecessor without outgoing logic", "ret", "", "", ("True",),
         [("cmp", "P:node", "Eq", f"first({_LEAVES})", "0"),
          ("truth", f"has_path(P:node_class_graph,first({_LEAVES}),P:node)",
           "1"),
          ("truth", f"has_path(P:node_class_graph,first({_LEAVES}),first("
           "P:node_class_graph.in_edges(P:node))[0])", "1"),
          ("truth", "first(P:node_class_graph.in_edges(P:node))[0]."
           "outgoing_logic", "0")], [], ""),
        ("and only then", "ret", "", "", ("False",), [], [], ""),
    ],
    "LogicBlockHolder._check_merge_is_correct": [
        ("the predecessor sets of the merge node are consulted only when "
         "every arriving path ends in an event (a path that arrives on an "
         "operator has no type to look for)", "bind",
         "has_event_set_as_subset#0", "",
         ("P:potential_merge_node.eventsets_incoming",),
         [ANDOR, ("cmp", "None", "In", PT, "0")], [], ""),
        ("XOR blocks merge wherever their paths meet", "ret", "", "",
         ("True",), [XOR], [], ""),
        ("AND / OR: accepted when a predecessor set of the merge node "
         "contains the types of all arriving paths (multiset)", "ret", "",
         "", ("True",), [ANDOR, HAS], [], ""),
        ("else accepted only for a MERGE-counted node whose reduced sets "
         "contain the set of arriving types", "ret", "", "", ("True",),
         [ANDOR, HASNOT,
          ("cmp", "PUMLEvent.MERGE", "In",
           "P:potential_merge_node.get_puml_event_types()", "1"),
          ("cmp", f"frozenset({PT})", "In", "get_reduced_event_set("
           "P:potential_merge_node.eventsets_incoming)", "1")], [], ""),
        ("else rejected", "ret", "", "", ("False",), [ANDOR, HASNOT], [],
         ""),
        ("and every path waiting at that node is flagged as an impossible "
         "merge", "store", "",
         "P:self.impossible_and_or_merges[each(enumerate(P:self.merge_nodes"
         "))[0]]", ("True",),
         [ANDOR, HASNOT, ("cmp", "P:potential_merge_node", "Eq",
                          "each(enumerate(P:self.merge_nodes))[1]", "1")],
         [], ""),
    ],
}


# ---- the multiset value object and the evidence accumulators of an event
K, C = "each(P:self.items())[0]", "each(P:self.items())[1]"
NONEMPTY = ("cmp", "0", "Eq", "len(P:events)", "0")
MODEL_TABLE: dict[str, list[tuple]] = {
    "EventSet.__init__": [
        ("every occurrence in the list counts (a multiset, not a set)",
         "store", "", "P:self[each(P:events)]",
         ("(P:self.get(each(P:events),0) Add 1)",), [], [], ""),
    ],
    "EventSet.to_list": [
        ("each type is listed as often as it was counted: EventSet(l)."
         "to_list() is l up to order", "ret", "", "",
         (f"[{K} for.. times(range({C}))]",), [], [], ""),
    ],
    "EventSet.to_frozenset": [
        ("the types, without counts", "ret", "", "",
         ("frozenset(P:self.keys())",), [], [], ""),
    ],
    "EventSet.get_repeated_events": [
        ("the types that occur more than once, with their counts", "ret", "",
         "", (f"{{{K}:{C} for.. if (1 Lt {C})}}",), [], [], ""),
    ],
    "Event.update_event_sets": [
        ("a non-empty observation joins the successor sets", "call", "add",
         "P:self.event_sets", ("EventSet(P:events)",), [NONEMPTY], [], ""),
    ],
    "Event.update_in_event_sets": [
        ("a non-empty observation joins the predecessor sets", "call", "add",
         "P:self.in_event_sets", ("EventSet(P:events)",), [NONEMPTY], [],
         ""),
    ],
    "Event.remove_event_type_from_event_sets": [
        ("every successor set that names the type is dropped, the others "
         "are kept", "store", "", "P:self.event_sets",
         ("{each(P:self.event_sets) for.. if (P:event_type NotIn "
          "each(P:self.event_sets))}",), [], [], ""),
    ],
    "Event.remove_event_type_from_in_event_sets": [
        ("every predecessor set that names the type is dropped, the others "
         "are kept", "store", "", "P:self.in_event_sets",
         ("{each(P:self.in_event_sets) for.. if (P:event_type NotIn "
          "each(P:self.in_event_sets))}",), [], [], ""),
    ],
}


# ---- PlantUML graph: node creation, placeholder sinks, the event line
_TYPES = "phi((PUMLEvent.NORMAL)|(phi((PUMLEvent.NORMAL)|P:event_types))|" \
         "P:event_types)"
_NEWEV = "PUMLEventNode(P:event_name,P:self.get_occurrence_count(" \
         f"P:event_name),{_TYPES},P:sub_graph,phi(None|P:self.branch_counts)," \
         "P:parent_graph_node)"
_ZIP = "each(zip(['is_branch','is_break','is_merge'],[PUMLEvent.BRANCH," \
       "PUMLEvent.BREAK,PUMLEvent.MERGE]))"
_IND = "(' ' Mult P:indent)"
_BODY = "P:self.sub_graph.write_uml_blocks("
_LOOPED = f"(([({_IND} Add 'repeat')] Add {_BODY}(P:indent Add P:tab_size)," \
          f"tab_size=P:tab_size)) Add [({_IND} Add 'repeat while')])"
_PLAIN = f"{_BODY}P:indent,tab_size=P:tab_size)"
_SEPN = ("OPERATOR_PATH_FUNCTION_MAP[P:node.operator_type](each(enumerate("
         "reversed(P:dfs_successor_dict[P:node])))[0])")
_OPN = ("PUMLOperatorNode(each(P:operator.value[:2]),P:self.get_occurrence_count("
        "each(P:operator.value[:2]).value))")
PUML_TABLE: dict[str, list[tuple]] = {
    "PUMLGraph.create_event_node": [
        ("the node carries name, a fresh occurrence number, its types, its "
         "body (if a loop) and the model node it stands for", "ret", "", "",
         (_NEWEV,), [], [], ""),
        ("it is added to the graph", "call", "add_puml_node", "P:self",
         (_NEWEV,), [], [], ""),
        ("no types given means NORMAL", "bind", "PUMLEventNode#2", "",
         ("(PUMLEvent.NORMAL)",), [("truth", "P:event_types", "0")], [], ""),
        ("a single type given bare becomes a one-element tuple (types are "
         "tested with `in`)", "bind", "PUMLEventNode#2", "",
         ("(phi((PUMLEvent.NORMAL)|P:event_types))",),
         [("truth", "isinstance(phi((PUMLEvent.NORMAL)|P:event_types),"
           "PUMLEvent)", "1")], [], ""),
        ("the occurrence number is used up", "call",
         "increment_occurrence_count", "P:self", ("P:event_name",), [], [],
         ""),
        ("a branch event uses up a branch number", "store", "Add",
         "P:self.branch_counts", ("1",),
         [("cmp", "PUMLEvent.BRANCH", "In", _TYPES, "1")], [], ""),
        ("it is registered under the model node it stands for (at least "
         "when it is created without a body: bodies are attached later "
         "through this registry)", "call",
         "add_parent_graph_node_to_node_ref", "P:self",
         ("P:parent_graph_node", _NEWEV),
         [("cmp", "P:parent_graph_node", "Is", "None", "0")],
         [("cmp", "P:sub_graph", "Is", "None", "1")], ""),
    ],
    "PUMLEventNode.__init__": [
        ("the body of a loop node is kept", "store", "", "P:self.sub_graph",
         ("P:sub_graph",), [], [], ""),
        ("types default to NORMAL only when none are given", "store", "",
         "P:self.event_types", ("(P:event_types if (P:event_types IsNot "
                                "None) else (PUMLEvent.NORMAL))",), [], [],
         ""),
        ("identity = (name, occurrence); branch / break / merge are flagged "
         "from the types", "call", "__init__", "super()",
         ("node_id=(P:event_name,P:occurrence)", "node_type=P:event_name",
          f"extra_info={{{_ZIP}[0]:True for.. if ({_ZIP}[1] In "
          "P:self.event_types)}"), [], [], ""),
    ],
    "PUMLEventNode._write_event_blocks": [
        ("one activity line with the event's own name", "call", "append",
         "[]", (f"f'{{{_IND}}}:{{P:self.node_type}}{{phi(''|aug(Add f',BCNT,"
                "user={P:self.node_type},name=BC{P:self.branch_number}'))};'",
                ), [], [], ""),
        ("followed by break exactly for a BREAK node", "call", "append",
         "[]", (f"f'{{{_IND}}}break'",),
         [("cmp", "PUMLEvent.BREAK", "In", "P:self.event_types", "1")], [],
         ""),
    ],
    "PUMLEventNode.write_uml_blocks": [
        ("a node with a body is written as its body (framed by repeat .. "
         "repeat while for a LOOP), any other as its activity line", "ret",
         "", "", (f"(phi({_LOOPED}|P:self._write_event_blocks(P:indent)|"
                  f"{_PLAIN}),(0 Mult P:tab_size))",), [], [], ""),
        ("a body that is a break point is followed by break", "call",
         "append", f"phi({_LOOPED}|{_PLAIN})", (f"f'{{{_IND}}}break'",),
         [("cmp", "P:self.sub_graph", "Is", "None", "0"),
          ("cmp", "PUMLEvent.BREAK", "In", "P:self.event_types", "1")], [],
         ""),
    ],
    "PUMLGraph._order_nodes_from_dfs_successors_dict": [
        ("a node comes before everything reachable from it", "ret", "", "",
         ("[P:node]",), [], [], ""),
        ("each successor's own ordering follows, successors taken in "
         "reverse DFS-dictionary order", "call", "extend", "[P:node]",
         ("PUMLGraph._order_nodes_from_dfs_successors_dict(each(enumerate("
          "reversed(P:dfs_successor_dict[P:node])))[1],P:dfs_successor_dict)",
          ), [("cmp", "P:node", "In", "P:dfs_successor_dict", "1")], [], ""),
    ],
    "PUMLGraph.write_uml_blocks": [
        ("the lines of every node of the linearisation are appended, in "
         "order, each written at the indentation reached so far", "call",
         "extend", "[]",
         ("each(P:self._order_nodes_from_dfs_successors_dict(list("
          "topological_sort(P:self))[0],dfs_successors(P:self,list("
          "topological_sort(P:self))[0]))).write_uml_blocks(state(P:indent),"
          "tab_size=P:tab_size)[0]",),
         [("cmp", "0", "Eq", "len(list(topological_sort(P:self)))", "0")],
         [], ""),
        ("the collected lines are the result", "bind", "ret[0]", "", ("[]",),
         [("cmp", "0", "Eq", "len(list(topological_sort(P:self)))", "0")],
         [], ""),
    ],
    "PUMLGraph.create_operator_node_pair": [
        ("both operator nodes of the pair are handed back", "call", "append",
         "[]", (_OPN,), [], [], ""),
        ("and both are part of the diagram", "call", "add_puml_node",
         "P:self", (_OPN,), [], [], ""),
        ("start first, end second", "ret", "", "", ("([][0],[][1])",), [],
         [], ""),
        ("each creation is counted, so the next operator of that kind gets "
         "a different number", "call", "increment_occurrence_count",
         "P:self", ("each(P:operator.value[:2]).value",), [], [], ""),
    ],
    "PUMLGraph.create_kill_node": [
        ("a kill node is numbered, added to the diagram and handed back",
         "ret", "", "", ("PUMLKillNode(P:self.kill_counts)",), [], [], ""),
        ("... (added)", "call", "add_puml_node", "P:self",
         ("PUMLKillNode(P:self.kill_counts)",), [], [], ""),
        ("... (counted)", "store", "Add", "P:self.kill_counts", ("1",), [],
         [], ""),
    ],
    "PUMLGraph.remove_dummy_start_event_nodes": [
        ("every dummy start node leaves the diagram", "call", "remove_node",
         "P:self", ("each(P:self.nodes)",),
         [("truth", "isinstance(each(P:self.nodes),PUMLEventNode)", "1"),
          ("cmp", "DUMMY_START_EVENT", "Eq", "each(P:self.nodes).node_type",
           "1")], [], ""),
    ],
    "PUMLGraph.remove_dummy_end_event_nodes": [
        ("every dummy end node leaves the diagram", "call", "remove_node",
         "P:self", ("each(P:self.nodes)",),
         [("truth", "isinstance(each(P:self.nodes),PUMLEventNode)", "1"),
          ("cmp", "DUMMY_END_EVENT", "Eq", "each(P:self.nodes).node_type",
           "1")], [], ""),
    ],
    "PUMLGraph.add_sub_graph_to_puml_nodes_with_ref": [
        ("every diagram node that stands for the loop node gets the body",
         "store", "", "each(P:self.parent_graph_nodes_to_node_ref[P:ref])."
         "sub_graph", ("P:sub_graph",),
         [("cmp", "P:ref", "In", "P:self.parent_graph_nodes_to_node_ref",
           "1")], [], ""),
    ],
}


# ---- loop bodies: kill paths and break points
_SG = "P:sub_graph_node.sub_graph"
_ENDN = ("{[each(P:sub_graph_node.sub_graph.nodes) for.. if (P:sub_graph_node."
         "end_uid Eq each(P:sub_graph_node.sub_graph.nodes).uid)].pop()}")
_STARTN = ("{[each(P:sub_graph_node.sub_graph.nodes) for.. if (P:sub_graph_node."
           "start_uid Eq each(P:sub_graph_node.sub_graph.nodes).uid)].pop()}")
_KE = ("get_all_kill_edges_from_loop_nodes_and_end_points(P:sub_graph_node."
       f"sub_graph,P:sub_graph_node.sub_graph.nodes,{_ENDN},{_STARTN})")
KILL_TABLE: dict[str, list[tuple]] = {
    # which model nodes a path of a gate stands for (compared with the
    # targets of the kill edges)
    "get_node_as_list": [
        ("an OPERATOR node stands for the leaves of its gate", "ret", "", "",
         ("P:node.traverse_logic('outgoing')",),
         [("cmp", "P:node.operator", "Is", "None", "0")], [], ""),
        ("an EVENT node stands for itself - also when it owns a gate of its "
         "own (the path begins with that event, not with what follows it)",
         "ret", "", "", ("[P:node]",),
         [("cmp", "P:node.operator", "Is", "None", "1")], [],
         "a kill branch that starts with an event followed by a gate is no "
         "longer recognised; the gate loses its lonely-merge path"),
    ],
    "Node.traverse_logic": [
        ("event nodes of the gate are its leaves", "call", "append", "[]",
         ("each(getattr(P:self,(P:direction Add '_logic')))",),
         [("cmp", "each(getattr(P:self,(P:direction Add '_logic')))."
           "operator", "Is", "None", "1")], [], ""),
        ("nested operators contribute their own leaves", "call", "extend",
         "[]", ("each(getattr(P:self,(P:direction Add '_logic')))."
                "traverse_logic(P:direction)",),
         [("cmp", "each(getattr(P:self,(P:direction Add '_logic')))."
           "operator", "Is", "None", "0")], [], ""),
        ("the collected leaves are the result", "ret", "", "", ("[]",), [],
         [], ""),
    ],
    "get_node_to_node_map_from_edges": [
        ("every kill edge is recorded under its source", "call", "add",
         "{}[each(P:edges)[0]]", ("each(P:edges)[1]",), [], [], ""),
    ],
    "add_loop_kill_paths_for_nodes": [
        ("every node of the body that is the source of kill edges marks the "
         "kill paths of its logic from the targets of those edges", "call",
         "update_loop_kill_paths_from_given_leaf_nodes",
         "each(P:node_class_graph.nodes).outgoing_logic[0]",
         ("P:node_to_node_kill_map[each(P:node_class_graph.nodes).uid]",),
         [("cmp", "each(P:node_class_graph.nodes).uid", "In",
           "P:node_to_node_kill_map", "1"),
          ("cmp", "1", "Eq", "len(each(P:node_class_graph.nodes)."
           "outgoing_logic)", "1")], [], ""),
    ],
    "find_and_add_loop_kill_paths_to_sub_graph_node": [
        ("kill edges are searched in the BODY of the loop node, over all its "
         "nodes, between the node with the loop's end uid and the one with "
         "its start uid", "call",
         "get_all_kill_edges_from_loop_nodes_and_end_points", "",
         (_SG, f"{_SG}.nodes", _ENDN, _STARTN), [], [], ""),
        ("every kill edge is recorded as (uid of its source, uid of its "
         "target)", "call", "append", "[]",
         (f"(each({_KE})[0].uid,each({_KE})[1].uid)",),
         [("cmp", f"each({_KE})[0].uid", "Is", "None", "0"),
          ("cmp", f"each({_KE})[1].uid", "Is", "None", "0")], [], ""),
        ("and the kill paths of the body's nodes are marked from them",
         "call", "add_loop_kill_paths_for_nodes", "",
         ("get_node_to_node_map_from_edges([])", _SG), [], [], ""),
    ],
    "get_all_kill_edges_from_loop_nodes_and_end_points": [
        ("an edge that leaves a node with several successors towards events "
         "from which no end point is reachable is a kill edge (not for the "
         "end points themselves)", "yield", "", "",
         ("each(P:graph.out_edges(each(P:loop_nodes)))",),
         [("cmp", "each(P:loop_nodes)", "In", "P:end_points", "0"),
          ("le", "len(P:graph.out_edges(each(P:loop_nodes)))", "1", "0"),
          ("truth", "all((Not(has_path(P:graph,each(P:graph.successors(each("
           "P:loop_nodes))),each(P:end_points))) for..))", "1")], [], ""),
    ],
    "update_sub_graph_node_break_points": [
        ("every node of the body whose uid is a break uid of the loop is "
         "marked BREAK", "call", "update_event_types",
         f"each({_SG}.nodes)", ("PUMLEvent.BREAK",),
         [("cmp", f"each({_SG}.nodes).uid", "In",
           "P:sub_graph_node.break_uids", "1")], [], ""),
    ],
}


# ---- which successors of an event occur together (input of the loop
# ---- classifier: an AND fork with one branch leaving the loop is no break)
OVERLAP_TABLE: dict[str, list[tuple]] = {
    "get_overlapping_event_types": [
        ("the groups are the connected components", "ret", "", "",
         ("{frozenset(each(connected_components(Graph()))) for..}",), [], [],
         ""),
    ],
    "get_overlapping_events_from_event_sets_and_connected_events": [
        ("per group: the connected events whose type is in the group",
         "ret", "", "",
         ("[{each(P:connected_events) for.. if (each(P:connected_events)."
          "event_type In each(get_overlapping_event_types(P:event_sets)))} "
          "for..]",), [], [], ""),
    ],
    "get_overlapping_events_from_event_and_graph": [
        ("from the event's own successor sets and its successors in the "
         "graph", "ret", "", "",
         ("get_overlapping_events_from_event_sets_and_connected_events("
          "P:event.event_sets,{each(P:graph.successors(P:event)) for..})",),
         [], [], ""),
    ],
    "get_event_to_over_lapping_events_map": [
        ("every node of the graph with a non-empty grouping is in the map",
         "store", "", "{}[each(P:graph.nodes)]",
         ("get_overlapping_events_from_event_and_graph(each(P:graph.nodes),"
          "P:graph)",),
         [("truth", "get_overlapping_events_from_event_and_graph(each("
           "P:graph.nodes),P:graph)", "1")], [], ""),
    ],
}


# ---- the main loop of the walk (create_puml_graph_from_node_class_graph);
# ---- loop state is described by its value on loop entry: CUR = the node
# ---- the walk stands on, PREV_P = the diagram node drawn last
_HEAD = "list(topological_sort(P:node_class_graph))[0]"
_FIRST = f"PUMLGraph().create_event_node({_HEAD}.event_type,{_HEAD}." \
         f"get_puml_event_types(),parent_graph_node={_HEAD}.uid)"
MAIN_ABBR = [(f"state({_FIRST})", "PREV_P"), (f"state({_HEAD})", "CUR"),
             (_FIRST, "FIRST_P"), (_HEAD, "HEAD"),
             ("phi(None|CUR.outgoing[0])", "NEXT"), ("PUMLGraph()", "G"),
             ("[][USub(1)]", "LL[-1]")]
_H0 = ("cmp", "HEAD.event_type", "Is", "None", "0")
_EVENT = [("truth", "CUR.outgoing_logic", "0"),
          ("cmp", "CUR.event_type", "Is", "None", "0")]
_LOGIC = ("any", (("cmp", "CUR.event_type", "Is", "None", "1"),
                  ("truth", "CUR.outgoing_logic", "1")), "1")
_GO_ON = ("any", (("cmp", "NEXT", "Is", "None", "0"),
                  ("truth", "[]", "1")), "1")
_IN_BLOCK = ("truth", "[]", "1")
_END = ("cmp", "NEXT", "Is", "None", "1")
_MORE = ("cmp", "NEXT", "Is", "None", "0")
_NOT_BRK = ("cmp", "PUMLEvent.BREAK", "In", "CUR.get_puml_event_types()", "0")
MAIN_TABLE = [
    ("the walk starts at the first node in topological order, drawn as "
     "the first diagram node", "call", "create_event_node", "G",
     ("HEAD.event_type", "HEAD.get_puml_event_types()",
      "parent_graph_node=HEAD.uid"), [_H0], []),
    ("it ends exactly when no block is open and the event has no successor",
     "ret", "", "", ("G",),
     _EVENT + [("truth", "[]", "0"), _END], [_H0]),
    ("a plain successor is drawn behind the current diagram node", "call",
     "update_puml_graph_with_event_node", "",
     ("G", "NEXT", "PREV_P"), _EVENT + [_MORE], [_H0, _GO_ON]),
    ("a logic node (or an event with outgoing logic) opens a block", "call",
     "handle_logic_node_cases", "", ("G", "[]", "PREV_P", "CUR"), [_LOGIC],
     [_H0]),
    ("inside a block a path that ends gets a kill node - unless its last "
     "event is a break point", "call", "create_kill_node", "G", (),
     _EVENT + [_IN_BLOCK, _END, _NOT_BRK], [_H0, _GO_ON]),
    ("connected behind the last diagram node of the path", "call",
     "add_puml_edge", "G", ("PREV_P", "G.create_kill_node()"),
     _EVENT + [_IN_BLOCK, _END, _NOT_BRK], [_H0, _GO_ON]),
    ("and the path is closed at the block's merge point", "call",
     "handle_reach_logic_merge_point", "",
     ("G", "[]", "phi(G.create_kill_node()|PREV_P)", "CUR"),
     _EVENT + [_IN_BLOCK, _END], [_H0, _GO_ON]),
    ("inside a block a successor that is a merge node of the block is "
     "handled as a potential merge point", "call",
     "handle_reach_potential_merge_point", "",
     ("G", "[]", "PREV_P", "CUR", "NEXT"),
     _EVENT + [_IN_BLOCK, _MORE,
               ("truth", "check_is_merge_node_for_logic_block(NEXT,LL[-1],"
                "P:node_class_graph)", "1")], [_H0, _GO_ON]),
    ("on the lonely-merge path of a block a following logic node is a "
     "potential merge point", "call", "handle_reach_potential_merge_point",
     "", ("G", "[]", "PREV_P", "CUR", "CUR.outgoing_logic[0]"),
     [_LOGIC, _IN_BLOCK,
      ("truth", "LL[-1].is_on_lonely_merge_path()", "1")], [_H0]),
]
MAIN_NAMES = {"handle_reach_logic_merge_point",
              "handle_reach_potential_merge_point",
              "update_puml_graph_with_event_node", "handle_logic_node_cases",
              "create_kill_node", "add_puml_edge", "create_event_node"}


# ---- loading a model file: every entry becomes an event with all its sets
_EI = "each(P:eventInputs)"
_NEWEV2 = f"Event({_EI}.eventType)"
_DUP = ("cmp", f"{_EI}.eventType", "In", "{}", "0")


def _sets(field: str) -> str:
    x = f"each(each({_EI}.{field}))"
    return f"[{x}.eventType for.. times(range({x}.count))]"


LOADER_TABLE: dict[str, list[tuple]] = {
    "event_inputs_to_events": [
        ("every entry of the file becomes an event under its own type (the "
         "only entry that is not stored is a duplicate, which raises)",
         "store", "", f"{{}}[{_EI}.eventType]", (_NEWEV2,), [_DUP], [], ""),
        ("the events loaded are the events returned", "ret", "", "", ("{}",),
         [], [], ""),
    ],
}


# ---- a path arrives at a potential merge point of the open block
MP_ABBR = [("P:logic_list[USub(1)]", "LB")]
_NM = ("truth", "LB.handle_path_merge(P:next_node_class)", "0")
_STUCK = ("cmp", "len(LB.merge_nodes)", "Lt", "LB.merge_counter", "1")
_IMP1 = ("truth", "LB.impossible_and_or_merges[USub(1)]", "1")
_IMP0 = ("truth", "LB.impossible_and_or_merges[USub(1)]", "0")
_ANY1 = ("truth", "any(LB.impossible_and_or_merges)", "1")
_ANY0 = ("truth", "any(LB.impossible_and_or_merges)", "0")
_I = "each(range(len(LB.paths)))"
_MC = "upto(Counter(LB.merge_nodes).most_common())"
_ARGS4 = "P:puml_graph,P:logic_list,P:previous_puml_node,P:previous_node_class"
MP_TABLE = [
    ("a block that cannot merge and keeps seeing the same merge nodes is "
     "stuck; its counter restarts", "store", "", "LB.merge_counter", ("0",),
     [_NM, _STUCK], []),
    ("stuck on an impossible AND / OR merge of the CURRENT path: only the "
     "paths that wait at this very node have their flag cleared", "store",
     "", "LB.impossible_and_or_merges[each(enumerate(LB.merge_nodes))[0]]",
     ("False",),
     [_NM, _STUCK, _IMP1, ("cmp", "P:next_node_class", "Eq",
                           "each(enumerate(LB.merge_nodes))[1]", "1")], []),
    ("and only those paths step over the node (each draws its own copy)",
     "store", "", f"LB.puml_nodes[{_I}]",
     (f"update_puml_graph_with_event_node(P:puml_graph,P:next_node_class,"
      f"LB.puml_nodes[{_I}])[0]",),
     [_NM, _STUCK, _IMP1, ("cmp", f"LB.merge_nodes[{_I}]", "Eq",
                           "P:next_node_class", "1")], []),
    ("", "store", "", f"LB.paths[{_I}]", ("P:next_node_class",),
     [_NM, _STUCK, _IMP1, ("cmp", f"LB.merge_nodes[{_I}]", "Eq",
                           "P:next_node_class", "1")], []),
    ("the walk continues on the current path", "ret", "", "",
     ("(LB.current_path_puml_node,LB.current_path)",),
     [_NM, _STUCK, _IMP1, ("cmp", "LB.current_path", "Is", "None", "0")],
     []),
    ("another path's impossible merge: rotate until that path is current",
     "ret", "", "",
     ("LB.rotate_path(P:previous_node_class,P:previous_puml_node)",),
     [_NM, _STUCK, _IMP0, _ANY1], []),
    ("otherwise every node at which two or more paths wait becomes a "
     "partial merge (most common first)", "call", "update", "set()",
     (f"LB.create_logic_merge(P:puml_graph,{_MC}[0])",),
     [_NM, _STUCK, _IMP0, _ANY0, ("cmp", f"{_MC}[1]", "Lt", "2", "0"),
      ("cmp", f"{_MC}[0]", "Is", "None", "0")], []),
    ("what the merged paths had drawn is removed", "call",
     "remove_nodes_from", "P:puml_graph", ("set()",),
     [_NM, _STUCK, _IMP0, _ANY0], []),
    ("and the block starts its next path", "ret", "", "",
     ("handle_logic_list_next_path(P:puml_graph,P:logic_list,LB.logic_node)",
      ), [_NM, _STUCK, _IMP0, _ANY0], []),
    ("a valid merge closes the path at the merge point; anything else "
     "rotates to the next path", "ret", "", "",
     (f"(phi(handle_reach_logic_merge_point({_ARGS4})[0]|handle_rotate_path("
      f"{_ARGS4})[0]),phi(handle_reach_logic_merge_point({_ARGS4})[1]|"
      f"handle_rotate_path({_ARGS4})[1]))",), [], []),
]


# ---- Node: direction-indexed containers and the lonely merge
_DIR_OK = ("cmp", "P:direction", "In", "['incoming','outgoing']", "1")
_IN = ("cmp", "'incoming'", "Eq", "P:direction", "1")
_OUT = ("cmp", "'incoming'", "Eq", "P:direction", "0")
_MANY = ("le", "len(P:self.is_loop_kill_path)", "1", "0")
_PATHS = "each(enumerate(P:self.outgoing_logic))"
_ALL_KILL = ("truth", f"all(((each(get_node_as_list({_PATHS}[1])).uid In "
             "P:leaf_nodes) for..))", "1")
_NOT_ALL_KILL = ("truth", _ALL_KILL[1], "0")
_IS_OP = ("cmp", "P:self.operator", "Is", "None", "0")
NODE_TABLE: dict[str, list[tuple]] = {
    "Node.load_logic_into_list": [
        ("the tree is loaded for every node that is not a stub, rooted at "
         "the node itself", "call", "_load_logic_into_logic_list", "P:self",
         (("P:logic_tree", "phi(P:self.event_node_map_incoming|P:self."
           "event_node_map_outgoing)", "P:direction", "P:self"),
          ("P:logic_tree", "P:self.event_node_map_outgoing", "P:direction",
           "P:self"),
          ("P:logic_tree", "P:self.event_node_map_outgoing", "'outgoing'",
           "P:self")),
         [_DIR_OK, ("truth", "P:self.is_stub", "0")], [], ""),
    ],
    "Node.update_logic_list": [
        ("outgoing logic to the outgoing list", "call", "append",
         "P:self.outgoing_logic", ("P:node",), [_DIR_OK, _OUT], [], ""),
        ("every outgoing path gets its kill flag (not a kill path) in the "
         "same step", "call", "append", "P:self.is_loop_kill_path",
         ("False",), [_DIR_OK, _OUT], [], ""),
    ],
    "Node.update_node_list_with_node": [
        ("an outgoing neighbour as outgoing", "call", "append",
         "P:self.outgoing", ("P:node",), [_DIR_OK, _OUT], [], ""),
    ],
    "Node.update_node_list_with_nodes": [
        ("every neighbour is recorded, in the direction asked for", "call",
         "update_node_list_with_node", "P:self",
         ("each(P:nodes)", "P:direction"), [], [], ""),
    ],
    "Node.event_node_map_outgoing": [
        ("outgoing neighbours by event type", "store", "",
         "{}[each(P:self.outgoing).event_type]", ("each(P:self.outgoing)",),
         [("cmp", "each(P:self.outgoing).event_type", "Is", "None", "0")],
         [], ""),
    ],
    "Node.get_puml_event_types": [
        ("the flags of the node are what the diagram node gets", "ret", "",
         "", ("tuple(P:self.event_types)",),
         [("truth", "P:self.event_types", "1")], [], ""),
    ],
    "Node.update_event_types": [
        ("a flag is added to the node's flags", "call", "add",
         "P:self.event_types", ("P:event_type",), [], [], ""),
    ],
    "Node.lonely_merge": [
        ("a gate with at most one path has no lonely merge", "ret", "", "",
         ("None",), [("le", "len(P:self.is_loop_kill_path)", "1", "1")], [],
         ""),
        ("the lonely merge is the path that is NOT a kill path ...", "bind",
         "ret[0]", "",
         ("P:self.outgoing_logic[first(enumerate(P:self.is_loop_kill_path))"
          "[0]]",),
         [_MANY, ("truth", "first(enumerate(P:self.is_loop_kill_path))[1]",
                  "0"), ("cmp", "state(None)", "Is", "None", "1")], [], ""),
        ("... and only when it is the ONLY such path: a second one means no "
         "lonely merge", "ret", "", "", ("None",),
         [_MANY, ("truth", "first(enumerate(P:self.is_loop_kill_path))[1]",
                  "0"), ("cmp", "state(None)", "Is", "None", "0")], [], ""),
    ],
    "Node.update_loop_kill_paths_from_given_leaf_nodes": [
        ("a path all of whose leaves are targets of kill edges is a kill "
         "path", "store", "", f"P:self.is_loop_kill_path[{_PATHS}[0]]",
         ("True",), [_IS_OP, _ALL_KILL], [], ""),
        ("otherwise the path is searched further down ...", "call",
         "update_loop_kill_paths_from_given_leaf_nodes", f"{_PATHS}[1]",
         ("P:leaf_nodes",), [_IS_OP, _NOT_ALL_KILL], [], ""),
    ],
}


# ---- event graph -> model-node graph
_EV = "each(P:event_graph.nodes(data=True))[0]"
_IT = "each({}.items())"
_LOOPN = [("truth", f"isinstance({_IT}[0],LoopEvent)", "1"),
          ("truth", f"isinstance({_IT}[1],SubGraphNode)", "1")]
GRAPH_TABLE: dict[str, list[tuple]] = {
    "create_node_graph_from_event_graph": [
        ("every event of the graph gets its model node, remembered under "
         "the event", "store", "", f"{{}}[{_EV}]",
         (f"create_node_from_event({_EV})",), [], [], ""),
        ("every edge of the event graph becomes an edge between the two "
         "model nodes, in the same direction", "call",
         "update_graph_with_node_tuple", "",
         ("NodeTuple(out_node={}[each(P:event_graph.edges)[0]],in_node={}["
          "each(P:event_graph.edges)[1]])", "DiGraph()"), [], [], ""),
        ("every model node gets the outgoing logic of ITS event", "call",
         "update_outgoing_logic_nodes", "", (f"{_IT}[0]", f"{_IT}[1]"), [],
         [], ""),
        ("the body of a loop event is translated into the body of its "
         "model node", "store", "", f"{_IT}[1].sub_graph",
         (f"create_node_graph_from_event_graph({_IT}[0].sub_graph)",),
         _LOOPN, [], ""),
        ("the graph that was filled is the one returned", "ret", "", "",
         ("DiGraph()",), [], [], ""),
    ],
    "LogicBlockHolder.is_on_lonely_merge_path": [
        ("the current path (the LAST one) is the lonely merge path", "ret",
         "", "", ("((len(P:self.paths) Sub 1) Eq P:self.lonely_merge_index)",),
         [("cmp", "P:self.lonely_merge_index", "Is", "None", "0")], [], ""),
        ("a block without lonely merge is never on it", "ret", "", "",
         ("False",), [("cmp", "P:self.lonely_merge_index", "Is", "None",
                       "1")], [], ""),
    ],
}


# ---- ingestion / graph construction / small loop helpers
_DS = "EventSolution(meta_data={'EventType': DUMMY_START_EVENT})"
_UNREACH = ("each(identify_nodes_without_path_back_to_chosen_nodes(set("
            "P:nodes),P:loop_nodes,P:graph))")
INGEST_TABLE: dict[str, list[tuple]] = {
    "update_graph_solution_with_dummy_start_event": [
        ("every start event of the job follows the dummy start", "call",
         "add_post_event", _DS,
         ("each(P:graph_solution.start_events.items())[1]",), [], [], ""),
        ("the dummy start announces itself to its successors (their "
         "previous events)", "call", "add_to_post_events", _DS, (), [], [],
         ""),
        ("and becomes an event of the job", "call", "add_event",
         "P:graph_solution", (_DS,), [], [], ""),
    ],
    "create_graph_from_events": [
        ("an edge from every event to every event type that occurs in one "
         "of its SUCCESSOR sets (tail = the event, head = the successor)",
         "call", "add_edge", "DiGraph()",
         ("each(P:events)",
          "each(({each(P:events).event_type:each(P:events) for..}[each(each("
          "each(P:events).event_sets).to_frozenset())] for..))"), [], [],
         ""),
        ("the graph that was filled is returned", "ret", "", "",
         ("DiGraph()",), [], [], ""),
    ],
    "is_end_of_potential_ends": [
        ("a potential end event is an end event unless some other potential "
         "end lies strictly behind it (reachable from it, not reaching it)",
         "ret", "", "",
         ("all(((0 LtE (int(has_path(P:graph,each(P:potential_end_nodes),"
          "P:node)) Sub int(has_path(P:graph,P:node,each("
          "P:potential_end_nodes))))) for..))",), [], [], ""),
    ],
    "remove_nodes_without_path_back_to_loop": [
        ("every node that none of the given loop nodes reaches leaves the "
         "graph (once)", "call", "remove_node", "P:graph", (_UNREACH,),
         [("cmp", _UNREACH, "In", "P:graph.nodes", "1")], [], ""),
    ],
}


# ---- partial merge: when it applies and what it removes from the diagram
_KILLHERE = "P:self.loop_kill_paths[P:self.merge_nodes.index(P:merge_node)]"
_IDX = ("[each(enumerate(P:self.merge_nodes))[0] for.. if (P:merge_node Eq "
        "each(enumerate(P:self.merge_nodes))[1])]")
_APPLIES = ("any", (("truth", _KILLHERE, "1"),
                    ("truth", "any(P:self.loop_kill_paths)", "0")), "1")
_TWO = ("cmp", f"len({_IDX})", "Lt", "2", "0")
MERGE_TABLE: dict[str, list[tuple]] = {
    "LogicBlockHolder.create_logic_merge": [
        ("normal paths are not merged while a kill path of the block is "
         "still open", "ret", "", "", ("set()",),
         [("truth", _KILLHERE, "0"),
          ("truth", "any(P:self.loop_kill_paths)", "1")], [], ""),
        ("fewer than two paths at the node: nothing to merge", "ret", "", "",
         ("set()",), [_APPLIES, ("cmp", f"len({_IDX})", "Lt", "2", "1")], [],
         ""),
        ("everything the merging paths have drawn behind the block's start "
         "(every node on every simple path from the start to the tip of "
         "each merging path, the start excluded) is handed back for "
         "removal", "call", "add", "set()",
         (f"each(each(all_simple_paths(P:puml_graph,P:self.start_node,each("
          f"[P:self.puml_nodes[each({_IDX})] for..])))[1:])",),
         [_APPLIES, _TWO], [], ""),
        ("that set is the result", "bind", "ret[0]", "", ("set()",),
         [_APPLIES, _TWO], [], ""),
    ],
}
