"""E1 -- resolved call graph.

Resolution rules (the trusted base of every reachability rule):

* ``f(...)``            module-level function / imported function / class
                        (-> ``__init__``) of the calling module;
* ``self.m(...)``       ``m`` along the MRO of the enclosing class *and* every
                        override in a subclass (dynamic dispatch, may-call);
* ``super().m(...)``    ``m`` along the MRO of the bases;
* ``C.m(...)``          ``m`` of class ``C``;
* ``x.m(...)``          receiver typed by a parameter/variable annotation or a
                        constructor assignment -> that class family; otherwise
                        every repository method called ``m`` unless ``m`` is a
                        builtin-container method name (append/add/get/...),
                        which stays *unresolved*;
* attribute reads/writes of a name that is a ``@property`` in the repository
  are calls of the getter / setter;
* a function passed by name as an argument (callback) is a may-call edge.

Nested functions and lambdas belong to the enclosing function.
"""
from __future__ import annotations

import ast
from dataclasses import dataclass, field
from typing import Iterable, Optional

from .core import ClassInfo, FuncInfo, Index, ModuleInfo, dotted

CONTAINER_METHODS = {
    "append", "add", "get", "items", "keys", "values", "update", "pop",
    "remove", "discard", "clear", "copy", "extend", "insert", "index",
    "count", "sort", "reverse", "setdefault", "join", "split", "strip",
    "rstrip", "lstrip", "replace", "format", "startswith", "endswith",
    "lower", "upper", "read", "write", "close", "issubset", "issuperset",
    "union", "intersection", "difference", "encode", "decode", "popitem",
    "most_common", "elements", "isdisjoint", "symmetric_difference",
}


@dataclass
class CallSite:
    caller: FuncInfo
    node: ast.AST                 # ast.Call, or ast.Attribute for properties
    callees: tuple[FuncInfo, ...]
    kind: str                     # call | property-get | property-set | ref
    text: str = ""


@dataclass
class CallGraph:
    index: Index
    sites: dict[str, list[CallSite]] = field(default_factory=dict)
    unresolved: dict[str, list[str]] = field(default_factory=dict)
    edges: dict[str, set[str]] = field(default_factory=dict)
    redges: dict[str, set[str]] = field(default_factory=dict)

    # -- queries ------------------------------------------------------------
    def callees(self, f: FuncInfo | str) -> set[str]:
        q = f if isinstance(f, str) else f.qualname
        return self.edges.get(q, set())

    def callers(self, f: FuncInfo | str) -> set[str]:
        q = f if isinstance(f, str) else f.qualname
        return self.redges.get(q, set())

    def closure(self, starts: Iterable[FuncInfo | str],
                blocked: Iterable[FuncInfo | str] = ()) -> set[str]:
        """Functions reachable from ``starts`` (inclusive) without entering a
        function of ``blocked``."""
        blk = {b if isinstance(b, str) else b.qualname for b in blocked}
        todo = [s if isinstance(s, str) else s.qualname for s in starts]
        out: set[str] = set()
        while todo:
            q = todo.pop()
            if q in out or q in blk:
                continue
            out.add(q)
            todo.extend(self.edges.get(q, ()))
        return out

    def path(self, start: FuncInfo | str, goal: FuncInfo | str,
             blocked: Iterable[FuncInfo | str] = ()) -> Optional[list[str]]:
        s = start if isinstance(start, str) else start.qualname
        g = goal if isinstance(goal, str) else goal.qualname
        blk = {b if isinstance(b, str) else b.qualname for b in blocked}
        prev: dict[str, Optional[str]] = {s: None}
        todo = [s]
        while todo:
            q = todo.pop(0)
            if q == g:
                out = [q]
                while prev[out[-1]] is not None:
                    out.append(prev[out[-1]])  # type: ignore[arg-type]
                return list(reversed(out))
            for n in sorted(self.edges.get(q, ())):
                if n not in prev and n not in blk:
                    prev[n] = q
                    todo.append(n)
        return None

    def sites_in(self, f: FuncInfo) -> list[CallSite]:
        return self.sites.get(f.qualname, [])

    def calls_to(self, caller: FuncInfo, callee: FuncInfo | str
                 ) -> list[CallSite]:
        q = callee if isinstance(callee, str) else callee.qualname
        return [s for s in self.sites_in(caller)
                if any(c.qualname == q for c in s.callees)]

    def stats(self) -> dict[str, int]:
        n_sites = sum(len(v) for v in self.sites.values())
        n_unres = sum(len(v) for v in self.unresolved.values())
        return {"resolved_call_sites": n_sites,
                "unresolved_call_sites": n_unres,
                "edges": sum(len(v) for v in self.edges.values())}


class _TypeEnv:
    """Local receiver typing: annotations and constructor assignments."""

    def __init__(self, index: Index, fi: FuncInfo) -> None:
        self.index = index
        self.fi = fi
        self.types: dict[str, ClassInfo] = {}
        args = fi.node.args
        for a in args.posonlyargs + args.args + args.kwonlyargs:
            c = self._ann_class(a.annotation)
            if c is not None:
                self.types[a.arg] = c
        for n in ast.walk(fi.node):
            if isinstance(n, ast.AnnAssign) and isinstance(n.target, ast.Name):
                c = self._ann_class(n.annotation)
                if c is not None:
                    self.types[n.target.id] = c
            elif isinstance(n, ast.Assign) and isinstance(n.value, ast.Call):
                c = self._ctor_class(n.value)
                if c is not None:
                    for t in n.targets:
                        if isinstance(t, ast.Name) and t.id not in self.types:
                            self.types[t.id] = c
            elif isinstance(n, (ast.For, ast.comprehension)):
                pass

    def _ann_class(self, ann: ast.AST | None) -> Optional[ClassInfo]:
        if ann is None:
            return None
        if isinstance(ann, ast.Constant) and isinstance(ann.value, str):
            try:
                ann = ast.parse(ann.value, mode="eval").body
            except SyntaxError:
                return None
        if isinstance(ann, ast.Name):
            return self.index.resolve_class(self.fi.module, ann.id)
        if isinstance(ann, ast.Attribute):
            return self.index.resolve_class(self.fi.module, ann.attr)
        if isinstance(ann, ast.BinOp) and isinstance(ann.op, ast.BitOr):
            return self._ann_class(ann.left) or self._ann_class(ann.right)
        if isinstance(ann, ast.Subscript):
            base = dotted(ann.value) or ""
            if base.split(".")[-1] in {"Optional", "Type", "type"}:
                return self._ann_class(ann.slice)
        return None

    def _ctor_class(self, call: ast.Call) -> Optional[ClassInfo]:
        if isinstance(call.func, ast.Name):
            got = self.index.resolve_name(self.fi.module, call.func.id)
            if isinstance(got, ClassInfo):
                return got
        return None

    def of(self, expr: ast.AST) -> Optional[ClassInfo]:
        if isinstance(expr, ast.Name):
            if expr.id == "self" and self.fi.cls is not None \
                    and not self.fi.is_static:
                return self.fi.cls
            return self.types.get(expr.id)
        if isinstance(expr, ast.Call):
            return self._ctor_class(expr)
        return None


def _family(c: ClassInfo) -> list[ClassInfo]:
    return c.mro() + c.all_subclasses()


def build(index: Index) -> CallGraph:
    cg = CallGraph(index)
    methods_by_name: dict[str, list[FuncInfo]] = {}
    props: dict[str, list[FuncInfo]] = {}
    for f in index.all_functions():
        if f.cls is not None:
            if f.is_property_getter or f.is_property_setter:
                props.setdefault(f.name, []).append(f)
            else:
                methods_by_name.setdefault(f.name, []).append(f)

    def add(site: CallSite) -> None:
        cg.sites.setdefault(site.caller.qualname, []).append(site)
        for c in site.callees:
            cg.edges.setdefault(site.caller.qualname, set()).add(c.qualname)
            cg.redges.setdefault(c.qualname, set()).add(site.caller.qualname)

    def init_of(c: ClassInfo) -> list[FuncInfo]:
        return [m for m in c.lookup("__init__")]

    for fi in index.all_functions():
        env = _TypeEnv(index, fi)
        mod: ModuleInfo = fi.module
        store_attrs = set()
        for n in ast.walk(fi.node):
            if isinstance(n, ast.Attribute) and isinstance(n.ctx, ast.Store):
                store_attrs.add(id(n))
        call_funcs = set()
        for n in ast.walk(fi.node):
            if isinstance(n, ast.Call):
                call_funcs.add(id(n.func))
        for n in ast.walk(fi.node):
            if n is not fi.node and isinstance(
                    n, (ast.FunctionDef, ast.AsyncFunctionDef)) and False:
                continue
            if isinstance(n, ast.Call):
                callees = _resolve_call(index, env, fi, mod, n,
                                        methods_by_name, init_of)
                text = dotted(n.func) or ast.unparse(n.func)
                if callees:
                    add(CallSite(fi, n, tuple(callees), "call", text))
                else:
                    cg.unresolved.setdefault(fi.qualname, []).append(text)
                # callbacks passed by name
                for a in list(n.args) + [k.value for k in n.keywords]:
                    if isinstance(a, ast.Name):
                        got = index.resolve_name(mod, a.id)
                        if isinstance(got, FuncInfo):
                            add(CallSite(fi, a, (got,), "ref", a.id))
            elif isinstance(n, ast.Attribute) and n.attr in props \
                    and id(n) not in call_funcs:
                is_store = id(n) in store_attrs
                cands = [p for p in props[n.attr]
                         if p.is_property_setter == is_store]
                rc = env.of(n.value)
                if rc is not None:
                    fam = set(_family(rc))
                    narrowed = [p for p in cands if p.cls in fam]
                    cands = narrowed or cands
                if cands:
                    add(CallSite(fi, n, tuple(cands),
                                 "property-set" if is_store else "property-get",
                                 n.attr))
    return cg


def _resolve_call(index, env, fi, mod, call, methods_by_name, init_of):
    f = call.func
    if isinstance(f, ast.Name):
        got = index.resolve_name(mod, f.id)
        if isinstance(got, FuncInfo):
            return [got]
        if isinstance(got, ClassInfo):
            return init_of(got)
        return []
    if not isinstance(f, ast.Attribute):
        return []
    m = f.attr
    recv = f.value
    # super().m()
    if isinstance(recv, ast.Call) and isinstance(recv.func, ast.Name) \
            and recv.func.id == "super" and fi.cls is not None:
        out: list[FuncInfo] = []
        for b in fi.cls.bases:
            out.extend(b.lookup(m))
        return out
    # Module.func / Class.method
    if isinstance(recv, ast.Name):
        got = index.resolve_name(mod, recv.id)
        if isinstance(got, ModuleInfo):
            if m in got.functions:
                return [got.functions[m]]
            if m in got.classes:
                return init_of(got.classes[m])
            return []
        if isinstance(got, ClassInfo):
            return list(got.lookup(m))
    rc = env.of(recv)
    if rc is not None:
        out = list(rc.lookup(m))
        for sub in rc.all_subclasses():
            out.extend(sub.methods.get(m, []))
        if out:
            return [o for o in out if not o.is_property_setter]
        return []
    if m in CONTAINER_METHODS:
        return []
    return [c for c in methods_by_name.get(m, [])]
