"""C07 -- loop extraction leaves an acyclic, complete, non-overlapping nesting
(the orchestration skeleton)."""
from __future__ import annotations

import ast
from typing import Optional

from ..cfg import ENTRY, EXIT
from ..core import AnalysisError, FuncInfo, Report, call_name, dotted, unparse
from ..ctx import Ctx
from ..effects import mutating_closure, primary_mutators
from .util import (actual, calls_in, canon_test, enclosing, norm_compare,
                   shared_object_uses)

EXPLANATION = (
    "The classification of start/end/break nodes and loop-back edges is "
    "value-dependent and NOT decided. Decided: the recursion scheme that "
    "turns any such classification into a nesting with the stated "
    "invariants. R7.1 every cyclic SCC is replaced: inside the loop over "
    "strongly_connected_components any statement that skips the replacement "
    "has a path condition implying 'singleton component and no self edge'. "
    "R7.2 the body is itself decomposed: the sub graph reaches the loop "
    "event only through a recursive detect_loops call. R7.3 the parent "
    "graph loses the loop's events and gains one node, and detect_loops "
    "continues with / returns the rewritten graph. R7.4 the body is built "
    "on a private deep copy: the parameters of create_sub_graph_of_loop are "
    "only operands of the copy or of calls whose resolved closure is free "
    "of Event-state and graph-structure writes. R7.5 loop-back edges and "
    "outside nodes are removed from the body and exactly one dummy entry "
    "and one dummy exit are added. R7.6 the loop event records the uids of "
    "the dummy entry/exit/breaks that later phases look up."
    " Added: R7.6 the loop event records the body's entry/exit/break uids; R7.7 pruning from the root after the rewrite; R7.8 components keep their role across hand-offs; R7.9 a component revised after classification is revised before any phase reads it; R7.10 carving the body cuts only loop-back and boundary edges; R7.11 break events are partitioned exactly between the two re-attachment handlers and the exit fan-out is recorded before the cut; R7.12 the dummy start / end of a body mirror the successor / predecessor sets of the loop boundary in the parent graph (every outside predecessor / successor, every set inside the loop's types, with multiplicities, fallback for an end event without exit), compared as name-free role expressions (sa/roles.py).")
NOT_DECIDED = ["correctness of calc_components_of_loop and of the event-set "
               "rewriting", "in-place mutation of loop.break_events while "
               "iterating (recorded in DESIGN section 9, not armed)"]
ASSUMPTIONS = ["networkx.strongly_connected_components returns every node in "
               "exactly one component",
               "networkx.strongly_connected_components yields the components "
               "in reverse topological order of the condensation (Tarjan)"]


def check(rep: Report, ctx: Ctx) -> None:
    det = ctx.func("detect_loops")
    r71(rep, ctx, det)
    r72_73(rep, ctx, det)
    r74(rep, ctx)
    r75(rep, ctx)
    r76(rep, ctx, det)
    r77(rep, ctx)
    r78(rep, ctx)
    r79(rep, ctx)
    r710(rep, ctx)
    r711(rep, ctx)
    r712(rep, ctx)
    r713(rep, ctx)
    r714(rep, ctx)
    r715(rep, ctx)
    r716(rep, ctx)
    r717(rep, ctx)
    r718(rep, ctx)
    r719(rep, ctx)
    r720(rep, ctx)
    r721(rep, ctx)
    r722(rep, ctx)
    r723(rep, ctx)


def scc_order(rep: Report, ctx: Ctx, rule: str, det: Optional[FuncInfo] = None,
              scc_loop: Optional[ast.For] = None) -> None:
    if det is None:
        det = ctx.func("detect_loops")
    defs = ctx.defs(det)
    if scc_loop is None:
        for l in det.node.body:
            if isinstance(l, ast.For) and any(
                    isinstance(c, ast.Call) and call_name(c) ==
                    "strongly_connected_components"
                    for c in ast.walk(defs.resolve_deep(l.iter))):
                scc_loop = l
        if scc_loop is None:
            rep.ob(rule, "detect_loops visits the strongly connected "
                   "components in the order networkx yields them", False,
                   fi=det, node=det.node,
                   detail="no loop over strongly_connected_components(graph)")
            return
    # order: the component list is computed once, on the graph before any
    # loop is collapsed, and collapsing a loop prunes what lies behind its
    # break paths from the parent graph - a loop on the break / exit path of
    # another loop must already be a loop node by then.  networkx yields the
    # components in reverse topological order of the condensation (sinks
    # first), which is exactly that order (seed C01-u: `sorted(.., key=len)`)
    src = scc_loop.iter
    chain = []
    for _ in range(8):
        if isinstance(src, ast.Name):
            d = defs.resolve(src) if hasattr(defs, "resolve") else None
            if d is None or d is src:
                break
            src = d
            continue
        if isinstance(src, ast.Call) and call_name(src) in (
                "list", "tuple", "iter", "tqdm") and src.args:
            chain.append(call_name(src))
            src = src.args[0]
            continue
        break
    direct = isinstance(src, ast.Call) and call_name(src) == \
        "strongly_connected_components"
    reorders = isinstance(src, ast.Call) and call_name(src) in (
        "sorted", "reversed", "set", "frozenset", "sample", "shuffle") or (
        isinstance(src, ast.Subscript) and isinstance(src.slice, ast.Slice))
    if not direct and not reorders:
        raise AnalysisError(
            f"{rule}: cannot tell in which order detect_loops visits the "
            f"components: iterates '{unparse(scc_loop.iter)[:60]}' = "
            f"'{unparse(src)[:80]}'")
    rep.ob(rule, "the components are visited in the order networkx yields "
           "them (sinks of the condensation first): a loop behind another "
           "loop's break path is collapsed before the outer one prunes it",
           direct, fi=det, node=scc_loop,
           detail=f"iterates {'('.join(chain + [''])}"
                  f"{unparse(src)[:70]}" + ("" if direct else
                  " -- re-ordered; the component list was computed on the "
                  "un-collapsed graph, a later component may no longer "
                  "exist (NodeNotFound) or be lost"))


def r71(rep: Report, ctx: Ctx, det: FuncInfo) -> None:
    rep.rule("R7.1", "every cyclic SCC is replaced, inner / downstream loops first", 3)
    defs = ctx.defs(det)
    loops = [l for l in det.node.body if isinstance(l, ast.For)]
    scc_loop = None
    for l in loops:
        src = defs.resolve_deep(l.iter)
        if any(isinstance(c, ast.Call) and call_name(c) ==
               "strongly_connected_components" for c in ast.walk(src)):
            scc_loop = l
    if scc_loop is None:
        rep.ob("R7.1", "detect_loops iterates the strongly connected "
               "components", False, fi=det, node=det.node,
               detail="no loop over strongly_connected_components(graph): "
                      "cycles are never extracted")
        return
    comp = scc_loop.target.id if isinstance(scc_loop.target, ast.Name) else "?"
    rep.ob("R7.1", "detect_loops iterates every SCC of the graph", True,
           fi=det, node=scc_loop, detail=f"for {comp} in SCCs(graph)")
    scc_order(rep, ctx, "R7.1", det, scc_loop)
    skips = [n for n in ast.walk(scc_loop)
             if isinstance(n, (ast.Continue, ast.Break, ast.Return))]
    for sk in skips:
        conds = enclosing(scc_loop, sk, (ast.If,))
        texts = []
        single = noself = False
        for c in conds:
            in_body = any(x is sk for st in c.body for x in ast.walk(st))
            t = defs.resolve_deep(c.test)
            texts.append(("" if in_body else "not ") + unparse(c.test))
            if not in_body:
                continue
            for part in (t.values if isinstance(t, ast.BoolOp) and isinstance(
                    t.op, ast.And) else [t]):
                s = unparse(part).replace(" ", "")
                if s in (f"len({comp})==1", f"len({comp})<2",
                         f"len({comp})<=1", f"1==len({comp})"):
                    single = True
                if isinstance(part, ast.UnaryOp) and isinstance(
                        part.op, ast.Not):
                    inner = part.operand
                    if isinstance(inner, ast.Call) and call_name(inner) in (
                            "has_edge", "number_of_edges") and len(
                            inner.args) == 2 and unparse(
                            inner.args[0]) == unparse(inner.args[1]):
                        node_e = defs.resolve_deep(inner.args[0])
                        if comp in {n.id for n in ast.walk(node_e)
                                    if isinstance(n, ast.Name)}:
                            noself = True
                if isinstance(part, ast.Compare) and len(part.ops) == 1 \
                        and isinstance(part.ops[0], ast.NotIn):
                    l, r = unparse(part.left), unparse(part.comparators[0])
                    if r.endswith(f"[{l}]"):
                        noself = True
        ok = single and noself
        rep.ob("R7.1", f"'{type(sk).__name__.lower()}' skips only acyclic "
               "singletons", ok, fi=det, node=sk,
               detail=f"path condition: {' and '.join(texts) or 'none'}; "
                      f"singleton={single}, no-self-edge={noself}"
                      + ("" if ok else " -- a component that still contains "
                         "a cycle (e.g. a single event that follows itself) "
                         "is left in the graph and the later "
                         "topological_sort fails"))
    if not skips:
        rep.ob("R7.1", "no statement skips a component", True, fi=det,
               node=scc_loop, detail="every component is processed")


def r72_73(rep: Report, ctx: Ctx, det: FuncInfo) -> None:
    rep.rule("R7.2", "the loop body is decomposed recursively", 2)
    rep.rule("R7.3", "the parent graph is rewritten and carried on", 4)
    defs = ctx.defs(det)
    sub = ctx.func("create_sub_graph_of_loop")
    mk = ctx.func("create_loop_event")
    upd = ctx.func("calculate_updated_graph_with_loop_event")
    rec = calls_in(ctx, det, det)
    cs = calls_in(ctx, det, sub)
    cm = calls_in(ctx, det, mk)
    if len(cs) != 1 or len(cm) != 1:
        raise AnalysisError("detect_loops: sub-graph / loop-event calls not "
                            "found")
    a_sub = actual(cm[0], mk, "sub_graph")
    # which bindings of that name reach the loop event?
    ok, why = False, f"sub_graph = {unparse(a_sub)}"
    if isinstance(a_sub, ast.Name):
        # every definition that reaches the loop-event construction is the
        # result of the recursive decomposition (flow-sensitive)
        reaching = ctx.reach(det).at(cm[0], a_sub.id)
        good = [b for b in reaching if isinstance(b.value, ast.Call)
                and call_name(b.value) == det.name and b.value.args
                and isinstance(b.value.args[0], ast.Name)
                and b.value.args[0].id == a_sub.id]
        raw = [b for b in reaching if b not in good]
        ok = bool(good) and not raw
        if ok:
            why = f"{unparse(good[0].stmt)} before create_loop_event"
        elif raw:
            why = (f"'{a_sub.id}' can reach create_loop_event straight from "
                   f"'{unparse(raw[0].stmt)[:60]}' (the recursive call is "
                   "missing or conditional): nested cycles stay inside the "
                   "body, which then cannot be ordered")
    rep.ob("R7.2", "the body passes through detect_loops before it is "
           "wrapped", ok, fi=det, node=cm[0], detail=why)
    rep.ob("R7.2", "one recursive call", len(rec) == 1, fi=det,
           node=rec[0] if rec else det.node, detail=f"{len(rec)} recursive "
           "call(s)")
    # R7.3
    cu = calls_in(ctx, det, upd)
    ok = False
    if len(cu) == 1:
        asg = enclosing(det.node, cu[0], (ast.Assign,))
        ok = bool(asg) and unparse(asg[-1].targets[0]) == "graph" and unparse(
            actual(cu[0], upd, "graph")) == "graph" and not enclosing(
            det.node, cu[0], (ast.If,))
    rep.ob("R7.3", "detect_loops continues with the rewritten graph", ok,
           fi=det, node=cu[0] if cu else det.node,
           detail="graph = calculate_updated_graph_with_loop_event(loop, "
                  "loop_event, graph)")
    ret = [r for r in det.node.body if isinstance(r, ast.Return)]
    rep.ob("R7.3", "detect_loops returns the rewritten graph",
           len(ret) == 1 and unparse(ret[0].value) == "graph", fi=det,
           node=ret[0] if ret else det.node, detail="return graph")
    rm = [c for c in ast.walk(upd.node) if isinstance(c, ast.Call)
          and call_name(c) == "remove_nodes_from"
          and unparse(c.args[0]) == "loop.loop_events"]
    ok = False
    if len(rm) == 1:
        cfg = ctx.cfg(upd)
        ok = cfg.every_path_passes(ENTRY, EXIT, {cfg.container(rm[0])}) \
            and unparse(rm[0].func.value) == "graph"
    rep.ob("R7.3", "the loop's events leave the parent graph on every path",
           ok, fi=upd, node=rm[0] if rm else upd.node,
           detail="graph.remove_nodes_from(loop.loop_events)")
    adds = []
    for spec in ("update_graph_for_loop_start_events",
                 "update_graph_for_loop_end_events"):
        f = ctx.func(spec)
        e = [c for c in ast.walk(f.node) if isinstance(c, ast.Call)
             and call_name(c) == "add_edge" and "loop_event" in
             [unparse(a) for a in c.args]]
        called = bool(calls_in(ctx, upd, f))
        adds.append(bool(e) and called)
    rep.ob("R7.3", "the loop node is wired to predecessors and successors",
           all(adds), fi=upd, node=upd.node,
           detail="start handler adds (event -> loop_event), end handler "
                  "adds (loop_event -> event); both are called")
    ret = [r for r in ast.walk(upd.node) if isinstance(r, ast.Return)]
    rep.ob("R7.3", "the rewritten graph is the one returned",
           len(ret) == 1 and unparse(ret[0].value) == "graph", fi=upd,
           node=ret[0] if ret else upd.node, detail="return graph")


def r74(rep: Report, ctx: Ctx) -> None:
    rep.rule("R7.4", "the body is built on a private copy", 2)
    sub = ctx.func("create_sub_graph_of_loop")
    prim = primary_mutators(ctx.index, {"event_sets", "in_event_sets",
                                        "loop_events", "break_events"})
    mut = mutating_closure(ctx.cg, prim)
    params = [p for p in sub.params()]
    for p in params:
        copies, bad, aliases = shared_object_uses(ctx, sub, {p}, mut)
        ok = copies >= 1 and not bad
        rep.ob("R7.4", f"parameter '{p}' is only copied", ok, fi=sub,
               node=bad[0][1] if bad else sub.node,
               detail=(f"{copies} deepcopy call(s) receive it"
                       + ("" if not bad else
                          f"; '{unparse(bad[0][1])[:70]}' works on the "
                          "parent's own objects: carving the body would "
                          "strip successor sets from the parent's events")))
    if len(params) < 2:
        raise AnalysisError("create_sub_graph_of_loop: parameters changed")


def r75(rep: Report, ctx: Ctx) -> None:
    rep.rule("R7.5", "loop-back edges and outside nodes removed; one dummy "
             "entry and exit", 5)
    sub = ctx.func("create_sub_graph_of_loop")
    cfg = ctx.cfg(sub)
    rle = ctx.func("remove_loop_edges")
    needed = {
        "remove_loop_edges": None,
        "remove_nodes_from": None,
        "add_start_and_end_events_to_graph": None,
        "create_start_and_end_events": None,
    }
    for name in needed:
        cs = [c for c in ast.walk(sub.node) if isinstance(c, ast.Call)
              and call_name(c) == name]
        ok = len(cs) == 1 and cfg.every_path_passes(
            ENTRY, EXIT, {cfg.container(cs[0])})
        rep.ob("R7.5", f"{name} runs on every path", ok, fi=sub,
               node=cs[0] if cs else sub.node,
               detail=f"{len(cs)} call(s) in create_sub_graph_of_loop")
    uses = [n for n in ast.walk(rle.node) if isinstance(n, ast.Attribute)
            and n.attr == "edges_to_remove"]
    ok = False
    if uses:
        pm = ctx.index.parents(rle)
        p = pm.get(uses[0])
        ok = isinstance(p, ast.Call) and call_name(p) == \
            "remove_event_edges_and_event_sets"
    rep.ob("R7.5", "the identified loop-back edges are the ones removed", ok,
           fi=rle, node=uses[0] if uses else rle.node,
           detail="remove_event_edges_and_event_sets(loop.edges_to_remove, "
                  "graph)")
    # returned triple = (copy graph, start, end)
    ret = [r for r in ast.walk(sub.node) if isinstance(r, ast.Return)]
    rv = ctx.reach(sub).resolve(ret[0].value, at=ret[0]) if len(ret) == 1 \
        and ret[0].value is not None else None
    ok = isinstance(rv, ast.Tuple) and len(rv.elts) == 3
    if ok:
        defs = ctx.defs(sub)
        g = rv.elts[0]
        binds = defs.of(g.id) if isinstance(g, ast.Name) else []
        ok = any(isinstance(b.value, ast.Call) and (dotted(b.value.func) or ""
                                                    ).endswith("deepcopy")
                 for b in binds)
    rep.ob("R7.5", "the returned body is the private copy", ok, fi=sub,
           node=ret[0] if ret else sub.node,
           detail="return sub_graph, start_event, end_event")


def r76(rep: Report, ctx: Ctx, det: FuncInfo) -> None:
    rep.rule("R7.6", "the loop event records its entry / exit / break uids",
             4)
    up = ctx.func("update_loop_event_with_start_end_and_breaks")
    want = {"start_uid": "start_event.uid", "end_uid": "end_event.uid"}
    for attr, src in want.items():
        st = [s for s in ast.walk(up.node) if isinstance(s, ast.Assign)
              and unparse(s.targets[0]) == f"loop_event.{attr}"]
        rep.ob("R7.6", f"loop_event.{attr} <- {src}",
               len(st) == 1 and unparse(st[0].value) == src, fi=up,
               node=st[0] if st else up.node,
               detail=unparse(st[0]) if st else "<missing>")
    st = [s for s in ast.walk(up.node) if isinstance(s, ast.Assign)
          and unparse(s.targets[0]) == "loop_event.break_uids"]
    ok = len(st) == 1 and isinstance(st[0].value, ast.SetComp) and unparse(
        st[0].value.elt).endswith(".uid") and unparse(
        st[0].value.generators[0].iter) == "break_events" and not \
        st[0].value.generators[0].ifs
    rep.ob("R7.6", "loop_event.break_uids <- uid of every break event", ok,
           fi=up, node=st[0] if st else up.node,
           detail=unparse(st[0])[:90] if st else "<missing>")
    cs = calls_in(ctx, det, up)
    sub = ctx.func("create_sub_graph_of_loop")
    ok = False
    if len(cs) == 1:
        a = [unparse(x) for x in cs[0].args]
        tri = enclosing(det.node, calls_in(ctx, det, sub)[0], (ast.Assign,))
        names = [unparse(e) for e in tri[-1].targets[0].elts] if tri and \
            isinstance(tri[-1].targets[0], ast.Tuple) else []
        mk = calls_in(ctx, det, ctx.func("create_loop_event"))
        le = enclosing(det.node, mk[0], (ast.Assign,)) if mk else []
        lp = actual(calls_in(ctx, det, sub)[0], sub, sub.params()[0])
        ok = len(names) == 3 and a[:2] == names[1:] and a[2] == \
            f"{unparse(lp)}.break_events" and bool(le) and a[3] == unparse(
                le[-1].targets[0])
    rep.ob("R7.6", "detect_loops hands over the body's dummy entry/exit and "
           "the breaks", ok, fi=det, node=cs[0] if cs else det.node,
           detail=unparse(cs[0])[:110] if cs else "<missing>")


def r77(rep: Report, ctx: Ctx) -> None:
    rep.rule("R7.7", "after the rewrite every node that lost its path from "
             "the root is pruned (single entry, no event left in both the "
             "body and the parent)", 3)
    upd = ctx.func("calculate_updated_graph_with_loop_event")
    defs = ctx.defs(upd)
    cfg = ctx.cfg(upd)
    prune = [c for c in ast.walk(upd.node) if isinstance(c, ast.Call)
             and call_name(c) == "remove_nodes_without_path_back_to_loop"]
    if len(prune) != 1:
        rep.ob("R7.7", "the rewritten graph is pruned", False, fi=upd,
               node=prune[0] if prune else upd.node,
               detail=f"{len(prune)} pruning call(s): events copied into the "
                      "loop body but no longer reachable from the root stay "
                      "in the parent graph (a second entry, duplicated "
                      "events)")
        return
    c = prune[0]
    on_all = cfg.every_path_passes(ENTRY, EXIT, {cfg.container(c)})
    rets = [r for r in ast.walk(upd.node) if isinstance(r, ast.Return)]
    rep.ob("R7.7", "pruning runs on every path, after the rewiring",
           on_all and all(c.lineno < r.lineno for r in rets), fi=upd, node=c,
           detail="remove_nodes_without_path_back_to_loop(...) before "
                  "return graph")
    cand = defs.resolve_deep(c.args[0]) if c.args else None
    ctext = unparse(cand).replace(" ", "") if cand is not None else ""
    whole = ctext in ("set(graph.nodes)", "graph.nodes", "set(graph)",
                      "list(graph.nodes)", "set(graph.nodes())",
                      "graph.nodes()")
    rep.ob("R7.7", "every node of the rewritten graph is a pruning "
           "candidate", whole and len(c.args) == 3
           and unparse(c.args[2]) == "graph", fi=upd, node=c,
           detail=f"candidates = {unparse(c.args[0]) if c.args else '?'}"
                  + ("" if whole else " -- only part of the graph is "
                     "examined: other events that lost their path from the "
                     "root (e.g. the earlier events of a multi-event break "
                     "branch) survive next to their copies in the loop "
                     "body"))
    anchor = ctx.reach(upd).resolve_deep(c.args[1], at=c) \
        if len(c.args) > 1 else None
    atext = unparse(anchor) if anchor is not None else ""
    ok = False
    for cmp_ in [n for n in ast.walk(anchor)
                 if isinstance(n, ast.Compare)] if anchor is not None else []:
        nc = norm_compare(cmp_)
        if nc is not None and nc[1] is ast.Eq and isinstance(
                nc[2], ast.Constant) and nc[2].value == 0 and "in_degree" in \
                atext:
            ok = True
    rep.ob("R7.7", "reachability is measured from the graph's root", ok,
           fi=upd, node=c, detail=f"anchor = {unparse(c.args[1]) if len(c.args) > 1 else '?'} "
           "(the in-degree-0 event taken before the rewrite)")


ROLES = ("start", "end", "break", "edge", "graph", "loop_event")

# confirmed exceptions of the role rule: (caller, callee, parameter) -> reason
ROLE_EXCEPTIONS = {
    ("calculate_updated_graph_with_loop_event",
     "update_graph_for_loop_end_events", "end_events"):
        "break events that lost their path from the root are deliberately "
        "re-attached behind the loop node exactly like end events (second "
        "call; the first call passes loop.end_events)",
}


def _role(name: str) -> Optional[str]:
    n = name.lower()
    hits = [r for r in ROLES if r in n]
    if "loop_edges" in n or "edges" in n:
        return "edge"
    if len(hits) == 1:
        return hits[0]
    # "end_event_to_event_lists" etc.: the leading word decides
    for r in ROLES:
        if n.startswith(r):
            return r
    return None


def r78(rep: Report, ctx: Ctx) -> None:
    rep.rule("R7.8", "loop components keep their role across positional "
             "hand-offs (returned tuples, Loop(...) fields, helper "
             "parameters): start stays start, end stays end, break stays "
             "break", 8)
    mods = [m for n, m in ctx.index.modules.items() if ".loop_detection." in n]
    if len(mods) < 5:
        raise AnalysisError("loop_detection package not found")
    n = 0
    for m in mods:
        for fi in list(m.functions.values()):
            # (a) tuple unpacking of a repository call
            for st in ast.walk(fi.node):
                if isinstance(st, ast.Assign) and isinstance(
                        st.targets[0], ast.Tuple) and isinstance(
                        st.value, ast.Call):
                    callee = None
                    for site in ctx.cg.sites_in(fi):
                        if site.node is st.value and len(site.callees) == 1:
                            callee = site.callees[0]
                    if callee is None:
                        continue
                    rets = [r for r in ast.walk(callee.node)
                            if isinstance(r, ast.Return) and isinstance(
                                r.value, ast.Tuple)]
                    if len(rets) != 1 or len(rets[0].value.elts) != len(
                            st.targets[0].elts):
                        continue
                    pairs = [(unparse(a), unparse(b)) for a, b in zip(
                        st.targets[0].elts, rets[0].value.elts)]
                    bad = [(a, b) for a, b in pairs if _role(a) and _role(b)
                           and _role(a) != _role(b)]
                    n += 1
                    rep.ob("R7.8", f"{fi.short}: unpacking of "
                           f"{callee.short}()", not bad, fi=fi, node=st,
                           detail=f"targets/returned: {pairs}"
                                  + (f" -- role crossed: {bad}" if bad else ""))
            # (b) positional arguments vs parameter names / NamedTuple fields
            for site in ctx.cg.sites_in(fi):
                c = site.node
                if not isinstance(c, ast.Call) or len(site.callees) != 1:
                    continue
                callee = site.callees[0]
                if ".loop_detection." not in callee.module.name:
                    continue
                params = [p for p in callee.params() if p != "self"]
                pairs = [(unparse(a), p) for a, p in zip(c.args, params)
                         if isinstance(a, (ast.Name, ast.Attribute))]
                pairs += [(unparse(k.value), k.arg) for k in c.keywords
                          if k.arg and isinstance(k.value, (ast.Name,
                                                            ast.Attribute))]
                bad = [(a, p) for a, p in pairs
                       if _role(a.split(".")[-1]) and _role(p)
                       and _role(a.split(".")[-1]) != _role(p)
                       and {_role(a.split(".")[-1]), _role(p)} <= {
                           "start", "end", "break"}]
                bad = [(a, p) for a, p in bad
                       if not ((fi.name, callee.name, p) in ROLE_EXCEPTIONS
                               and _role(a.split(".")[-1]) == "break")]
                if any(_role(p) in ("start", "end", "break")
                       for _, p in pairs):
                    n += 1
                    rep.ob("R7.8", f"{fi.short} -> {callee.short}", not bad,
                           fi=fi, node=c,
                           detail=f"argument/parameter: {pairs}"
                                  + (f" -- role crossed: {bad}" if bad else ""))
    # (c) Loop(...) constructor: positional fields of the NamedTuple
    loop_cls = ctx.index.cls("Loop")
    fields = [f for f, _ in loop_cls.fields()]
    for fi in ctx.index.all_functions():
        for c in ast.walk(fi.node):
            if isinstance(c, ast.Call) and isinstance(c.func, ast.Name) \
                    and c.func.id == "Loop" and ctx.index.resolve_class(
                        fi.module, "Loop") is loop_cls:
                pairs = [(unparse(a)[:40], f) for a, f in zip(c.args, fields)]
                bad = [(a, f) for a, f in pairs if _role(a) and _role(f)
                       and _role(a) != _role(f) and {_role(a), _role(f)} <= {
                           "start", "end", "break", "edge"}]
                n += 1
                rep.ob("R7.8", f"{fi.short}: Loop(...) fields", not bad
                       and len(c.args) == len(fields), fi=fi, node=c,
                       detail=f"{pairs}" + (f" -- role crossed: {bad}"
                                            if bad else ""))
    # (d) set-valued arguments built from several components, and locals
    # named after one component: the roles of the Loop fields that are read
    # directly must be the roles the receiving name announces
    RW = ("start", "end", "break")

    def roles_of_name(nm: str) -> set[str]:
        parts = nm.lower().split("_")
        return {r for r in RW if any(p_.startswith(r) for p_ in parts)}

    def roles_read(e: ast.AST) -> set[str]:
        out = set()
        for x in ast.walk(e):
            if isinstance(x, ast.Attribute) and x.attr in (
                    "start_events", "end_events", "break_events"):
                out.add(x.attr.split("_")[0])
        return out
    for m in mods:
        for fi in list(m.functions.values()):
            for site in ctx.cg.sites_in(fi):
                c = site.node
                if not isinstance(c, ast.Call) or len(site.callees) != 1:
                    continue
                callee = site.callees[0]
                if ".loop_detection." not in callee.module.name:
                    continue
                params = [p_ for p_ in callee.params() if p_ != "self"]
                for a, p_ in zip(c.args, params):
                    if not isinstance(a, ast.BinOp):
                        continue
                    want, got = roles_of_name(p_), roles_read(a)
                    if want and got:
                        n += 1
                        rep.ob("R7.8", f"{fi.short} -> {callee.short}"
                               f"({p_})", got == want, fi=fi, node=c,
                               detail=f"parameter '{p_}' announces "
                                      f"{sorted(want)}, the argument "
                                      f"'{unparse(a)[:60]}' reads "
                                      f"{sorted(got)}")
            for st in ast.walk(fi.node):
                if isinstance(st, ast.Assign) and len(st.targets) == 1 \
                        and isinstance(st.targets[0], ast.Name):
                    want = roles_of_name(st.targets[0].id)
                    got = roles_read(st.value)
                    derived = any(
                        isinstance(x, ast.Call) and any(
                            sx.node is x and sx.callees
                            for sx in ctx.cg.sites_in(fi))
                        for x in ast.walk(st.value))
                    if len(want) >= 1 and got and not derived:
                        n += 1
                        rep.ob("R7.8", f"{fi.short}: {st.targets[0].id}",
                               got <= want, fi=fi, node=st,
                               detail=f"'{st.targets[0].id}' announces "
                                      f"{sorted(want)}, its definition reads "
                                      f"{sorted(got)} of the Loop record")
    rep.analysed["handoffs_checked"] = n


# --------------------------------------------------------------------------
def r79(rep: Report, ctx: Ctx) -> None:
    """Components of the Loop record that are rewritten after the record was
    built (today: break events that coincide with the loop's normal exit are
    swapped for a dummy break) must be rewritten before any later phase of
    the orchestrator reads them: the body is carved out, the loop node is
    given its break uids and the parent graph is rewired from the *final*
    components.  Otherwise an event is copied into the body as a break node
    and also stays behind the loop node in the parent (duplicated in the
    nesting)."""
    rep.rule("R7.9", "a loop component that is revised after classification "
             "is revised before any phase reads it", 1)
    top = ctx.func("detect_loops")
    loop_cls = ctx.index.cls("Loop")
    fields = [n for n, _ in loop_cls.fields()]
    MUT = {"add", "remove", "discard", "update", "clear", "pop",
           "difference_update", "intersection_update",
           "symmetric_difference_update", "append", "extend"}
    writers: dict[str, set[str]] = {f: set() for f in fields}
    readers: dict[str, set[str]] = {f: set() for f in fields}
    for fi in ctx.index.all_functions():
        if fi.cls is loop_cls:
            continue
        pm = ctx.index.parents(fi)
        for n in ast.walk(fi.node):
            if isinstance(n, ast.Attribute) and n.attr in writers:
                par = pm.get(n)
                if isinstance(n.ctx, ast.Store) or (
                        isinstance(par, ast.AugAssign) and par.target is n) \
                        or (isinstance(par, ast.Attribute) and par.attr in MUT
                            and isinstance(pm.get(par), ast.Call)):
                    writers[n.attr].add(fi.qualname)
                else:
                    readers[n.attr].add(fi.qualname)
    cfg = ctx.cfg(top)
    # create_sub_graph_of_loop works on a private deep copy (R7.4): what its
    # callees write is written to the copy, not to the orchestrator's record;
    # the copy itself reads every component at that point.
    carve = ctx.func("create_sub_graph_of_loop")
    copy_side = ctx.cg.closure([carve]) - {carve.qualname}
    closures: dict[int, set[str]] = {}
    w_closures: dict[int, set[str]] = {}
    own_reads: dict[int, set[str]] = {}
    for nd in cfg.stmt_nodes():
        st = nd.stmt
        if st is None or isinstance(st, (ast.FunctionDef, ast.ClassDef)):
            continue
        from ..cfg import _header_parts
        cs: set[str] = set()
        reads: set[str] = set()
        for part in _header_parts(st):
            for x in ast.walk(part):
                if isinstance(x, ast.Call):
                    for site in ctx.cg.sites_in(top):
                        if site.node is x:
                            cs |= ctx.cg.closure(
                                [c for c in site.callees if c.name !=
                                 top.name])
                if isinstance(x, ast.Attribute) and x.attr in writers \
                        and isinstance(x.ctx, ast.Load):
                    reads.add(x.attr)
        closures[nd.id] = cs
        w_closures[nd.id] = cs - copy_side if carve.qualname in cs else cs
        own_reads[nd.id] = reads
    n_armed = 0
    for f in fields:
        if not writers[f]:
            continue
        w_nodes = {nid for nid, cs in w_closures.items()
                   if cs & writers[f]}
        if not w_nodes:
            continue
        r_nodes = {nid for nid, cs in closures.items()
                   if (cs & readers[f]) or f in own_reads[nid]
                   or carve.qualname in cs} - w_nodes
        n_armed += 1
        from ..cfg import ENTRY
        bad = [nid for nid in sorted(r_nodes)
               if not cfg.every_path_passes(ENTRY, nid, w_nodes)]
        # a loop body is re-entered: a reader *later in the same iteration*
        # than the writer is what matters; dominance from ENTRY covers it
        # because every iteration passes the writer statement first.
        first = cfg.nodes[bad[0]].stmt if bad else None
        rep.ob("R7.9", f"Loop.{f} is revised before it is read", not bad,
               fi=top, node=first if first is not None else top.node,
               detail=(f"Loop.{f} is rewritten by "
                       f"{sorted(q.split(':')[-1] for q in writers[f])}; "
                       + (f"'{unparse(first)[:70]}' reads it on a path that "
                          "has not passed the revision: the phase works "
                          "from components that are changed afterwards"
                          if bad else
                          f"{len(r_nodes)} reading phase(s) of detect_loops "
                          "all come after the revision")))
    if n_armed == 0:
        rep.ob("R7.9", "no component is revised after classification", True,
               fi=top, node=top.node, detail="obligation not armed")


# --------------------------------------------------------------------------
def r710(rep: Report, ctx: Ctx) -> None:
    """Inside the carved-out body only two kinds of edges may be cut: the
    identified loop-back edges (``loop.edges_to_remove``) and edges that
    leave / enter the loop (one endpoint outside ``loop.loop_events``), plus
    every out-edge of a break event.  Cutting any other edge between two loop
    events drops a dependency of the input that then lies in no loop body
    (an inner cycle that the recursive decomposition should have nested)."""
    rep.rule("R7.10", "carving the body cuts only loop-back edges and edges "
             "crossing the loop boundary", 3)
    fi = ctx.func("remove_loop_edges")
    cutter = ctx.func("remove_event_edges_and_event_sets")
    lp = fi.params()[0]
    reach = ctx.reach(fi)
    for c in calls_in(ctx, fi, cutter):
        a = actual(c, cutter, cutter.params()[0])
        src = reach.resolve(a, at=c) if a is not None else None
        while isinstance(src, ast.Call) and dotted(src.func) in (
                "set", "list", "frozenset", "tuple") and src.args:
            src = reach.resolve(src.args[0], at=c)
        how, ok = "?", False
        if isinstance(src, ast.Attribute) and src.attr == "edges_to_remove":
            how, ok = "the identified loop-back edges", True
        elif isinstance(src, (ast.SetComp, ast.ListComp, ast.GeneratorExp)):
            g = src.generators[0]
            it = unparse(g.iter)
            if f"{lp}.break_events" in it and "out_edges" in it:
                how, ok = "every out-edge of a break event", True
            else:
                outside = [t for t in g.ifs if canon_test(t)[0] == "cmp"
                           and canon_test(t)[2] == "NotIn"
                           and canon_test(t)[3] == f"{lp}.loop_events"]
                how = f"edges of {it[:50]} filtered by {[unparse(t) for t in g.ifs]}"
                ok = len(outside) == 1 and len(g.ifs) == 1
        rep.ob("R7.10", f"cut: {unparse(a)[:40]}", ok, fi=fi, node=c,
               detail=how + ("" if ok else " -- edges between two events of "
                             "the loop are cut although they are not "
                             "loop-back edges: an inner cycle disappears "
                             "instead of becoming a nested loop"))


# --------------------------------------------------------------------------
def r711(rep: Report, ctx: Ctx) -> None:
    """Exhaustiveness of the break handling when the parent graph is
    rewired: the break events are split between two handlers; the set given
    to the second must be the complement, within ``loop.break_events``, of
    the set given to the first - a break event handled by neither keeps no
    edge from the loop node, and everything behind it is pruned (events
    lost from the nesting)."""
    rep.rule("R7.11", "every break event of a loop is re-attached by exactly "
             "one of the two handlers (the second gets the complement of the "
             "first)", 1)
    fi = ctx.func("calculate_updated_graph_with_loop_event")
    reach = ctx.reach(fi)
    lp = fi.params()[0]
    h_end = ctx.func("update_graph_for_loop_end_events")
    h_brk = ctx.func("update_graph_for_break_events_with_path_to_root_event")
    firsts = []
    for c in calls_in(ctx, fi, h_end):
        a = actual(c, h_end, h_end.params()[0])
        if isinstance(a, ast.Name):
            firsts.append((c, a.id))     # the call that re-attaches breaks
    seconds = calls_in(ctx, fi, h_brk)
    ok, why = False, "handlers not found"
    if len(firsts) == 1 and len(seconds) == 1:
        a2 = actual(seconds[0], h_brk, h_brk.params()[0])
        v = reach.resolve(a2, at=seconds[0]) if a2 is not None else None
        ok = isinstance(v, ast.BinOp) and isinstance(v.op, ast.Sub) \
            and unparse(v.left) == f"{lp}.break_events" \
            and isinstance(v.right, ast.Name) and v.right.id == firsts[0][1]
        why = (f"first handler gets '{firsts[0][1]}', second gets "
               f"'{unparse(v)[:80]}'"
               + ("" if ok else " -- not the complement of the first "
                  "handler's set: a break event can be handled by neither "
                  "(or by both)"))
    rep.ob("R7.11", "break events are partitioned between the two handlers",
           ok, fi=fi, node=seconds[0] if seconds else fi.node, detail=why)
    exit_fanout_recorded(rep, ctx, "R7.11")


def exit_fanout_recorded(rep: Report, ctx: Ctx, rule: str) -> None:
    """(shared with C01)  The exit fan-out of the end events is recorded
    before the exit edges are cut (create_sub_graph_of_loop)."""
    # ---- the exit fan-out of the end events is recorded before the exit
    # ---- edges are cut (create_sub_graph_of_loop)
    sub = ctx.func("create_sub_graph_of_loop")
    rec = ctx.func("create_end_event_to_event_lists_mapping")
    cut = ctx.func("remove_loop_edges")
    add = ctx.func("add_start_and_end_events_to_graph")
    scfg = ctx.cfg(sub)
    rc, cc, ac = calls_in(ctx, sub, rec), calls_in(ctx, sub, cut), \
        calls_in(ctx, sub, add)
    ok = len(rc) == 1 and len(cc) == 1 and len(ac) == 1
    if ok:
        ok = scfg.dominates(scfg.container(rc[0]), scfg.container(cc[0]))
        a = actual(ac[0], add, "end_event_to_event_lists")
        src = ctx.reach(sub).resolve(a, at=ac[0]) if a is not None else None
        ok = ok and src is rc[0]
    rep.ob(rule, "the exit fan-out of the loop's end events is recorded "
           "before the exit edges are cut, and reaches the dummy end",
           ok, fi=sub, node=rc[0] if rc else sub.node,
           detail="create_end_event_to_event_lists_mapping(..) dominates "
                  "remove_loop_edges(..) and feeds "
                  "add_start_and_end_events_to_graph(end_event_to_event_"
                  "lists=..)" + ("" if ok else " -- taken after the cut the "
                                 "mapping is empty: the dummy end gets a "
                                 "single successor set and the branch count "
                                 "of the loop's exit is lost"))


# --------------------------------------------------------------------------
def _setnorm(s: str) -> str:
    """``frozenset(X.to_list())`` / ``set(X.to_list())`` == ``X.to_frozenset()``;
    a set built by ``set(..)`` / ``frozenset(..)`` over a generator == the
    set comprehension."""
    import re
    s = re.sub(r"^(?:frozen)?set\((.*)\.to_list\(\)\)$", r"\1.to_frozenset()",
               s)
    m = re.match(r"^(?:frozen)?set\(\((.*)\)\)$", s)
    if m:
        s = "{" + m.group(1) + "}"
    m = re.match(r"^(?:frozen)?set\(\[(.*)\]\)$", s)
    if m and " for.." in s:
        s = "{" + m.group(1) + "}"
    return s


def _evidence_writes(ctx: Ctx, fi: FuncInfo):
    """(method, receiver role, argument role, guards, call) of every
    ``update_event_sets`` / ``update_in_event_sets`` / ``add_edge`` call."""
    from ..roles import Roles
    R = Roles(ctx, fi)
    out = []
    for c in ast.walk(fi.node):
        if isinstance(c, ast.Call) and isinstance(c.func, ast.Attribute) \
                and c.func.attr in ("update_event_sets",
                                    "update_in_event_sets", "add_edge"):
            recv = R.of(c.func.value, c)
            side = list(R.side)
            args = []
            for a in c.args:
                args.append(R.of(a, c))
                side += R.side
            gs = []
            for g in R.guards(c) + side:
                if g[0] == "le":
                    g = ("le", _setnorm(g[1]), _setnorm(g[2]), g[3])
                if g not in gs:
                    gs.append(g)
            out.append((c.func.attr, recv, tuple(args), gs, c))
    return R, out


def loop_boundary_evidence(rep: Report, ctx: Ctx, rule: str) -> None:
    """(shared: R7.12 / R5.14)  The dummy start and end of a loop body stand
    for everything outside the loop.  The diagram builder derives the entry
    logic of the body from the *successor sets of the dummy start* and closes
    a fork that ends the body from the *predecessor sets of the dummy end*;
    both are copied from the loop's boundary in the parent graph:

    * dummy start: every successor set of every outside predecessor of the
      loop's start events that lies inside the start events' types, with its
      multiplicities (``to_list``);
    * dummy end: every predecessor set of every outside successor of each
      end event that lies inside the loop's types; an end event without an
      outside successor contributes itself;
    * wiring: start -> each loop start (which records the dummy start as a
      predecessor), each loop end -> end (which records the end's type as a
      predecessor set of the dummy end); an end event gets the recorded exit
      fan-out as successor sets, else the dummy end alone.

    A set that is not copied is a branch of the body that is never drawn
    (events vanish: C05 "names exactly the observed events", C01) or a fork
    without its ``end fork`` (C05 well-formedness)."""
    INS = "get_innodes_not_in_set(P:loop.start_events,P:loop.loop_events," \
          "P:graph)"
    OUTS = "get_outnodes_not_in_set({each(P:loop.end_events)}," \
           "P:loop.loop_events,P:graph)"
    ST_TYPES = "{each(P:loop.start_events).event_type for..}"
    LP_TYPES = "{each(P:loop.loop_events).event_type for..}"

    def describe(w) -> str:
        return f"{w[1]}.{w[0]}({', '.join(w[2])}) when {w[3]}"

    def expect(fi: FuncInfo, writes, what: str, method: str, recv: str,
               args: tuple[str, ...], must: list[tuple[str, ...]],
               may: list[tuple[str, ...]] = ()) -> None:
        hits = [w for w in writes if w[0] == method and w[1] == recv
                and w[2] == args]
        ok = len(hits) == 1
        why = f"{len(hits)} statement(s) {recv}.{method}({', '.join(args)})"
        if ok:
            gs = hits[0][3]
            ok = all(m in gs for m in must) and all(
                g in must or g in may for g in gs)
            why = f"runs when {gs or 'always'}; required {must or 'always'}"
        else:
            why += "; evidence writes of the function: " + "; ".join(
                describe(w) for w in writes if w[0] == method)[:400]
        rep.ob(rule, what, ok, fi=fi, node=hits[0][4] if hits else fi.node,
               detail=why)

    def fresh_dummy(fi: FuncInfo, R, const: str) -> None:
        rets = [r for r in ast.walk(fi.node) if isinstance(r, ast.Return)]
        vals = {R.of(r.value, r) if r.value is not None else "None"
                for r in rets}
        ctors = [c for c in ast.walk(fi.node) if isinstance(c, ast.Call)
                 and call_name(c) == "Event"]
        ok = vals == {f"Event({const})"} and len(ctors) == 1
        rep.ob(rule, f"{fi.name} returns the one fresh Event({const}) it "
               "builds", ok, fi=fi, node=rets[0] if rets else fi.node,
               detail=f"returns {sorted(vals)}; {len(ctors)} Event(..) "
                      "constructor call(s)")

    def only(fi: FuncInfo, writes, recv: str, n: int) -> None:
        mine = [w for w in writes if w[1] == recv and w[0] != "add_edge"]
        rep.ob(rule, f"{fi.name}: no other evidence is written on {recv}",
               len(mine) == n, fi=fi,
               node=mine[-1][4] if mine else fi.node,
               detail="; ".join(describe(w) for w in mine)[:400])

    # ---- dummy start
    cs = ctx.func("create_start_event")
    R, ws = _evidence_writes(ctx, cs)
    fresh_dummy(cs, R, "DUMMY_START_EVENT")
    src = f"each(each({INS}).event_sets)"
    expect(cs, ws, "dummy start mirrors every successor set (with "
           "multiplicities) of every outside predecessor that stays within "
           "the loop's start types", "update_event_sets",
           "Event(DUMMY_START_EVENT)", (f"{src}.to_list()",),
           [("le", f"{src}.to_frozenset()", ST_TYPES, "1")],
           [("truth", INS, "1")])
    only(cs, ws, "Event(DUMMY_START_EVENT)", 1)
    # ---- dummy end
    ce = ctx.func("create_end_event")
    R, ws = _evidence_writes(ctx, ce)
    fresh_dummy(ce, R, "DUMMY_END_EVENT")
    src = f"each(each({OUTS}).in_event_sets)"
    expect(ce, ws, "dummy end mirrors every predecessor set (with "
           "multiplicities) of every outside successor of each end event "
           "that stays within the loop's types", "update_in_event_sets",
           "Event(DUMMY_END_EVENT)", (f"{src}.to_list()",),
           [("le", f"{src}.to_frozenset()", LP_TYPES, "1")],
           [("truth", OUTS, "1")])
    # (the fallback "an end event without an outside successor contributes
    # itself" is NOT an obligation: add_end_event_to_graph adds the same
    # singleton set for every end event anyway - triaged as redundant by
    # construction, DESIGN section 12)
    extra = [w for w in ws if w[1] == "Event(DUMMY_END_EVENT)"
             and w[0] != "add_edge" and w[2] not in (
                 (f"{src}.to_list()",),
                 ("[each(P:loop.end_events).event_type]",))]
    rep.ob(rule, f"{ce.name}: no other evidence is written on the dummy "
           "end", not extra, fi=ce,
           node=extra[0][4] if extra else ce.node,
           detail="; ".join(describe(w) for w in extra)[:300] or
           "only the mirrored sets (and the redundant singleton fallback)")
    # ---- wiring
    a_s = ctx.func("add_start_event_to_graph")
    R, ws = _evidence_writes(ctx, a_s)
    expect(a_s, ws, "edge dummy start -> every loop start event", "add_edge",
           "P:graph", ("P:start_event", "each(P:loop.start_events)"), [])
    # ("every loop start event records the dummy start as a predecessor" is
    # NOT an obligation: no later phase can read that set - triaged with 42
    # hand-made shapes and 460 random families, DESIGN section 12)
    a_e = ctx.func("add_end_event_to_graph")
    R, ws = _evidence_writes(ctx, a_e)
    import re

    def m_norm(s):
        if isinstance(s, tuple):
            return tuple(m_norm(x) for x in s)
        return re.sub(r"phi\(P:end_event_to_event_lists\|\{\}\)|"
                      r"\(P:end_event_to_event_lists Or \{\}\)|"
                      r"P:end_event_to_event_lists", "M", s)
    ws = [(w[0], m_norm(w[1]), tuple(m_norm(a) for a in w[2]),
           [tuple(m_norm(x) for x in g) for g in w[3]], w[4]) for w in ws]
    ends = "each(P:loop.end_events)"
    expect(a_e, ws, "edge every loop end event -> dummy end", "add_edge",
           "P:graph", (ends, "P:end_event"), [])
    expect(a_e, ws, "the dummy end records every loop end event as a "
           "predecessor set", "update_in_event_sets", "P:end_event",
           (f"[{ends}.event_type]",), [])
    look = [f"M.get({ends},[])", f"M[{ends}]", f"M.get({ends})"]
    hits = [w for w in ws if w[0] == "update_event_sets" and w[1] == ends]
    fan = [w for w in hits if w[2] in ((f"each(M[{ends}])",),
                                       (f"each(M.get({ends},[]))",))]
    alone = [w for w in hits if w[2] == ("[DUMMY_END_EVENT]",)]
    ok = len(hits) == 2 and len(fan) == 1 and len(alone) == 1
    why = "; ".join(describe(w) for w in hits)[:400]
    if ok:
        ga, gf = alone[0][3], fan[0][3]
        ok = len(ga) == 1 and ga[0][0] == "truth" and ga[0][1] in look \
            and ga[0][2] == "0" and all(
                g[0] == "truth" and g[1] in look and g[2] == "1" for g in gf)
    rep.ob(rule, "an end event gets every recorded exit successor set, and "
           "the dummy end alone exactly when nothing was recorded for it",
           ok, fi=a_e, node=hits[0][4] if hits else a_e.node, detail=why)


def r712(rep: Report, ctx: Ctx) -> None:
    rep.rule("R7.12", "the dummy start / end of a loop body carry the "
             "evidence of the loop's boundary in the parent graph", 10)
    loop_boundary_evidence(rep, ctx, "R7.12")


# --------------------------------------------------------------------------
def parent_rewiring(rep: Report, ctx: Ctx, rule: str) -> None:
    """(shared: R7.13 / R1.14)  When a loop is replaced by its loop node the
    parent graph keeps two structures in step: the edges and the successor /
    predecessor *sets* of the events at the loop's boundary.  For every
    boundary the three handlers must (1) rewrite the sets of every outside
    neighbour -- the loop's types replaced by the loop node's type -- read
    and written in the same direction, computed *before* the old edges (and
    with them the old types) are removed, (2) remove exactly the boundary
    edges together with the sets that mirror them, (3) add the edge to /
    from the loop node in the right direction.  A set that is not rewritten
    is a successor the diagram never draws after the loop (C01: the job is
    rejected; C07: the nesting is incomplete); an edge in the wrong
    direction re-creates a cycle."""
    from .effspec import before, effects, expect
    LWL = "get_event_lists_with_loop_events"
    OVL = "get_event_types_and_event_sets_overlap"

    def handler(fname: str, bset: str, helper: str, sets: str, upd: str,
                edge_out_first: bool, removes: bool) -> None:
        fi = ctx.func(fname)
        effs = effects(ctx, fi)
        nb = f"each({helper}(P:{bset},P:loop_events,P:graph))"
        types = f"{{each(P:{bset}).event_type for..}}"
        w = expect(
            rep, rule, fi, effs,
            f"{fname}: every outside neighbour's {sets} are rewritten with "
            "the loop node's type (same direction read and written)",
            name=upd, recv=nb,
            args=(f"each({LWL}({nb}.{sets},{OVL}({nb}.{sets},{types}),"
                  "P:loop_event.event_type))",),
            why="the neighbour keeps sets that name events which no longer "
                "exist in the parent graph, or gets them in the wrong "
                "direction")
        e_args = (nb, "P:loop_event") if edge_out_first else \
            ("P:loop_event", nb)
        expect(rep, rule, fi, effs,
               f"{fname}: edge between every outside neighbour and the loop "
               "node, in the direction of the boundary", name="add_edge",
               recv="P:graph", args=e_args)
        if removes:
            pair = (nb, f"each(P:{bset})") if edge_out_first else \
                (f"each(P:{bset})", nb)
            es = f"{{EventEdge({pair[0]},{pair[1]}) for.. if (({pair[0]}," \
                 f"{pair[1]}) In P:graph.edges)}}"
            es2 = f"{{EventEdge({pair[0]},{pair[1]}) for..}}"
            r = expect(rep, rule, fi, effs,
                       f"{fname}: exactly the boundary edges are removed, "
                       "with the sets that mirror them",
                       name="remove_event_edges_and_event_sets",
                       args=(es, "P:graph"), alt_args=[(es2, "P:graph")])
            if w is not None and r is not None:
                rep.ob(rule, f"{fname}: the sets are rewritten before the "
                       "boundary edges (and the types they mirror) are "
                       "removed", before(ctx, fi, w.node, r.node), fi=fi,
                       node=r.node,
                       detail="the rewrite reads the neighbour's sets for "
                              "the loop's types; after the removal they are "
                              "gone and nothing is rewritten")

    handler("update_graph_for_loop_start_events", "start_events",
            "get_innodes_not_in_set", "event_sets", "update_event_sets",
            True, True)
    # (the end handler's own removal of the boundary edges is NOT an
    # obligation: the next statement of the orchestration removes every
    # out-edge of the loop's events with its mirror sets anyway, and for the
    # unreachable break events every stale set is shadowed by its rewritten
    # twin - triaged, DESIGN section 15)
    handler("update_graph_for_loop_end_events", "end_events",
            "get_outnodes_not_in_set", "in_event_sets",
            "update_in_event_sets", False, False)
    handler("update_graph_for_break_events_with_path_to_root_event",
            "break_events", "get_outnodes_not_in_set", "in_event_sets",
            "update_in_event_sets", False, False)
    # ---- the two-structure removal
    fi = ctx.func("remove_event_sets_mirroring_removed_edges")
    effs = effects(ctx, fi)
    fields = [n for n, _ in ctx.index.cls("EventEdge").fields()]
    ok = fields[:2] == ["out_event", "in_event"]
    rep.ob(rule, "EventEdge is (out_event, in_event)", ok, fi=fi,
           node=fi.node, detail=f"fields {fields}")

    def idx(s: str) -> str:
        return s.replace(".out_event", "[0]").replace(".in_event", "[1]")
    for e in effs:
        e.recv, e.args = idx(e.recv), tuple(idx(a) for a in e.args)
    ed = "each(P:event_edges)"
    expect(rep, rule, fi, effs, "a removed edge's head type leaves the "
           "successor sets of its tail", name="remove_event_type_from_"
           "event_sets", recv=f"{ed}[0]", args=(f"{ed}[1].event_type",))
    expect(rep, rule, fi, effs, "a removed edge's tail type leaves the "
           "predecessor sets of its head", name="remove_event_type_from_in_"
           "event_sets", recv=f"{ed}[1]", args=(f"{ed}[0].event_type",))
    fi = ctx.func("remove_event_edges_and_event_sets")
    effs = effects(ctx, fi)
    expect(rep, rule, fi, effs, "edges are removed from the graph",
           name="remove_edges_from", recv="P:graph", args=("P:event_edges",))
    expect(rep, rule, fi, effs, "and the same edges from the sets",
           name="remove_event_sets_mirroring_removed_edges",
           args=("P:event_edges",))
    # ---- what a rewritten set is
    fi = ctx.func("get_event_list_with_loop_event_from_event_list")
    effs = effects(ctx, fi)
    pre = ("truth", "P:event_types.intersection(P:event_list)", "1")
    el = "each(P:event_list)"
    expect(rep, rule, fi, effs, "types outside the loop are kept, with "
           "their multiplicity", name="append", recv="[]", args=(el,),
           must=[("cmp", el, "In", "P:event_types", "0")], may=[pre])
    expect(rep, rule, fi, effs, "branch evidence: each occurrence of a loop "
           "type becomes one occurrence of the loop node's type",
           name="append", recv="[]", args=("P:loop_event_type",),
           must=[("cmp", el, "In", "P:event_types", "1"),
                 ("truth", "P:is_branch", "1")], may=[pre],
           select=lambda e: any(g[0] == "cmp" for g in e.guards))
    loop_once = [e for e in effs if e.kind == "call" and e.name == "append"
                 and e.args == ("P:loop_event_type",)
                 and ("truth", "P:is_branch", "0") in e.guards
                 and not any(g[0] == "cmp" for g in e.guards)]
    rep.ob(rule, "no branch evidence: all loop types together become one "
           "occurrence of the loop node's type", len(loop_once) == 1, fi=fi,
           node=loop_once[0].node if loop_once else fi.node,
           detail="; ".join(e.show() for e in effs if e.name == "append"
                            )[:500])
    fi = ctx.func("get_event_lists_with_loop_events")
    effs = effects(ctx, fi)
    src = "get_event_list_from_event_sets_intersecting_with_event_types_" \
          "set(P:event_sets,P:event_types)"
    br = "check_eventsets_indicate_branch_for_set_of_event_types(" \
         "P:event_sets,P:event_types)"
    inner = "get_event_lists_with_loop_events_from_event_lists"
    expect(rep, rule, fi, effs, "every set that touches the loop's types is "
           "rewritten, with the branch evidence of these same sets",
           kind="ret", name="",
           args=(f"{inner}(list({src}),P:loop_event_type,P:event_types,{br})",),
           alt_args=[(f"{inner}([each({src}) for..],P:loop_event_type,"
                      f"P:event_types,{br})",)])
    fi = ctx.func(inner)
    effs = effects(ctx, fi)
    one = "get_event_list_with_loop_event_from_event_list(each(" \
          "P:event_lists),P:loop_event_type,P:event_types,P:is_branch)"
    if any(e.kind == "call" and e.name == "append" for e in effs):
        # accumulate form: result.append(rewrite(each list)); return result
        expect(rep, rule, fi, effs, "each list is rewritten on its own",
               name="append", recv="[]", args=(one,))
    else:
        expect(rep, rule, fi, effs, "each list is rewritten on its own",
               kind="ret", name="", args=(f"[{one} for..]",))
    fi = ctx.func("get_event_list_from_event_sets_intersecting_with_event_"
                  "types_set")
    effs = effects(ctx, fi)
    expect(rep, rule, fi, effs, "the sets that touch the loop's types, with "
           "multiplicities", kind="yield", name="",
           args=("each(P:event_sets).to_list()",),
           must=[("truth", "P:event_types.intersection(each(P:event_sets)."
                  "to_list())", "1")])
    fi = ctx.func(OVL)
    effs = effects(ctx, fi)
    expect(rep, rule, fi, effs, "overlap = the given types that occur in "
           "some set", kind="ret", name="",
           args=("P:event_types.intersection((each(each(P:event_sets)."
                 "to_frozenset()) for..))",),
           alt_args=[("P:event_types.intersection({each(each(P:event_sets)."
                      "to_frozenset()) for..})",),
                     ("P:event_types.intersection((each(each(P:event_sets))"
                      " for..))",)])


def rewiring_order(rep: Report, ctx: Ctx, rule: str) -> None:
    """The orchestration of the rewiring: both boundary handlers run while
    the loop's events are still in the graph (they read its edges), then the
    remaining out-edges of the loop's events are removed *with* their mirror
    sets, then the nodes; the root is identified before anything is
    rewired."""
    from .effspec import before, effects, expect
    fi = ctx.func("calculate_updated_graph_with_loop_event")
    effs = effects(ctx, fi)
    common = ("P:loop.loop_events", "P:loop_event", "P:graph")
    s1 = expect(rep, rule, fi, effs, "the start boundary is rewired",
                name="update_graph_for_loop_start_events",
                args=("P:loop.start_events",) + common)
    s2 = expect(rep, rule, fi, effs, "the end boundary is rewired",
                name="update_graph_for_loop_end_events",
                args=("P:loop.end_events",) + common)
    s3 = expect(rep, rule, fi, effs, "every remaining edge out of the "
                "loop's events is removed together with its mirror sets",
                name="remove_event_edges_and_event_sets",
                args=("{EventEdge(*each(P:graph.out_edges(P:loop.loop_events"
                      "))) for..}", "P:graph"))
    s4 = expect(rep, rule, fi, effs, "the loop's events leave the parent",
                name="remove_nodes_from", recv="P:graph",
                args=("P:loop.loop_events",))
    chain = [("start boundary", s1), ("end boundary", s2),
             ("edge + mirror-set removal", s3), ("node removal", s4)]
    for (na, a), (nb, b) in ((chain[0], chain[2]), (chain[1], chain[2]),
                             (chain[2], chain[3])):
        if a is not None and b is not None:
            rep.ob(rule, f"{na} happens before {nb}",
                   before(ctx, fi, a.node, b.node), fi=fi, node=b.node,
                   detail="the handlers read the loop's edges; removing "
                          "nodes first drops the edges without their mirror "
                          "sets")
    # both break handlers run before what the root no longer reaches is
    # pruned: a break event that is only reachable through the loop is
    # re-attached behind the loop node by them - pruned first, its
    # continuation is lost from the nesting (networkx returns no out-edges
    # for a node that is gone)
    prune = [e for e in effs if e.kind == "call"
             and e.name == "remove_nodes_without_path_back_to_loop"]
    for hn in ("update_graph_for_loop_end_events",
               "update_graph_for_break_events_with_path_to_root_event"):
        hs = [e for e in effs if e.kind == "call" and e.name == hn]
        ok = len(prune) == 1 and bool(hs) and all(
            before(ctx, fi, h.node, prune[0].node) for h in hs)
        rep.ob(rule, f"every {hn} call happens before the unreachable "
               "remainder is pruned", ok, fi=fi,
               node=prune[0].node if prune else fi.node,
               detail=f"{len(hs)} handler call(s), {len(prune)} pruning "
                      "call(s)")
    # root: the in-degree-0 node, taken before any rewiring
    roots = [b for b in ctx.defs(fi).bindings.values() for b in b
             if b.kind == "assign" and b.value is not None and any(
                 isinstance(c, ast.Call) and call_name(c) == "in_degree"
                 for c in ast.walk(b.value))]
    ok = len(roots) == 1 and s1 is not None and before(
        ctx, fi, roots[0].stmt, s1.node)
    rep.ob(rule, "the root is identified before the graph is rewired",
           ok, fi=fi, node=roots[0].stmt if roots else fi.node,
           detail="in-degree 0 is evaluated on the graph as given; after "
                  "the rewiring other nodes may have lost their "
                  "predecessors")


def loop_orchestration(rep: Report, ctx: Ctx, rule: str) -> None:
    """detect_loops, per cyclic component: classify on the graph as it is
    now, replace the break events that touch the exit by dummy breaks, THEN
    carve the body (the body must contain the dummy breaks)."""
    from .effspec import before, effects, expect
    fi = ctx.func("detect_loops")
    effs = effects(ctx, fi, names={
        "calc_components_of_loop", "create_sub_graph_of_loop",
        "filter_and_replace_breaks_connected_to_end_events"})
    SCC = "each(strongly_connected_components(P:graph))"
    # (the iterable of a `for` is evaluated once, before the loop; when it
    # is written in the loop header itself the role engine describes the
    # graph in it as loop-carried - same thing here)
    SCC2 = "each(strongly_connected_components(state(P:graph)))"
    G = "state(P:graph)"
    LOOP = f"calc_components_of_loop({SCC},{G})"
    LOOP2 = f"calc_components_of_loop({SCC2},{G})"
    c1 = expect(rep, rule, fi, effs, "the components are classified on the "
                "graph the previous iteration left", kind="call",
                name="calc_components_of_loop", args=(SCC, G),
                alt_args=[(SCC2, G)], any_guard=True)
    c2 = expect(rep, rule, fi, effs, "break events that touch the loop's "
                "exit are replaced by dummy breaks, in that graph", kind="call",
                name="filter_and_replace_breaks_connected_to_end_events",
                args=(G, LOOP), alt_args=[(G, LOOP2)], any_guard=True)
    c3 = expect(rep, rule, fi, effs, "the body is carved out of that graph",
                kind="call", name="create_sub_graph_of_loop", args=(LOOP, G),
                alt_args=[(LOOP2, G)], any_guard=True)
    if c2 is not None and c3 is not None:
        rep.ob(rule, "dummy breaks are inserted before the body is carved "
               "(they are part of the body)",
               before(ctx, fi, c2.node, c3.node), fi=fi, node=c3.node,
               detail="create_sub_graph_of_loop works on a deep copy taken "
                      "when it is called")


def r713(rep: Report, ctx: Ctx) -> None:
    rep.rule("R7.13", "parent rewiring keeps edges and successor / "
             "predecessor sets of the loop boundary in step", 18)
    parent_rewiring(rep, ctx, "R7.13")
    rewiring_order(rep, ctx, "R7.13")
    loop_orchestration(rep, ctx, "R7.13")


def r714(rep: Report, ctx: Ctx) -> None:
    """The loop node stands for the whole loop in the parent graph: its
    predecessor sets are the start events' sets that lie outside the loop,
    its successor sets those of the end *and* break events."""
    from .loopspec import check_table
    rep.rule("R7.14", "the loop node inherits the outside evidence of the "
             "loop's start, end and break events", 8)
    check_table(rep, ctx, "R7.14", [
        "create_loop_event", "update_loop_event_in_event_sets",
        "update_loop_event_out_event_sets",
        "get_loop_in_event_lists_not_within_loop",
        "get_loop_out_event_lists_not_within_loop",
        "get_event_lists_to_add_from_event_not_within_loop"])


def pruned_set_is_final(rep: Report, ctx: Ctx, rule: str) -> None:
    """What is pruned from the body is exactly "cannot get back into the
    loop": the set handed to remove_nodes_from is not added to after it is
    computed (seed C07-x: dead-end events behind a break branch were added -
    they exist only in the body, so their types vanish from the nesting)."""
    from .effspec import effects, mutated_locals
    fi = ctx.func("create_sub_graph_of_loop")
    rm = [e for e in effects(ctx, fi) if e.kind == "call"
          and e.name == "remove_nodes_from"]
    muts = [m for e in rm for a in e.node.args  # type: ignore[attr-defined]
            for m in mutated_locals(fi, a)]
    rep.ob(rule, "create_sub_graph_of_loop: the set of events pruned from "
           "the body is not extended after it is computed", bool(rm) and not
           muts, fi=fi, node=muts[0][1] if muts else fi.node,
           detail=(f"'{muts[0][0]}' is modified in place: "
                   f"{unparse(muts[0][1])[:80]}" if muts else
                   f"{len(rm)} pruning call(s), argument computed once"))


def r715(rep: Report, ctx: Ctx) -> None:
    from .loopspec import check_table
    rep.rule("R7.15", "carving the body: exit, break and loop-back edges "
             "are cut, the dummies are wired, the exit fan-out is recorded "
             "per end event, events that cannot get back are pruned", 7)
    check_table(rep, ctx, "R7.15", [
        "remove_loop_edges", "add_start_and_end_events_to_graph",
        "create_end_event_to_event_lists_mapping",
        "create_sub_graph_of_loop"])
    pruned_set_is_final(rep, ctx, "R7.15")


def r716(rep: Report, ctx: Ctx) -> None:
    """A break event that shares its successor with the loop's normal exit
    (it is directly before the dummy end, or it is itself an exit of *some*
    end event) cannot be told from the exit once the loop is a node: a dummy
    break is put between every in-loop predecessor and the break event, on
    both structures (edges and sets), and the original break event stops
    being one.  Otherwise the event stays a break leaf in the body *and* is
    re-attached behind the loop node: it appears twice in the nesting."""
    from .effspec import before, effects, expect
    rep.rule("R7.16", "break events connected to the loop's exit are "
             "replaced by dummy breaks, on edges and sets alike", 10)
    fi = ctx.func("filter_and_replace_breaks_connected_to_end_events")
    effs = effects(ctx, fi)
    B = "each(P:loop.break_events)"
    PRED = f"each(P:graph.predecessors({B}))"
    DUMMY = "Event(DUMMY_BREAK_EVENT_TYPE)"
    trig = ("any", tuple(sorted([
        ("cmp", B, "In", "get_outnodes_not_in_set(P:loop.end_events,"
         "P:loop.loop_events,P:graph)", "1"),
        ("truth", f"any(((DUMMY_END_EVENT Eq each(P:graph.successors({B}))"
         ".event_type) for..))", "1")])), "1")
    # the predecessor is an event of the loop that is not an end event (the
    # reachability test of the pinned tree is implied for such an event and
    # may stay)
    reach = ("truth", f"has_path_back_to_chosen_nodes({PRED},P:loop."
             "loop_events.difference(P:loop.end_events),P:graph)", "1")
    inner = [("cmp", PRED, "In", "P:loop.end_events", "0"),
             ("cmp", PRED, "In", "P:loop.loop_events", "1")]
    expect(rep, "R7.16", fi, effs, "a break event that is an exit of SOME "
           "end event (or directly before the dummy end) stops being a "
           "break event - once a dummy break has taken its place", name="remove",
           recv="P:loop.break_events",
           args=(B,), must=[trig, ("cmp", DUMMY, "In", "P:loop.break_events",
                                   "1")],
           why="the trigger must quantify existentially over the end "
               "events: with several end events of which only some lead to "
               "the exit the break event is otherwise kept as a leaf of the "
               "body and also re-attached behind the loop node; and a break "
               "event none of whose predecessors is an inner event of the "
               "loop gets no dummy break - dropping it then loses the only "
               "path to what follows it (defect D11)")
    from .util import resized_while_iterated
    bad = resized_while_iterated(ctx, fi)
    rep.ob("R7.16", "the set of break events is not resized while it is "
           "iterated", not bad, fi=fi, node=bad[0][1] if bad else fi.node,
           detail=(f"{bad[0][2]} inside `for .. in "
                   f"{unparse(bad[0][0].iter)}`: a break event that is "
                   "dropped without a replacement changes the size of the "
                   "set and the next step of the iteration raises "
                   "RuntimeError; one that is replaced makes the visiting "
                   "order depend on where the new element lands (defect D11)"
                   if bad else "the loop runs over a snapshot of the set"))
    both = [trig] + inner
    LWL = "get_event_lists_with_loop_events"
    OVL = "get_event_types_and_event_sets_overlap"
    w = expect(rep, "R7.16", fi, effs, "the in-loop predecessor's successor "
               "sets name the dummy break instead of the break event",
               name="update_event_sets", recv=PRED,
               args=(f"each({LWL}({PRED}.event_sets,{OVL}({PRED}.event_sets,"
                     f"{{{B}.event_type}}),DUMMY_BREAK_EVENT_TYPE))",),
               must=both, may=[reach])
    r = expect(rep, "R7.16", fi, effs, "the edge predecessor -> break event "
               "is removed with its mirror sets",
               name="remove_event_edges_and_event_sets",
               args=(f"{{EventEdge({PRED},{B})}}", "P:graph"), must=both, may=[reach])
    calls = [c for c in ast.walk(fi.node) if isinstance(c, ast.Call)
             and call_name(c) == LWL]
    if len(calls) == 1 and r is not None:
        rep.ob("R7.16", "the rewritten sets are computed before the edge "
               "(and the type it mirrors) is removed",
               before(ctx, fi, calls[0], r.node), fi=fi, node=calls[0],
               detail="after the removal the predecessor's sets no longer "
                      "name the break event: nothing would be rewritten")
    expect(rep, "R7.16", fi, effs, "the dummy break's successor set is the "
           "break event", name="update_event_sets", recv=DUMMY,
           args=(f"[{B}.event_type]",), must=both, may=[reach])
    expect(rep, "R7.16", fi, effs, "the dummy break inherits the break "
           "event's predecessor sets that name this predecessor",
           name="update_in_event_sets", recv=DUMMY,
           args=(f"each({B}.in_event_sets).to_list()",),
           must=both + [("cmp", f"{PRED}.event_type", "In",
                         f"each({B}.in_event_sets).to_frozenset()", "1")],
           may=[reach])
    # ("the break event records the dummy break as a predecessor" is NOT an
    # obligation: the singleton set {DUMMY_BREAK} cannot decide any merge
    # and no nested reader matches it - triaged, DESIGN section 15)
    expect(rep, "R7.16", fi, effs, "edge predecessor -> dummy break",
           name="add_edge", recv="P:graph", args=(PRED, DUMMY), must=both, may=[reach])
    expect(rep, "R7.16", fi, effs, "edge dummy break -> break event",
           name="add_edge", recv="P:graph", args=(DUMMY, B), must=both, may=[reach])
    expect(rep, "R7.16", fi, effs, "the dummy break becomes a break event "
           "of the loop", name="add", recv="P:loop.break_events",
           args=(DUMMY,), must=both, may=[reach])
    # the dummy break stands for `break` INSIDE the body: it may only be put
    # behind an event of the loop.  "Reachable from the loop" is not enough -
    # an event on a break path (outside the loop) is reachable too, and a
    # dummy break behind it stays in the parent graph: `break` outside any
    # repeat, followed by the rest of the branch (defect D9)
    ins = [e for e in effs if e.kind == "call" and e.name == "add_edge"
           and e.args == (PRED, DUMMY)]
    member = [g for e in ins for g in e.guards if g[0] == "cmp"
              and g[1] == PRED and g[2] == "In" and g[4] == "1"
              and g[3].startswith("P:loop.loop_events")]
    rep.ob("R7.16", "a dummy break is only put behind an event OF the loop",
           len(ins) == 1 and bool(member), fi=fi,
           node=ins[0].node if ins else fi.node,
           detail=(f"edge {PRED} -> dummy break runs when "
                   f"{[g for g in ins[0].guards if g != trig] if ins else '?'}"
                   + ("" if member else " -- no condition restricts the "
                      "predecessor to loop.loop_events: a predecessor on a "
                      "break path gets a dummy break that is drawn as "
                      "`break` outside the repeat")))
    ctors = [c for c in ast.walk(fi.node) if isinstance(c, ast.Call)
             and call_name(c) == "Event"]
    ok = len(ctors) == 1
    if ok:
        from ..roles import Roles
        gs = Roles(ctx, fi).guards(ctors[0])
        from .effspec import _norm_guard, nx_norm
        gs = [_norm_guard(g, nx_norm) for g in gs]
        ok = gs == [trig]
    rep.ob("R7.16", "one dummy break per replaced break event (shared by "
           "its predecessors)", ok, fi=fi,
           node=ctors[0] if ctors else fi.node,
           detail=f"{len(ctors)} Event(..) constructor call(s), created "
                  "once per triggering break event")


# functions that change a model graph without touching the mirror sets, each
# confirmed by reading (one line of reason per exception)
UNMIRRORED_OK = {
    "add_start_event_to_graph":
        "the successor sets of the dummy start are written by "
        "create_start_event (R7.12); the predecessor set {dummy start} on "
        "the loop's start events is read by no later phase (triaged)",
    "get_disconnected_loop_sub_graph":
        "removes the other weakly connected components: no edge joins them "
        "to the component that is kept, so no kept event names them",
}


def r717(rep: Report, ctx: Ctx) -> None:
    """Who may change a model graph?  The graph of Event objects and the
    successor / predecessor sets of those events describe the same relation;
    every phase after loop extraction reads the SETS (gate inference, merge
    validation, the dummies of a nested loop), so an edge added or removed
    without its mirror leaves evidence that no longer matches the graph.
    Every structural mutation on a model graph (a graph parameter or the
    deep copy of one - not a scratch graph built or copied locally) in the
    loop-detection package and the helpers it calls must have its mirror in
    the same function: an added edge a -> b comes with a.update_event_sets
    or b.update_in_event_sets; edges are removed only by the two-structure
    helper.  (Node removal is NOT covered: stale predecessor sets of removed
    nodes were triaged as harmless, DESIGN section 9.)"""
    from .effspec import effects
    rep.rule("R7.17", "every edge added to or removed from a model graph is "
             "mirrored on the successor / predecessor sets in the same "
             "function", 9)
    MUT = {"add_edge", "remove_edge", "remove_edges_from", "remove_node",
           "remove_nodes_from", "add_edges_from"}
    sites = 0
    for fi in ctx.index.all_functions():
        rel = fi.module.relpath
        if not ("loop_detection" in rel or rel.endswith("utils.py")):
            continue
        effs = effects(ctx, fi)
        for e in [x for x in effs if x.kind == "call" and x.name in MUT]:
            recv = e.recv
            scratch = not (recv.startswith("P:") or recv.startswith(
                "deepcopy(")) or ".copy()" in recv or ".subgraph(" in recv
            if scratch:
                continue
            sites += 1
            if fi.name in UNMIRRORED_OK:
                rep.ob("R7.17", f"{fi.name}: {e.name} without mirror "
                       "(listed exception)", True, fi=fi, node=e.node,
                       detail=UNMIRRORED_OK[fi.name])
                continue
            ok, why = False, ""
            if e.name == "add_edge" and len(e.args) == 2:
                a, b = e.args
                comp = [x for x in effs if x.kind == "call" and (
                    (x.name == "update_event_sets" and x.recv == a) or
                    (x.name == "update_in_event_sets" and x.recv == b))]
                ok = bool(comp)
                why = (f"edge {a[:60]} -> {b[:60]}; evidence written in the "
                       "same function: " + ("; ".join(
                           f"{x.recv[:40]}.{x.name}" for x in comp) or
                           "NONE - the new edge is invisible to gate "
                           "inference and merge validation"))
            elif e.name in ("remove_edges_from", "remove_edge"):
                comp = [x for x in effs if x.kind == "call" and x.name ==
                        "remove_event_sets_mirroring_removed_edges"
                        and x.args[:1] == e.args[:1]]
                ok = bool(comp)
                why = ("edges removed; mirror call on the same edges: "
                       + ("yes" if ok else "NONE - the sets keep naming "
                          "neighbours that are gone"))
            elif e.name in ("remove_nodes_from", "remove_node"):
                # not an obligation: a removed node's type left in the
                # predecessor sets of a surviving successor was triaged as
                # harmless (D8: 18 000 random job families, 8 377 reach the
                # state, no output differs; a second differential run
                # without the mirror removal in create_sub_graph_of_loop:
                # 2 000 families, none differs) - see DESIGN section 9
                rep.analysed.setdefault("unmirrored_node_removals", []
                                        ).append(fi.qualname)
                continue
            rep.ob("R7.17", f"{fi.name}: {e.name} is mirrored", ok, fi=fi,
                   node=e.node, detail=why)
    rep.analysed["graph_mutation_sites"] = sites


def r718(rep: Report, ctx: Ctx) -> None:
    """Two loop nodes of one level must not share a name: events are keyed by
    type everywhere (sets, node map, diagram references).  Earlier loop nodes
    can be absorbed into a later loop's body and pruned from the parent, so
    the count of loop nodes present is not a fresh number - only "highest
    number in use + 1" is."""
    from .effspec import effects
    rep.rule("R7.18", "a new loop node is named after the highest loop number "
             "in use in the parent graph, plus one", 1)
    fi = ctx.func("get_new_loop_event_type_from_graph")
    rets = [e for e in effects(ctx, fi) if e.kind == "ret"]
    role = rets[0].args[0] if len(rets) == 1 else ""
    num = "int(each(P:graph.nodes).event_type.split('_')[1])"
    ok = role.startswith("f'{LOOP_EVENT_TYPE}_{(") and role.endswith(
        " Add 1)}'") and "max(" in role and num in role and not any(
        t in role for t in ("len(", "sum(", "count("))
    rep.ob("R7.18", "fresh loop name = LOOP_<max existing number + 1>", ok,
           fi=fi, node=rets[0].node if rets else fi.node,
           detail=f"returns {role[:260]}" + ("" if ok else
           " -- not derived from the maximum number in use: after an "
           "earlier loop node was absorbed and pruned, the next loop of the "
           "level gets a name that is already taken"))


def r719(rep: Report, ctx: Ctx) -> None:
    """What is start / end / break of a loop is decided by looking OUTSIDE
    the component as well: boundary edges, and which successors of a loop
    member are reached together with one inside the loop (an AND fork with
    one branch leaving the loop is not a break).  The classifier therefore
    gets the whole graph and the overlap map of the whole graph; on the
    sub graph of the component every edge that leaves the loop is gone."""
    from .effspec import effects, expect
    rep.rule("R7.19", "the loop-component classifier sees the whole graph "
             "and its overlap map", 1)
    fi = ctx.func("calc_components_of_loop")
    effs = effects(ctx, fi)
    g = "calc_components_of_loop_generic(P:scc_events,P:graph," \
        "get_event_to_over_lapping_events_map(P:graph))"
    expect(rep, "R7.19", fi, effs, "Loop(component, start, end, break, "
           "loop-back edges) from the classifier run on (component, whole "
           "graph, overlap map of the whole graph)", kind="ret", name="",
           args=(f"Loop(P:scc_events,{g}[0],{g}[1],{g}[2],"
                 f"{{EventEdge(*each({g}[3])) for..}})",),
           why="on graph.subgraph(component) the edges that leave the loop "
               "are missing: an AND fork with one branch outside the loop "
               "becomes a break-out node and its successors appear both "
               "inside and outside the loop node")


def overlap_map(rep: Report, ctx: Ctx, rule: str) -> None:
    from .effspec import check_table, effects
    from .walkspec import OVERLAP_TABLE
    check_table(rep, ctx, rule, OVERLAP_TABLE, list(OVERLAP_TABLE))
    fi = ctx.func("get_overlapping_event_types")
    es = "each(P:event_sets)"
    pairs = [e for e in effects(ctx, fi) if e.kind == "call"
             and e.name == "add_edges_from" and e.recv == "Graph()"]
    small = ("cmp", "1", "Lt", f"len({es})", "1")
    ok = len(pairs) == 1 and pairs[0].args in (
        (f"{{(each({es}),each({es})) for..}}",),
        (f"combinations({es},2)",), (f"itertools.combinations({es},2)",)) \
        and all(g == small for g in pairs[0].guards)
    rep.ob(rule, "all types of one successor set are connected with each "
           "other - for every set, however many sets there are", ok, fi=fi,
           node=pairs[0].node if pairs else fi.node,
           detail="; ".join(e.show()[:200] for e in pairs) or "<missing>")
    for fn in OVERLAP_TABLE:
        fi = ctx.func(fn)
        rets = [e for e in effects(ctx, fi) if e.kind == "ret"]
        rep.ob(rule, f"{fi.name} has one way out (no early return with a "
               "partial answer)", len(rets) == 1, fi=fi,
               node=rets[-1].node if rets else fi.node,
               detail="; ".join(e.show()[:120] for e in rets))


def r720(rep: Report, ctx: Ctx) -> None:
    """The overlap map is the second input of the loop classifier (R7.19):
    successors of an event that occur together in one successor set are one
    group.  A single set {B, X} already makes B and X a group - that is the
    AND fork with one branch leaving the loop."""
    rep.rule("R7.20", "the overlap map groups the successors that occur "
             "together in some successor set, for every event", 9)
    overlap_map(rep, ctx, "R7.20")


def _nbr_forms(kind: str) -> list[str]:
    """Accepted spellings of the five neighbourhood helpers (edge-list form
    as in the pinned tree, nested-loop form, set-difference form)."""
    S = "P:nodes_to_check"
    out = []
    for nodes_each in (False, True):
        src = "each(P:nodes)" if nodes_each else "P:nodes"
        pred = f"each(P:graph.predecessors({src}))"
        succ = f"each(P:graph.successors({src}))"
        tail = "each(P:nodes)" if nodes_each else \
            "each(P:graph.out_edges(P:nodes))[0]"
        head = "each(P:nodes)" if nodes_each else \
            "each(P:graph.in_edges(P:nodes))[1]"
        if kind == "in_not":
            out += [f"{{{pred} for.. if ({pred} NotIn {S})}}",
                    f"({{{pred} for..}} Sub {S})",
                    f"({{{pred} for..}} Sub set({S}))"]
        elif kind == "out_not":
            out += [f"{{{succ} for.. if ({succ} NotIn {S})}}",
                    f"({{{succ} for..}} Sub {S})",
                    f"({{{succ} for..}} Sub set({S}))"]
        elif kind == "tail_in":
            out += [f"{{{tail} for.. if ({succ} In {S})}}"]
        elif kind == "tail_not":
            out += [f"{{{tail} for.. if ({succ} NotIn {S})}}"]
        elif kind == "head_not":
            out += [f"{{{head} for.. if ({pred} NotIn {S})}}"]
    if kind == "tail_in":
        out.append("{each(P:nodes) for.. if any(((each(P:graph.successors("
                   f"each(P:nodes))) In {S}) for..))}}")
    if kind == "tail_not":
        out.append("{each(P:nodes) for.. if any(((each(P:graph.successors("
                   f"each(P:nodes))) NotIn {S}) for..))}}")
    if kind == "head_not":
        out.append("{each(P:nodes) for.. if any(((each(P:graph.predecessors("
                   f"each(P:nodes))) NotIn {S}) for..))}}")
    return out


def graph_helpers(rep: Report, ctx: Ctx, rule: str) -> None:
    from .effspec import effects, expect, nx_norm

    def norm(s: str) -> str:
        return nx_norm(s).replace("nx.has_path(", "has_path(")
    spec = [
        ("get_innodes_not_in_set", "in_not",
         "the PREDECESSORS of the given nodes that lie outside the set"),
        ("get_outnodes_not_in_set", "out_not",
         "the SUCCESSORS of the given nodes that lie outside the set"),
        ("get_nodes_with_outedges_in_set", "tail_in",
         "those of the given nodes that have a successor INSIDE the set"),
        ("get_nodes_with_outedges_not_in_set", "tail_not",
         "those of the given nodes that have a successor OUTSIDE the set"),
        ("get_nodes_with_inedge_not_in_set", "head_not",
         "those of the given nodes that have a predecessor OUTSIDE the set"),
    ]
    for fn, kind, what in spec:
        fi = ctx.func(fn)
        effs = [e for e in effects(ctx, fi, norm=norm) if e.kind == "ret"]
        forms = _nbr_forms(kind)
        hit = [e for e in effs if len(e.args) == 1 and e.args[0] in forms
               and not e.guards]
        rep.ob(rule, f"{fn} returns {what}", len(effs) == 1 and len(hit) == 1,
               fi=fi, node=effs[0].node if effs else fi.node,
               detail=f"returns {[e.args for e in effs]}; accepted: "
                      f"{forms[0]} (or its nested-loop / set-difference / "
                      "any() spelling) -- loop start, end, break and exit "
                      "points are computed from these sets: a crossed "
                      "direction or membership test mis-classifies them")
    # path helpers
    fi = ctx.func("has_path_back_to_chosen_nodes")
    effs = [e for e in effects(ctx, fi, norm=norm) if e.kind == "ret"]
    HP = "has_path(P:graph,first(P:nodes_to_find_path_from),P:node)"
    ANY = "any((has_path(P:graph,each(P:nodes_to_find_path_from),P:node) " \
          "for..))"
    one = len(effs) == 1 and effs[0].args == (ANY,) and not effs[0].guards
    two = len(effs) == 2 and any(
        e.args == ("True",) and e.guards == [("truth", HP, "1")]
        for e in effs) and any(e.args == ("False",) and not e.guards
                               for e in effs)
    rep.ob(rule, "has_path_back_to_chosen_nodes: true exactly when SOME "
           "chosen node reaches the node (path FROM the chosen node TO the "
           "node)", one or two, fi=fi, node=fi.node,
           detail=f"returns {[(e.args, e.guards) for e in effs]}")
    fi = ctx.func("identify_nodes_without_path_back_to_chosen_nodes")
    effs = effects(ctx, fi, norm=norm)
    expect(rep, rule, fi, effs, "identify_nodes_without_path_back_to_chosen_"
           "nodes yields every node that NO chosen node reaches, and only "
           "those", kind="yield", name="", args=("each(P:nodes)",),
           must=[("truth", "has_path_back_to_chosen_nodes(each(P:nodes),"
                  "P:nodes_to_find_path_from,P:graph)", "0")])


def r721(rep: Report, ctx: Ctx) -> None:
    """The classification of loop components and the carving of the body
    are written in terms of five neighbourhood helpers and two reachability
    helpers of utils.py; the tables of R7.12-R7.16 pin which helper is
    called with which sets, this rule pins what each helper computes."""
    rep.rule("R7.21", "the neighbourhood / reachability helpers of loop "
             "extraction compute what their callers assume (direction of "
             "the edge, side of the membership test)", 7)
    graph_helpers(rep, ctx, "R7.21")


_ATOM = r"(?:P:)?[A-Za-z_][A-Za-z_0-9]*"


def _setalg(s: str) -> str:
    """Set algebra over atoms: ``(A Sub B)`` = ``A.difference(B)``,
    ``(A BitAnd B)`` = ``A.intersection(B)`` (operands sorted),
    ``A.difference(B.intersection(A))`` = ``A.difference(B)``."""
    import re
    prev = None
    while prev != s:
        prev = s
        s = re.sub(rf"\(({_ATOM}) Sub ({_ATOM})\)", r"\1.difference(\2)", s)
        s = re.sub(rf"\(({_ATOM}) BitAnd ({_ATOM})\)",
                   r"\1.intersection(\2)", s)
        s = re.sub(rf"({_ATOM})\.intersection\(({_ATOM})\)",
                   lambda m: "{}.intersection({})".format(
                       *sorted([m.group(1), m.group(2)])), s)
        s = re.sub(rf"({_ATOM})\.difference\(({_ATOM})\.intersection\("
                   rf"({_ATOM})\)\)",
                   lambda m: f"{m.group(1)}.difference("
                   f"{m.group(3) if m.group(2) == m.group(1) else m.group(2)})"
                   if m.group(1) in (m.group(2), m.group(3)) else m.group(0),
                   s)
    return s


def classification(rep: Report, ctx: Ctx, rule: str) -> None:
    """What counts as start / end / break event and loop-back edge of an
    SCC.  The table pins the DEFINITION the rest of the extraction is written
    against (which set is computed from which, under which case split) - not
    that the definition is right for every graph (it is not: D10)."""
    from .effspec import effects, expect

    def table(fn: str, abbr: list[tuple[str, str]], names: set[str],
              rows: list[tuple]) -> None:
        fi = ctx.func(fn)

        def ab(x):  # type: ignore[no-untyped-def]
            if isinstance(x, (tuple, list)):
                return type(x)(ab(y) for y in x)
            for _ in range(2):
                for short, long in abbr:
                    x = x.replace(long, short)
                x = _setalg(x)
            return x
        effs = effects(ctx, fi, names=names)
        for e in effs:
            e.recv, e.args, e.guards = ab(e.recv), ab(e.args), ab(e.guards)
        for what, kind, name, recv, args, must in rows:
            expect(rep, rule, fi, effs, f"{fi.name}: {what}", kind=kind,
                   name=name, recv=recv, args=args, must=must)
    SCC3 = "P:scc_nodes,P:scc_nodes,P:graph"
    START = ("START", f"get_nodes_with_inedge_not_in_set({SCC3})")
    MAP = "phi(P:node_to_over_lapping_node_map|dict())"
    table("calc_components_of_loop_generic", [
        START, ("C", f"calc_loop_end_break_and_loop_edges(START,P:scc_nodes,"
                     f"P:graph,{MAP})")],
        {"calc_loop_end_break_and_loop_edges"}, [
        ("start events = events of the SCC with a predecessor outside it; "
         "the other components are computed from them", "call",
         "calc_loop_end_break_and_loop_edges", "",
         ("START", "P:scc_nodes", "P:graph", MAP), []),
        ("components are handed on in the order start, end, break, "
         "loop-back edges", "ret", "", "", ("(START,C[0],C[1],C[2])",), []),
    ])
    END = ("END", "get_end_nodes_using_start_nodes(P:scc_nodes,"
                  "P:start_nodes,P:graph)")
    EXIT = ("EXIT", f"get_nodes_with_outedges_not_in_set({SCC3})")
    BO = ("BO", f"filter_break_out_nodes_based_on_overlaps(EXIT.difference("
                f"END),{MAP},P:scc_nodes)")
    has_exit = ("truth", "EXIT", "1")
    end_exits = "END.intersection(EXIT)"
    table("calc_loop_end_break_and_loop_edges", [END, EXIT, BO], {
        "filter_break_out_nodes_based_on_overlaps", "get_outnodes_not_in_set",
        "get_break_nodes_if_end_to_start_exists", "get_loop_edges"}, [
        ("break-out candidates = events with a successor outside the SCC "
         "that are not end events, filtered by the overlap map (an AND fork "
         "with one branch staying in the loop is not a break)", "call",
         "filter_break_out_nodes_based_on_overlaps", "",
         ("EXIT.difference(END)", MAP, "P:scc_nodes"), [has_exit]),
        ("no end event leaves the loop: every outside successor of a "
         "candidate is a break event", "call", "get_outnodes_not_in_set", "",
         ("BO", "P:scc_nodes", "P:graph"),
         [has_exit, ("truth", end_exits, "0")]),
        ("some end event leaves the loop: break events are found relative "
         "to the exit points of the END events", "call",
         "get_break_nodes_if_end_to_start_exists", "",
         ("END", "BO", "P:start_nodes", "P:graph", "P:scc_nodes"),
         [has_exit, ("truth", end_exits, "1")]),
        ("loop-back edges run from end events to start events", "call",
         "get_loop_edges", "", ("P:start_nodes", "END", "P:graph"), []),
    ])
    table("get_end_nodes_using_start_nodes", [], {
        "get_nodes_with_outedges_in_set",
        "get_end_nodes_from_potential_end_nodes"}, [
        ("potential end events = events of the SCC with an edge to a start "
         "event; judged on the SCC with the edges INTO the start events "
         "removed", "ret", "", "",
         ("get_end_nodes_from_potential_end_nodes("
          "get_nodes_with_outedges_in_set(P:nodes,P:start_nodes,P:graph),"
          "DiGraph(P:graph.subgraph(P:nodes).copy()))",), []),
        ("the loop-back edges are cut on the private copy before the "
         "judgement", "call", "remove_edges_from",
         "DiGraph(P:graph.subgraph(P:nodes).copy())",
         ("P:graph.in_edges(P:start_nodes)",), []),
    ])
    table("get_end_nodes_from_potential_end_nodes", [], set(), [
        ("every potential end event is judged against all of them", "ret",
         "", "", ("{each(P:potential_end_nodes) for.. if "
                  "is_end_of_potential_ends(each(P:potential_end_nodes),"
                  "P:potential_end_nodes,P:graph)}",), []),
    ])
    table("get_break_nodes_if_end_to_start_exists", [
        ("XP", "get_outnodes_not_in_set(P:end_nodes,P:start_nodes,P:graph)")],
        {"get_break_nodes_from_potential_break_outnodes"}, [
        ("exit points = successors of the end events other than start "
         "events ...", "call",
         "get_break_nodes_from_potential_break_outnodes", "",
         ("P:nodes_without_edge_to_start_nodes", "XP", "P:graph",
          "P:scc_nodes"), []),
        ("... and other than end events", "call", "difference_update", "XP",
         ("P:end_nodes",), []),
    ])
    CAND = "each(P:potential_break_outnodes)"
    INX = "get_innodes_not_in_set(P:exit_points,P:scc_nodes,P:graph)"
    table("get_break_nodes_from_potential_break_outnodes", [
        ("OUTC", f"each(get_outnodes_not_in_set({{{CAND}}},P:scc_nodes,"
                 "P:graph))"), ("INX", INX), ("CAND", CAND)],
        set(), [
        ("a break path that rejoins the exit ends in the LAST event before "
         "an exit point: reachable from the candidate with the other such "
         "events and the rest of the SCC removed", "call", "add", "set()",
         ("each(INX)",),
         [("truth", "has_path(P:graph.copy(),CAND,each(INX))", "1")]),
        ("(the graph searched is a copy without them)", "call",
         "remove_nodes_from", "P:graph.copy()",
         ("((INX Sub {each(INX)}) BitOr (P:scc_nodes Sub {CAND}))",), []),
        ("a break path that never rejoins the exit starts with its FIRST "
         "event outside the SCC", "call", "update", "set()",
         ("[OUTC for.. if all((Not(has_path(P:graph,OUTC,each(INX))) "
          "for..))]",), []),
    ])
    table("get_loop_edges", [], set(), [
        ("loop-back edges = edges from an end event to a start event",
         "ret", "", "",
         ("{each(P:graph.out_edges(P:end_nodes)) for.. if ((each(P:graph."
          "successors(P:end_nodes)) In P:start_nodes) And (each(P:graph."
          "out_edges(P:end_nodes))[0] In P:end_nodes))}",), []),
    ])
    NODE = "each(P:break_out_nodes)"
    OV = "do_any_node_sets_have_intersection_with_nodes_to_check(" \
         f"P:node_to_over_lapping_node_map[{NODE}],P:nodes_to_check)"
    table("filter_break_out_nodes_based_on_overlaps", [], set(), [
        ("a candidate without overlap information stays", "call", "add",
         "set()", (NODE,),
         [("cmp", NODE, "In", "P:node_to_over_lapping_node_map", "0")]),
        ("a candidate stays unless one of its overlap groups lies partly "
         "inside and partly outside the loop", "call", "add", "set()",
         (NODE,), [("cmp", NODE, "In", "P:node_to_over_lapping_node_map",
                    "1"), ("truth", OV, "0")]),
    ])
    table("does_node_set_have_intersection_with_nodes_to_check", [], set(), [
        ("an overlap group straddles the loop when some but not all of its "
         "members lie outside", "ret", "", "", ("True",),
         [("truth", "(0 Lt len(P:node_set.difference(P:nodes_to_check)) Lt "
           "len(P:node_set))", "1")]),
    ])
    fi = ctx.func("do_any_node_sets_have_intersection_with_nodes_to_check")
    effs = [e for e in effects(ctx, fi) if e.kind == "ret"]
    G = "does_node_set_have_intersection_with_nodes_to_check(first(" \
        "P:node_sets),P:nodes_to_check)"
    two = len(effs) == 2 and any(
        e.args == ("True",) and e.guards == [("truth", G, "1")]
        for e in effs) and any(e.args == ("False",) and not e.guards
                               for e in effs)
    one = len(effs) == 1 and not effs[0].guards and effs[0].args == (
        "any((does_node_set_have_intersection_with_nodes_to_check(each("
        "P:node_sets),P:nodes_to_check) for..))",)
    rep.ob(rule, "do_any_node_sets_have_intersection_with_nodes_to_check: "
           "true exactly when SOME group straddles", one or two, fi=fi,
           node=fi.node, detail=f"returns {[(e.args, e.guards) for e in effs]}")


def break_partition(rep: Report, ctx: Ctx, rule: str) -> None:
    """Which break events are re-attached like end events (behind the loop
    node only) and which keep their own place in the parent graph."""
    from .effspec import effects, expect
    fi = ctx.func("calculate_updated_graph_with_loop_event")
    ROOT = "[each(P:graph.in_degree())[0] for.. if (0 Eq each(P:graph." \
           "in_degree())[1])][0]"
    B = "each(P:loop.break_events)"
    NOROOT = f"{{{B} for.. if Not(has_path(P:graph,{ROOT},{B}))}}"
    ISO = f"{{each({NOROOT}) for.. if (Not(has_path(P:graph,{B},each(" \
          f"{NOROOT}))) And ({B} NotEq each({NOROOT})))}}"
    effs = effects(ctx, fi, names={
        "update_graph_for_loop_end_events",
        "update_graph_for_break_events_with_path_to_root_event"})

    def ab(x):  # type: ignore[no-untyped-def]
        if isinstance(x, (tuple, list)):
            return type(x)(ab(y) for y in x)
        return x.replace(ISO, "ISOLATED").replace(NOROOT, "NOROOT")
    for e in effs:
        e.args = ab(e.args)
    expect(rep, rule, fi, effs, "break events that neither the root (once "
           "the loop is cut out) nor another break event reaches are "
           "re-attached behind the loop node like end events", kind="call",
           name="update_graph_for_loop_end_events",
           args=("ISOLATED", "P:loop.loop_events", "P:loop_event", "P:graph"),
           final_args=True)
    expect(rep, rule, fi, effs, "all other break events keep their place "
           "and get the loop node as one more predecessor", kind="call",
           name="update_graph_for_break_events_with_path_to_root_event",
           args=("(P:loop.break_events Sub ISOLATED)", "P:loop.loop_events",
                 "P:loop_event", "P:graph"), final_args=True)


def r722b(rep: Report, ctx: Ctx) -> None:
    from .effspec import check_table
    from .walkspec import INGEST_TABLE
    check_table(rep, ctx, "R7.22", INGEST_TABLE, [
        "is_end_of_potential_ends", "remove_nodes_without_path_back_to_loop",
        "create_graph_from_events"])


def r722(rep: Report, ctx: Ctx) -> None:
    rep.rule("R7.22", "the components of a loop (start, end, break events, "
             "loop-back edges) are computed as defined: which set from "
             "which, under which case split", 17)
    classification(rep, ctx, "R7.22")
    r722b(rep, ctx)
    break_partition(rep, ctx, "R7.22")


def r723(rep: Report, ctx: Ctx) -> None:
    from .util import crossed_handoffs
    rep.rule("R7.23", "positional hand-offs in loop extraction do not cross "
             "two parameters", 1)
    crossed_handoffs(rep, ctx, "R7.23", ("loop_detection/", "utils.py"), 95)
