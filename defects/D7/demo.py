#!/usr/bin/env python
"""Demonstrates the `impossible_and_or_merges` misalignment defect of
tel2puml/pv_to_puml/walk_puml_graph/walk_puml_logic_graph.py (LogicBlockHolder).

Run from the repository root:

    cd /repo && PYTHONPATH=/repo:/verif/tools/janus_stub /venv/bin/python /verif/defects/D7/demo.py

Exit status 0: behaviour correct on both inputs.  Exit status 1: prints what
went wrong (on the unfixed tree: case 1 never terminates, case 2 duplicates E).
Set DEMO_NATURAL=1 to leave uuid4 / hash randomisation unpinned.

Both inputs are ONE job that runs a loop twice.  The loop body is

    J ; fork { N0 | N1 | L,kill | U1,H,I,kill | H,I,kill } ; E

i.e. an AND fork with two branches that rejoin at E and three branches that end
inside the loop ("loop kill paths"), two of which run through the same event
types H, I (cf. end-to-end-pumls/loops/edge_cases/paths_should_kill_in_loop.puml,
which is the same shape with one kill branch less).

  case 1 "shared I":   the two H events of an iteration are followed by one
                       common I event (previousEventIds = both H).
  case 2 "separate I": each H event is followed by its own I event.
"""
import os
import subprocess
import sys

TIMEOUT = 60  # seconds; the fixed code needs about 1-2 s


def build_job(shared_i: bool, iterations: int = 2):
    events = []

    def emit(event_type, prevs):
        k = len(events)
        eid = f"evt_{k}"
        events.append(
            {
                "jobId": "job_1",
                "jobName": "demo",
                "eventId": eid,
                "eventType": event_type,
                "timestamp": f"2024-01-01T00:{k // 60:02d}:{k % 60:02d}Z",
                "applicationName": "app",
                "previousEventIds": list(prevs),
            }
        )
        return eid

    cur = emit("A", [])
    for _ in range(iterations):
        j = emit("J", [cur])
        n0 = emit("N0", [j])
        n1 = emit("N1", [j])
        emit("L", [j])  # branch that ends at once
        u1 = emit("U1", [j])
        h1 = emit("H", [u1])
        h2 = emit("H", [j])
        if shared_i:
            emit("I", [h1, h2])
        else:
            emit("I", [h1])
            emit("I", [h2])
        cur = emit("E", [n0, n1])
    emit("G", [cur])
    return events


# ---------------------------------------------------------------- checks
def check_puml(puml: str, event_types: set[str]) -> list[str]:
    """well-formedness + event coverage + E exactly once, not inside the fork"""
    problems = []
    stack = []
    seen = []
    e_depths = []
    lines = [ln.strip() for ln in puml.splitlines() if ln.strip()]
    for idx, line in enumerate(lines):
        nxt = lines[idx + 1] if idx + 1 < len(lines) else ""
        if line == "fork":
            stack.append("fork")
        elif line == "fork again":
            if not stack or stack[-1] != "fork":
                problems.append("'fork again' outside a fork block")
        elif line in ("end fork", "end merge"):
            if not stack or stack.pop() != "fork":
                problems.append("'end fork' without matching fork")
        elif line == "split":
            stack.append("split")
        elif line == "split again":
            if not stack or stack[-1] != "split":
                problems.append("'split again' outside a split block")
        elif line == "end split":
            if not stack or stack.pop() != "split":
                problems.append("'end split' without matching split")
        elif line.startswith("switch"):
            stack.append("switch")
        elif line.startswith("case"):
            if not stack or stack[-1] != "switch":
                problems.append("'case' outside a switch block")
        elif line == "endswitch":
            if not stack or stack.pop() != "switch":
                problems.append("'endswitch' without matching switch")
        elif line.startswith("if "):
            stack.append("if")
        elif line == "endif":
            if not stack or stack.pop() != "if":
                problems.append("'endif' without matching if")
        elif line == "repeat":
            stack.append("repeat")
        elif line.startswith("repeat while"):
            if not stack or stack.pop() != "repeat":
                problems.append("'repeat while' without matching repeat")
        elif line in ("break", "detach", "kill"):
            if not (
                nxt in ("fork again", "end fork", "split again", "end split",
                        "endswitch", "endif", "else")
                or nxt.startswith(("case", "elseif", "else"))
            ):
                problems.append(f"'{line}' not at the end of a branch")
        elif line.startswith(":") and line.endswith(";"):
            name = line[1:-1].split(",")[0]
            seen.append(name)
            if name == "E":
                e_depths.append(list(stack))
    if stack:
        problems.append(f"unclosed blocks {stack}")
    if set(seen) != event_types:
        problems.append(
            f"event types differ: missing {sorted(event_types - set(seen))},"
            f" extra {sorted(set(seen) - event_types)}"
        )
    # every iteration of every job has exactly one E, after both N0 and N1
    if len(e_depths) != 1:
        problems.append(
            f"E occurs once per loop iteration in the input but {len(e_depths)}"
            " times in the diagram"
        )
    elif "fork" in e_depths[0]:
        problems.append("E is placed inside a fork branch")
    return problems


# ---------------------------------------------------------------- driver
def child(case: str) -> None:
    if os.environ.get("DEMO_NATURAL") != "1":
        # tel2puml names graph nodes with uuid4() and iterates over sets of
        # them, so the walk order (and with it the way the defect shows) varies
        # from run to run.  Make the run reproducible: counter instead of
        # uuid4 (PYTHONHASHSEED=0 is set by the parent).  With DEMO_NATURAL=1
        # nothing is pinned; the original code then still fails every time
        # (hang, duplicated E, or 'fork again' outside the fork).
        import uuid

        counter = [0]

        def det_uuid4() -> uuid.UUID:
            counter[0] += 1
            return uuid.UUID(int=counter[0])

        uuid.uuid4 = det_uuid4  # type: ignore[assignment]
    from tel2puml.pv_to_puml.pv_to_puml import pv_to_puml_string

    job = build_job(shared_i=(case == "shared"))
    print(pv_to_puml_string([job]))


def main() -> int:
    failures = []
    for case in ("shared", "separate"):
        types = {e["eventType"] for e in build_job(case == "shared")}
        try:
            proc = subprocess.run(
                [sys.executable, os.path.abspath(__file__), "--child", case],
                capture_output=True,
                text=True,
                timeout=TIMEOUT,
                env=(
                    os.environ.copy()
                    if os.environ.get("DEMO_NATURAL") == "1"
                    else dict(os.environ, PYTHONHASHSEED="0")
                ),
            )
        except subprocess.TimeoutExpired:
            failures.append(
                f"case '{case} I': pv_to_puml_string did not terminate within"
                f" {TIMEOUT} s (endless rotate_path loop)"
            )
            continue
        if proc.returncode != 0:
            failures.append(
                f"case '{case} I': raised:\n" + proc.stderr.strip()[-600:]
            )
            continue
        problems = check_puml(proc.stdout, types)
        if problems:
            failures.append(
                f"case '{case} I': bad diagram: " + "; ".join(problems)
                + "\n" + proc.stdout
            )
        else:
            print(f"case '{case} I': OK")
    if failures:
        print("DEFECT DEMONSTRATED:")
        for f in failures:
            print(" -", f)
        return 1
    print("behaviour correct")
    return 0


if __name__ == "__main__":
    if len(sys.argv) == 3 and sys.argv[1] == "--child":
        child(sys.argv[2])
        sys.exit(0)
    sys.exit(main())
