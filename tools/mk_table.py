import ast,sys
sys.path.insert(0,'/verif')
from sa.core import Index
from sa.ctx import Ctx
from sa.rules.effspec import effects
ctx=Ctx(Index('/repo'))
for fn in sys.argv[1:]:
    fi=ctx.func(fn)
    print(f'    "{fn}": [')
    for e in effects(ctx,fi):
        if e.kind=="raise": continue
        if e.kind=="call" and e.name in ("debug","info","warning","write"): continue
        print(f'        ("TODO", {e.kind!r}, {e.name!r}, {e.recv!r},\n         {e.args!r},\n         {e.guards!r}, [], ""),')
    print('    ],')
