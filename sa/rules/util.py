"""Helpers shared by the rule modules."""
from __future__ import annotations

import ast
from typing import Callable, Iterable, Iterator, Optional

from ..core import AnalysisError, FuncInfo, Report, dotted, unparse
from ..ctx import Ctx
from ..dataflow import Defs, bound_arg, default_of


def calls_in(ctx: Ctx, caller: FuncInfo, callee: FuncInfo) -> list[ast.Call]:
    return [s.node for s in ctx.cg.calls_to(caller, callee)
            if isinstance(s.node, ast.Call)]


def one_call(ctx: Ctx, caller: FuncInfo, callee: FuncInfo) -> ast.Call:
    cs = calls_in(ctx, caller, callee)
    if len(cs) != 1:
        raise AnalysisError(
            f"expected exactly one call of {callee.short} in {caller.short}, "
            f"found {len(cs)}")
    return cs[0]


def actual(call: ast.Call, callee: FuncInfo, param: str) -> Optional[ast.AST]:
    return bound_arg(call, callee.node, param,
                     method=callee.cls is not None and not callee.is_static)


def forwards(rep: Report, ctx: Ctx, rule: str, caller: FuncInfo,
             callee: FuncInfo, mapping: dict[str, str | Callable[[ast.AST], bool]],
             *, what: str = "") -> None:
    """Obligation: at every call of ``callee`` in ``caller`` the parameter
    ``p`` of the callee is bound to the caller's own name ``mapping[p]``
    (copy-propagated), or to an expression accepted by the predicate."""
    sites = calls_in(ctx, caller, callee)
    if not sites:
        rep.ob(rule, f"{caller.short} calls {callee.short}", False, fi=caller,
               node=caller.node,
               detail=f"no resolved call of {callee.short} in {caller.short}")
        return
    defs = ctx.defs(caller)
    for call in sites:
        for p, want in mapping.items():
            a = actual(call, callee, p)
            if a is None:
                ok, got = False, "<default>"
            else:
                r = defs.resolve(a)
                got = unparse(r)
                if callable(want):
                    ok = want(r)
                else:
                    ok = isinstance(r, ast.Name) and r.id == want
            rep.ob(rule, f"{caller.short}->{callee.short}({p})", ok,
                   fi=caller, node=call,
                   detail=f"parameter {p} is bound to '{got}'"
                          + ("" if ok else
                             f" (expected {want if isinstance(want, str) else 'the documented source'})")
                          + (f" -- {what}" if what else ""))


def is_attr_of(e: ast.AST, base: str, attr: str) -> bool:
    return isinstance(e, ast.Attribute) and e.attr == attr \
        and isinstance(e.value, ast.Name) and e.value.id == base


def enclosing_loops(fi_node: ast.AST, target: ast.AST) -> list[ast.AST]:
    """For/While/comprehension statements enclosing ``target`` (outermost
    first)."""
    out: list[ast.AST] = []

    def rec(n: ast.AST, stack: list[ast.AST]) -> bool:
        if n is target:
            out.extend(stack)
            return True
        for c in ast.iter_child_nodes(n):
            ns = stack + [n] if isinstance(
                n, (ast.For, ast.While, ast.AsyncFor)) else stack
            if rec(c, ns):
                return True
        return False

    rec(fi_node, [])
    return out


def enclosing(fi_node: ast.AST, target: ast.AST,
              kinds: tuple[type, ...]) -> list[ast.AST]:
    out: list[ast.AST] = []

    def rec(n: ast.AST, stack: list[ast.AST]) -> bool:
        if n is target:
            out.extend(stack)
            return True
        for c in ast.iter_child_nodes(n):
            ns = stack + [n] if isinstance(n, kinds) else stack
            if rec(c, ns):
                return True
        return False

    rec(fi_node, [])
    return out


def in_body(container: ast.AST, field: str, target: ast.AST) -> bool:
    for st in getattr(container, field, []):
        if st is target or any(x is target for x in ast.walk(st)):
            return True
    return False


def stmts_after(block: list[ast.stmt], st: ast.stmt) -> list[ast.stmt]:
    for i, s in enumerate(block):
        if s is st:
            return block[i + 1:]
    return []


def kw(call: ast.Call, name: str) -> Optional[ast.AST]:
    for k in call.keywords:
        if k.arg == name:
            return k.value
    return None


def truthiness_of(test: ast.AST, name: str) -> bool:
    """Does ``test`` hold only if the value named ``name`` is non-empty?
    Accepted idioms: ``name``, ``len(name)``, ``len(name) > 0``,
    ``len(name) >= 1``, ``len(name) != 0``, ``name != []``, and conjunctions
    containing one of them."""
    if isinstance(test, ast.Name):
        return test.id == name
    if isinstance(test, ast.BoolOp) and isinstance(test.op, ast.And):
        return any(truthiness_of(v, name) for v in test.values)
    if isinstance(test, ast.Call) and dotted(test.func) == "len" \
            and test.args and isinstance(test.args[0], ast.Name):
        return test.args[0].id == name
    if isinstance(test, ast.Compare) and len(test.ops) == 1:
        l, r, op = test.left, test.comparators[0], test.ops[0]
        if isinstance(l, ast.Call) and dotted(l.func) == "len" and l.args \
                and isinstance(l.args[0], ast.Name) and l.args[0].id == name \
                and isinstance(r, ast.Constant):
            return (isinstance(op, ast.Gt) and r.value == 0) or \
                   (isinstance(op, ast.GtE) and r.value == 1) or \
                   (isinstance(op, ast.NotEq) and r.value == 0)
        if isinstance(l, ast.Name) and l.id == name and isinstance(
                op, ast.NotEq) and isinstance(r, ast.List) and not r.elts:
            return True
    return False


# --------------------------------------------------------------------------
# idiom-insensitive helpers (robustness against behaviour-preserving edits)
# --------------------------------------------------------------------------
_LOG_METHODS = {"debug", "info", "warning", "warn", "error", "exception",
                "critical", "log", "write", "set_description", "update"}
_LOG_BASES = ("logging", "logger", "LOGGER", "log", "tqdm", "warnings",
              "self.logger", "self.log")


def is_noise(st: ast.stmt) -> bool:
    """Statements without effect on the analysed state: ``pass``, docstrings /
    bare constants, ``assert``, logging / progress / print calls."""
    if isinstance(st, (ast.Pass, ast.Assert)):
        return True
    if isinstance(st, ast.Expr):
        v = st.value
        if isinstance(v, ast.Constant):
            return True
        if isinstance(v, ast.Call):
            d = dotted(v.func) or ""
            if d == "print":
                return True
            if isinstance(v.func, ast.Attribute) and v.func.attr in \
                    _LOG_METHODS:
                base = v.func.value
                bd = dotted(base) or ""
                if bd.split(".")[0] in ("logging", "tqdm", "warnings") or \
                        bd.lower().endswith(("logger", "log")) or bd in \
                        _LOG_BASES:
                    return True
                # logging.getLogger(...).debug(...)
                if isinstance(base, ast.Call) and (dotted(base.func) or ""
                                                   ).endswith("getLogger"):
                    return True
    return False


def effective(body: Iterable[ast.stmt]) -> list[ast.stmt]:
    return [s for s in body if not is_noise(s)]


def strip_not(test: ast.AST) -> tuple[ast.AST, bool]:
    """``not not x`` -> (x, True); ``not x`` -> (x, False)."""
    pos = True
    while isinstance(test, ast.UnaryOp) and isinstance(test.op, ast.Not):
        test, pos = test.operand, not pos
    return test, pos


_NEG = {ast.In: ast.NotIn, ast.NotIn: ast.In, ast.Is: ast.IsNot,
        ast.IsNot: ast.Is, ast.Eq: ast.NotEq, ast.NotEq: ast.Eq,
        ast.Lt: ast.GtE, ast.GtE: ast.Lt, ast.Gt: ast.LtE, ast.LtE: ast.Gt}
_MIRROR = {ast.Lt: ast.Gt, ast.Gt: ast.Lt, ast.LtE: ast.GtE, ast.GtE: ast.LtE,
           ast.Eq: ast.Eq, ast.NotEq: ast.NotEq}


def canon_test(test: ast.AST) -> tuple[str, ...]:
    """Canonical form of a branch test, insensitive to ``not``, to the
    orientation of a comparison and to ``is not None`` vs truthiness is NOT
    attempted.  Returns ("cmp", left, op, right) with negation folded into
    the operator and the operands ordered so that ``a < b`` and ``b > a``
    coincide; ("truth", expr, "1"/"0") for plain truthiness tests; otherwise
    ("expr", text, polarity)."""
    e, pos = strip_not(test)
    if isinstance(e, ast.Compare) and len(e.ops) == 1:
        op = type(e.ops[0])
        if not pos and op in _NEG:
            op, pos = _NEG[op], True
        l, r = e.left, e.comparators[0]
        if op in _MIRROR:
            lt, rt = unparse(l), unparse(r)
            if op in (ast.Gt, ast.GtE) or (
                    op in (ast.Eq, ast.NotEq) and lt > rt):
                l, r, op = r, l, _MIRROR[op]
        if pos:
            return ("cmp", unparse(l), op.__name__, unparse(r))
    return ("truth" if isinstance(e, (ast.Name, ast.Attribute, ast.Subscript,
                                      ast.Call)) else "expr",
            unparse(e), "1" if pos else "0")


def arm_tests(ifst: ast.If) -> tuple[tuple[str, ...], tuple[str, ...]]:
    """Canonical condition under which the body / the orelse of an ``if``
    runs."""
    return canon_test(ifst.test), canon_test(
        ast.UnaryOp(op=ast.Not(), operand=ifst.test))


def arm_where(ifst: ast.If, want: tuple[str, ...]) -> Optional[list[ast.stmt]]:
    """The arm of ``ifst`` that runs exactly when the canonical condition
    ``want`` holds (None if neither arm does)."""
    t, f = arm_tests(ifst)
    if t == want:
        return ifst.body
    if f == want:
        return ifst.orelse
    return None


def guards_of(fn: ast.AST, target: ast.AST) -> list[tuple[str, ...]]:
    """Canonical conditions (outermost first) of the ``if`` arms that
    lexically enclose ``target``."""
    out: list[tuple[str, ...]] = []
    for enc in enclosing(fn, target, (ast.If,)):
        assert isinstance(enc, ast.If)
        t, f = arm_tests(enc)
        out.append(t if in_body(enc, "body", target) else f)
    return out


def const_index(e: ast.AST) -> Optional[int]:
    """``x[0]`` -> 0 ; ``x[-1]`` -> -1 ; else None."""
    if isinstance(e, ast.Subscript):
        s = e.slice
        if isinstance(s, ast.Constant) and isinstance(s.value, int):
            return s.value
        if isinstance(s, ast.UnaryOp) and isinstance(s.op, ast.USub) and \
                isinstance(s.operand, ast.Constant):
            return -s.operand.value
    return None


def loopvar_over(defs: Defs, e: ast.AST, source: Callable[[ast.AST], bool],
                 index: Optional[int] = None) -> bool:
    """Is ``e`` a name bound only as the target (or, with ``index``, the
    ``index``-th element of the tuple target) of ``for``/comprehension loops
    whose iterable satisfies ``source`` (looked through wrappers such as
    ``tqdm(x, ...)`` / ``enumerate`` is *not* looked through)?"""
    if not isinstance(e, ast.Name):
        return False
    bs = defs.of(e.id)
    # a name bound by an enclosing comprehension is that comprehension's
    comps = [c for c in ast.walk(defs.func) if isinstance(
        c, (ast.ListComp, ast.SetComp, ast.GeneratorExp, ast.DictComp))
        and any(x is e for x in ast.walk(c))
        and any(isinstance(n, ast.Name) and n.id == e.id
                for g in c.generators for n in ast.walk(g.target))]
    if comps:
        gens = [g for c in comps for g in c.generators]
        bs = [b for b in bs if b.kind == "comp" and any(b.stmt is g
                                                        for g in gens)]
    if not bs:
        return False
    for b in bs:
        if b.kind not in ("for", "comp") or b.value is None:
            return False
        t = b.target
        if index is None:
            if not (isinstance(t, ast.Name) and t.id == e.id):
                return False
        else:
            if not (isinstance(t, (ast.Tuple, ast.List)) and len(t.elts) > index
                    and isinstance(t.elts[index], ast.Name)
                    and t.elts[index].id == e.id):
                return False
        it = defs.resolve(b.value)
        while isinstance(it, ast.Call) and (dotted(it.func) or "").split(
                ".")[-1] in ("tqdm", "iter", "list", "tuple") and it.args:
            it = defs.resolve(it.args[0])
        if not source(it):
            return False
    return True


def is_param(name: str) -> Callable[[ast.AST], bool]:
    return lambda e: isinstance(e, ast.Name) and e.id == name


def cguards(ctx: Ctx, fi: FuncInfo, target: ast.AST) -> list[tuple[str, ...]]:
    """Canonical conditions (outermost first) that hold whenever control
    reaches the statement containing ``target``: CFG-based (dominating branch
    edges), so ``if c: X`` and ``if not c: continue`` + ``X`` agree."""
    cfg = ctx.cfg(fi)
    nid = cfg.node(target) if cfg.has(target) else cfg.container(target)
    if nid is None:
        raise AnalysisError(f"{fi.qualname}: no CFG node for "
                            f"'{unparse(target)[:60]}'")
    out = []
    for test, sense in cfg.controlling(nid):
        out.append(canon_test(test if sense else
                              ast.UnaryOp(op=ast.Not(), operand=test)))
    return out


def norm_compare(test: ast.AST) -> Optional[tuple[ast.AST, type, ast.AST]]:
    """(left, operator type, right) of a single comparison with ``not``
    folded into the operator and a constant operand moved to the right
    (``0 == x`` -> (x, Eq, 0))."""
    e, pos = strip_not(test)
    if not (isinstance(e, ast.Compare) and len(e.ops) == 1):
        return None
    op = type(e.ops[0])
    if not pos:
        if op not in _NEG:
            return None
        op = _NEG[op]
    l, r = e.left, e.comparators[0]
    if isinstance(l, ast.Constant) and not isinstance(r, ast.Constant) \
            and op in _MIRROR:
        l, r, op = r, l, _MIRROR[op]
    return l, op, r


def ctor_arg(ctx: Ctx, call: ast.Call, cls_name: str, param: str
             ) -> Optional[ast.AST]:
    """The argument bound to ``param`` of ``cls_name.__init__`` at a
    constructor call, whether it is passed by position or by keyword."""
    for k in call.keywords:
        if k.arg == param:
            return k.value
    inits = ctx.index.cls(cls_name).lookup("__init__")
    if not inits:
        return None
    return bound_arg(call, inits[0].node, param, method=True)


SHALLOW_COPIERS = {"list", "dict", "tuple", "set", "sorted", "iter",
                   "reversed", "filter", "map", "copy", "frozenset",
                   "enumerate", "zip"}
HARMLESS_BUILTINS = SHALLOW_COPIERS | {"len", "isinstance", "print", "bool",
                                       "str", "repr", "id", "any", "all",
                                       "type", "hash"}


def shared_object_uses(ctx: Ctx, fi: FuncInfo, roots: set[str],
                       mutators: set[str], after_line: int = 0
                       ) -> tuple[int, list[tuple[ast.AST, ast.Call]], set[str]]:
    """May-alias escape analysis for "this object must only be deep-copied".

    ``roots``: local names holding the protected object(s).  Returns
    (number of deepcopy calls that receive an alias, list of (argument, call)
    where an alias -- the object itself, a view (attribute / subscript /
    method result), a shallow copy, a tuple or comprehension containing it,
    one arm of a conditional expression -- is handed to a call whose resolved
    callee closure intersects ``mutators`` or is unresolved and not a
    harmless builtin, the alias set)."""
    defs = ctx.defs(fi)
    aliases = set(roots)

    def is_deepcopy(c: ast.Call) -> bool:
        return (dotted(c.func) or "").split(".")[-1] == "deepcopy"

    def may_alias(e: ast.AST) -> bool:
        if isinstance(e, ast.Name):
            return e.id in aliases
        if isinstance(e, ast.IfExp):
            return may_alias(e.body) or may_alias(e.orelse)
        if isinstance(e, ast.BoolOp):
            return any(may_alias(v) for v in e.values)
        if isinstance(e, (ast.Attribute, ast.Subscript, ast.Starred)):
            return may_alias(e.value)
        if isinstance(e, ast.NamedExpr):
            return may_alias(e.value)
        if isinstance(e, ast.Call):
            if is_deepcopy(e):
                return False
            if isinstance(e.func, ast.Attribute) and may_alias(e.func.value):
                return True
            if (dotted(e.func) or "").split(".")[-1] in SHALLOW_COPIERS:
                return any(may_alias(x) for x in e.args)
            return False
        if isinstance(e, (ast.ListComp, ast.SetComp, ast.GeneratorExp,
                          ast.DictComp)):
            return any(may_alias(g.iter) for g in e.generators)
        if isinstance(e, (ast.Tuple, ast.List, ast.Set)):
            return any(may_alias(x) for x in e.elts)
        return False

    changed = True
    while changed:
        changed = False
        for name, bs in defs.bindings.items():
            if name in aliases:
                continue
            for b in bs:
                if b.value is not None and b.kind in (
                        "assign", "for", "comp", "with") and getattr(
                        b.stmt, "lineno", 0) > after_line \
                        and may_alias(b.value):
                    aliases.add(name)
                    changed = True
    copies, bad = 0, []
    for call in ast.walk(fi.node):
        if not isinstance(call, ast.Call) or getattr(call, "lineno", 0) <= \
                after_line:
            continue
        actuals = list(call.args) + [k.value for k in call.keywords]
        if not any(may_alias(x) for x in actuals):
            continue
        if is_deepcopy(call):
            copies += 1
            continue
        callees = [c.qualname for st in ctx.cg.sites_in(fi)
                   if st.node is call for c in st.callees]
        if not callees and (dotted(call.func) or "").split(".")[-1] in \
                HARMLESS_BUILTINS:
            continue
        if any(q in mutators for q in callees) or not callees:
            bad.append((next(x for x in actuals if may_alias(x)), call))
    return copies, bad, aliases


def stale_yields(ctx: Ctx, fi: FuncInfo, loop: ast.AST
                 ) -> list[tuple[ast.AST, str]]:
    """Yields inside ``loop`` (a per-item ``for``) whose value is a local
    name that, on some path from the loop head of the *current* iteration to
    the yield (exceptional edges into handlers included), has not been bound
    in this iteration: the value of an earlier item is emitted again."""
    cfg = ctx.cfg(fi)
    defs = ctx.defs(fi)
    out = []
    for y in [n for n in ast.walk(loop) if isinstance(n, ast.Yield)]:
        v = y.value
        if not isinstance(v, ast.Name) or defs.is_param(v.id):
            continue
        # the loop's own target is fresh by construction
        if any(isinstance(n, ast.Name) and n.id == v.id
               for n in ast.walk(getattr(loop, "target", ast.Pass()))):
            continue
        binds = [b for b in defs.of(v.id)
                 if any(x is b.stmt for x in ast.walk(loop))
                 and cfg.has(b.stmt)]
        yn = cfg.container(y)
        ok = bool(binds) and yn is not None and cfg.every_path_defines(
            cfg.node(loop), yn, [cfg.node(b.stmt) for b in binds])
        if not ok:
            out.append((y, v.id))
    return out


TRANSFORMING_MODEL_OPTIONS = {
    "str_strip_whitespace", "str_to_lower", "str_to_upper", "str_max_length",
    "coerce_numbers_to_str", "anystr_strip_whitespace", "anystr_lower",
    "anystr_upper", "max_anystr_length", "min_anystr_length",
    "str_min_length", "use_enum_values"}


def model_rewrites(ctx: Ctx, cls_name: str) -> list[tuple[ast.AST, str]]:
    """Constructs of a pydantic model class that rewrite the values passing
    through it: transforming ``model_config`` / ``Config`` options,
    validators that return something else than their argument, constrained
    string types (``constr(..)``, ``StringConstraints``) and ``Field``
    arguments that rewrite strings."""
    cls = ctx.index.cls(cls_name)
    probs: list[tuple[ast.AST, str]] = []
    for st in cls.node.body:
        cfg_call = None
        if isinstance(st, (ast.Assign, ast.AnnAssign)):
            tgt = st.targets[0] if isinstance(st, ast.Assign) else st.target
            if isinstance(tgt, ast.Name) and tgt.id == "model_config" \
                    and st.value is not None:
                cfg_call = st.value
            ann = getattr(st, "annotation", None)
            for part in (ann, st.value):
                if part is None:
                    continue
                for c in ast.walk(part):
                    if isinstance(c, ast.Call) and (dotted(c.func) or ""
                                                    ).split(".")[-1] in (
                            "constr", "StringConstraints", "conbytes"):
                        probs.append((st, f"{unparse(c)[:50]}: the string "
                                          "is rewritten / rejected"))
                    if isinstance(c, ast.Call) and (dotted(c.func) or ""
                                                    ).split(".")[-1] == \
                            "Field":
                        for k in c.keywords:
                            if k.arg in ("strip_whitespace", "to_lower",
                                         "to_upper", "max_length",
                                         "min_length", "pattern"):
                                probs.append((st, f"Field({k.arg}=..)"))
        if cfg_call is not None:
            keys = [k.arg for k in cfg_call.keywords] if isinstance(
                cfg_call, ast.Call) else [
                k.value for k in getattr(cfg_call, "keys", [])
                if isinstance(k, ast.Constant)]
            for k in keys:
                if k in TRANSFORMING_MODEL_OPTIONS:
                    probs.append((st, f"model_config {k}: strings are "
                                      "rewritten"))
        if isinstance(st, ast.ClassDef) and st.name == "Config":
            for x in st.body:
                if isinstance(x, ast.Assign) and isinstance(
                        x.targets[0], ast.Name) and x.targets[0].id in \
                        TRANSFORMING_MODEL_OPTIONS:
                    probs.append((x, f"Config.{x.targets[0].id}: strings "
                                     "are rewritten"))
        if isinstance(st, ast.FunctionDef) and any(
                ((dotted(d.func) if isinstance(d, ast.Call) else dotted(d))
                 or "").split(".")[-1] in ("field_validator", "validator",
                                            "model_validator",
                                            "root_validator")
                for d in st.decorator_list):
            vparam = st.args.args[1].arg if len(st.args.args) > 1 else None
            for r in ast.walk(st):
                if isinstance(r, ast.Return) and r.value is not None:
                    v = r.value
                    if not (isinstance(v, ast.Name) and v.id == vparam):
                        probs.append((r, f"validator {st.name} returns "
                                         f"'{unparse(v)[:40]}' instead of "
                                         "the value it was given"))
    return probs


def model_rejects(ctx: Ctx, cls_name: str) -> list[tuple[ast.AST, str]]:
    """Validators of a pydantic model class that can REJECT a record whose
    fields are all present and of the declared types (a ``raise`` inside a
    field / model validator)."""
    cls = ctx.index.cls(cls_name)
    out: list[tuple[ast.AST, str]] = []
    for st in cls.node.body:
        if isinstance(st, ast.FunctionDef) and any(
                ((dotted(d.func) if isinstance(d, ast.Call) else dotted(d))
                 or "").split(".")[-1] in ("field_validator", "validator",
                                            "model_validator",
                                            "root_validator")
                for d in st.decorator_list):
            for r in ast.walk(st):
                if isinstance(r, ast.Raise):
                    out.append((r, f"validator {st.name} raises: "
                                   f"'{unparse(r)[:60]}'"))
    return out


def crossed_handoffs(rep: Report, ctx: Ctx, rule: str,
                     modules: tuple[str, ...], minimum: int) -> None:
    """Positional hand-offs between package functions: two arguments that
    carry the names of two parameters of the callee are passed in those
    parameters' positions.  `f(graph, loop)` for `def f(loop, graph)` type-
    checks nowhere in this code base (no annotations are enforced at run
    time), fails loudly at best and crosses two sets of the same type at
    worst (start / end events, in- / out-sets).  Only a crossed PAIR is
    reported: a single local that happens to carry another parameter's name
    (a recursive call that passes its own `node` as the callee's `parent`)
    is a legitimate idiom."""
    entry = ctx.func("pv_to_puml_string")
    n_sites = 0
    bad = []
    for q in sorted(ctx.cg.closure([entry])):
        fi = ctx.index.functions.get(q)
        if fi is None or not any(m in fi.module.relpath for m in modules):
            continue
        for site in ctx.cg.sites_in(fi):
            if len(site.callees) != 1 or not isinstance(site.node, ast.Call):
                continue
            cal = site.callees[0]
            ps = cal.params()
            if ps and ps[0] in ("self", "cls"):
                ps = ps[1:]
            names: list[Optional[str]] = []
            for a in site.node.args:
                if isinstance(a, ast.Starred):
                    break
                names.append(a.id if isinstance(a, ast.Name) else (
                    a.attr if isinstance(a, ast.Attribute) else None))
            n_sites += 1
            for i, nm in enumerate(names[:len(ps)]):
                if nm is None or nm == ps[i] or nm not in ps:
                    continue
                j = ps.index(nm)
                if j < len(names) and names[j] == ps[i]:
                    bad.append((fi, site.node, cal, ps[i], ps[j]))
        # isinstance(object, Class): the class (a name bound to a class of
        # the package, or a tuple of such) is the SECOND argument
        for c in ast.walk(fi.node):
            if isinstance(c, ast.Call) and isinstance(c.func, ast.Name) \
                    and c.func.id == "isinstance" and len(c.args) == 2:
                n_sites += 1
                first = c.args[0]
                if isinstance(first, ast.Name) and first.id in \
                        ctx.index.classes and not (isinstance(
                            c.args[1], ast.Name) and c.args[1].id in
                            ctx.index.classes):
                    bad.append((fi, c, fi, "object", "class"))
    rep.analysed[f"{rule}_call_sites"] = n_sites
    if n_sites == 0:
        raise AnalysisError(f"{rule}: no resolved hand-off found in "
                            f"{modules} (expected about {minimum})")
    rep.ob(rule, "no positional hand-off crosses two parameters of the "
           "callee", not bad, fi=bad[0][0] if bad else entry,
           node=bad[0][1] if bad else entry.node,
           detail=(f"'{unparse(bad[0][1])[:70]}' passes '{bad[0][4]}' as "
                   f"'{bad[0][3]}' and '{bad[0][3]}' as '{bad[0][4]}' of "
                   f"{bad[0][2].short}" if bad else
                   f"{n_sites} resolved call sites, none crossed"))


def _init_of(ci) -> Optional[ast.FunctionDef]:  # type: ignore[no-untyped-def]
    for st in ci.node.body:
        if isinstance(st, ast.FunctionDef) and st.name == "__init__":
            return st
    return None


def _self_stores(fn: ast.FunctionDef, definite: bool) -> set[str]:
    """Attributes ``self.x = ..`` assigned in ``fn`` (``definite``: at the
    top level of the body or in BOTH arms of a top-level if)."""
    def of(stmts: list[ast.stmt]) -> set[str]:
        out: set[str] = set()
        for st in stmts:
            tg: list[ast.AST] = []
            if isinstance(st, ast.Assign):
                tg = list(st.targets)
            elif isinstance(st, (ast.AnnAssign, ast.AugAssign)):
                tg = [st.target]
            for t in tg:
                for x in (t.elts if isinstance(t, ast.Tuple) else [t]):
                    if isinstance(x, ast.Attribute) and isinstance(
                            x.value, ast.Name) and x.value.id == "self":
                        out.add(x.attr)
            if isinstance(st, ast.If):
                a, b = of(st.body), of(st.orelse)
                out |= (a & b) if definite else (a | b)
            elif not definite and isinstance(st, (ast.For, ast.While,
                                                  ast.With, ast.Try)):
                for fld in ("body", "orelse", "finalbody"):
                    out |= of(getattr(st, fld, []) or [])
        return out
    return of(fn.body)


def _calls_super_init(fn: ast.FunctionDef) -> bool:
    for st in fn.body:
        if isinstance(st, ast.Expr) and isinstance(st.value, ast.Call):
            f = st.value.func
            if isinstance(f, ast.Attribute) and f.attr == "__init__" and \
                    isinstance(f.value, ast.Call) and isinstance(
                        f.value.func, ast.Name) and f.value.func.id == "super":
                return True
    return False


def _norm_isnone(fn: ast.FunctionDef) -> ast.FunctionDef:
    """Copy of ``fn`` with ``not (a is None)`` -> ``a is not None``."""
    import copy
    fn = copy.deepcopy(fn)
    for node in ast.walk(fn):
        if isinstance(node, ast.If) and isinstance(node.test, ast.UnaryOp) \
                and isinstance(node.test.op, ast.Not) and isinstance(
                    node.test.operand, ast.Compare) and len(
                    node.test.operand.ops) == 1:
            c = node.test.operand
            flip = {ast.Is: ast.IsNot, ast.IsNot: ast.Is}.get(type(c.ops[0]))
            if flip is not None:
                node.test = ast.Compare(left=c.left, ops=[flip()],
                                        comparators=c.comparators)
    return fn


def faithful_records(rep: Report, ctx: Ctx, rule: str,
                     modules: tuple[str, ...]) -> None:
    """The objects the pipeline hands from phase to phase (events, loop
    events, model nodes, diagram nodes, logic blocks) are plain records.
    (a) every attribute that a method of the class reads through ``self`` is
    assigned by the constructor chain on every path (or is a property,
    method or class attribute); (b) a class with a base class initialises it;
    (c) a constructor stores a parameter under its own name - not under the
    name of another parameter - and a `None` default is replaced without
    dropping a given value; (d) a property setter stores its argument in the
    attribute the getter reads."""
    n_cls = n_attr = n_par = n_prop = 0
    by_node = {id(f.node): f for f in ctx.index.all_functions()}
    consts = constant_params(ctx)

    def fi_of(ci, node):  # type: ignore[no-untyped-def]
        if id(node) in by_node:
            return by_node[id(node)]
        for st in ci.node.body:
            if isinstance(st, ast.FunctionDef) and id(st) in by_node:
                return by_node[id(st)]
        return None
    for name in sorted(ctx.index.classes):
        for ci in ctx.index.classes[name]:
            if not any(m in ci.module.relpath for m in modules):
                continue
            init = _init_of(ci)
            n_cls += 1
            # ---- (a) + (b): definite assignment along the base chain
            assigned: set[str] = set()
            declared: set[str] = set()
            chain_ok = True
            external = False
            cur, seen = ci, set()
            why = ""
            while cur is not None and id(cur) not in seen:
                seen.add(id(cur))
                for st in cur.node.body:
                    if isinstance(st, (ast.FunctionDef,)):
                        declared.add(st.name)
                    elif isinstance(st, ast.Assign):
                        declared |= {t.id for t in st.targets
                                     if isinstance(t, ast.Name)}
                    elif isinstance(st, ast.AnnAssign) and isinstance(
                            st.target, ast.Name) and st.value is not None:
                        declared.add(st.target.id)
                ini = _init_of(cur)
                ext_base = [b for b in cur.base_names if b.split(".")[-1]
                            not in ("object", "Generic", "Protocol", "ABC",
                                    "Enum") and not b.startswith("Generic[")]
                external = external or bool(ext_base and not cur.bases)
                if ini is not None:
                    assigned |= _self_stores(ini, True)
                    # helpers called unconditionally by the constructor
                    meths = {m.name: m for m in cur.node.body
                             if isinstance(m, ast.FunctionDef)}
                    for st in ini.body:
                        if isinstance(st, ast.Expr) and isinstance(
                                st.value, ast.Call) and isinstance(
                                st.value.func, ast.Attribute) and isinstance(
                                st.value.func.value, ast.Name) and \
                                st.value.func.value.id == "self" and \
                                st.value.func.attr in meths:
                            assigned |= _self_stores(
                                meths[st.value.func.attr], True)
                    if ext_base and not _calls_super_init(ini):
                        chain_ok = False
                        why = f"{cur.name}.__init__ does not initialise " \
                              f"its base {ext_base[0]}"
                        break
                    if not cur.bases:
                        break
                    cur = cur.bases[0]
                else:
                    cur = cur.bases[0] if cur.bases else None
            if init is not None or ci.bases:
                rep.ob(rule, f"{ci.name}: the base class is initialised",
                       chain_ok, fi=fi_of(ci, init or ci.node), node=init or ci.node,
                       detail=why or "super().__init__ called along the "
                       "whole chain")
            reads: dict[str, ast.AST] = {}
            for st in ci.node.body:
                if not isinstance(st, ast.FunctionDef):
                    continue
                mfi = by_node.get(id(st))
                dead = dead_statements(ctx, mfi, consts) if mfi else set()
                for x in ast.walk(st):
                    if isinstance(x, ast.Attribute) and isinstance(
                            x.value, ast.Name) and x.value.id == "self" \
                            and isinstance(x.ctx, ast.Load) \
                            and id(x) not in dead:
                        reads.setdefault(x.attr, x)
            lazily = set()
            for st in ci.node.body:
                if isinstance(st, ast.FunctionDef) and st.name != "__init__":
                    lazily |= _self_stores(st, False)
            missing = sorted(a for a in reads if a not in assigned
                             and a not in declared
                             and not a.startswith("__"))
            n_attr += len(reads)
            if chain_ok and (init is not None) and not external:
                rep.ob(rule, f"{ci.name}: every attribute its methods read "
                       "is assigned by the constructor chain", not missing,
                       fi=fi_of(ci, init), node=reads[missing[0]] if missing else init,
                       detail=(f"read but never assigned on every path: "
                               f"{missing}" if missing else
                               f"{len(reads)} attributes read, all assigned"))
            # ---- (c) parameters stored under their own name
            if init is not None:
                ps = [a.arg for a in init.args.args[1:]
                      + init.args.kwonlyargs]
                bad = []
                for st in init.body:
                    if not isinstance(st, (ast.Assign, ast.AnnAssign)):
                        continue
                    t = st.targets[0] if isinstance(st, ast.Assign) \
                        else st.target
                    v = st.value
                    if not (isinstance(t, ast.Attribute) and isinstance(
                            t.value, ast.Name) and t.value.id == "self") \
                            or v is None:
                        continue
                    a = t.attr.lstrip("_")
                    used = {x.id for x in ast.walk(v)
                            if isinstance(x, ast.Name) and x.id in ps}
                    n_par += 1
                    if a in ps and used and a not in used:
                        bad.append((st, f"self.{t.attr} is computed from "
                                        f"{sorted(used)}, not from '{a}'"))
                    if isinstance(v, ast.IfExp) and a in ps:
                        tst = unparse(v.test).replace(" ", "")
                        keep = None
                        if tst == f"{a}isNone":
                            keep = v.orelse
                        elif tst in (f"{a}isnotNone", a):
                            keep = v.body
                        if keep is not None and not (isinstance(
                                keep, ast.Name) and keep.id == a):
                            bad.append((st, f"a given '{a}' is replaced by "
                                            "the default"))
                used_names = {x.id for x in ast.walk(init)
                              if isinstance(x, ast.Name)
                              and isinstance(x.ctx, ast.Load)}
                for q in ps:
                    if q not in used_names:
                        bad.append((init, f"parameter '{q}' is dropped: the "
                                          "constructor never uses it"))
                rep.ob(rule, f"{ci.name}.__init__ stores every parameter "
                       "under its own name and keeps a given value", not bad,
                       fi=fi_of(ci, init), node=bad[0][0] if bad else init,
                       detail=bad[0][1] if bad else f"{len(ps)} parameters")
            # ---- (d) property pairs
            getters = {st.name: st for st in ci.node.body
                       if isinstance(st, ast.FunctionDef) and any(
                           unparse(d) == "property" for d in st.decorator_list)}
            for st in ci.node.body:
                if not isinstance(st, ast.FunctionDef):
                    continue
                for d in st.decorator_list:
                    if isinstance(d, ast.Attribute) and d.attr == "setter" \
                            and st.name in getters:
                        n_prop += 1
                        g = getters[st.name]
                        gread = {x.attr for x in ast.walk(g) if isinstance(
                            x, ast.Attribute) and isinstance(
                            x.value, ast.Name) and x.value.id == "self"}
                        val = st.args.args[1].arg if len(
                            st.args.args) > 1 else "?"
                        stores = [(x.targets[0].attr, x.value) for x in
                                  ast.walk(st) if isinstance(x, ast.Assign)
                                  and isinstance(x.targets[0], ast.Attribute)
                                  and isinstance(x.targets[0].value, ast.Name)
                                  and x.targets[0].value.id == "self"]
                        stores += [(x.value.value.attr if isinstance(
                            x.value.value, ast.Attribute) else "?", None)
                            for x in ast.walk(st) if isinstance(x, ast.Assign)
                            and isinstance(x.targets[0], ast.Subscript)
                            and False]
                        ok = any(a in gread and v is not None and any(
                            isinstance(y, ast.Name) and y.id == val
                            for y in ast.walk(v)) for a, v in stores) or \
                            not stores and any(
                                isinstance(y, ast.Name) and y.id == val
                                for b_ in st.body for y in ast.walk(b_)
                                if isinstance(y, ast.Name) and isinstance(
                                    y.ctx, ast.Load))
                        # is-None guards: the getter never returns the
                        # attribute on the path where it is None, the setter
                        # never stores on a path where ANOTHER attribute it
                        # checks is None
                        def arms(fn, want):  # type: ignore[no-untyped-def]
                            # yields (attr, is_none_arm_stmts, set_arm_stmts)
                            for node in ast.walk(fn):
                                if isinstance(node, ast.If) and isinstance(
                                        node.test, ast.Compare) and len(
                                        node.test.ops) == 1 and isinstance(
                                        node.test.ops[0], (ast.Is, ast.IsNot)
                                        ) and unparse(
                                        node.test.comparators[0]) == "None" \
                                        and unparse(node.test.left
                                                    ).startswith("self."):
                                    idx = fn.body.index(node) if node in \
                                        fn.body else None
                                    rest = fn.body[idx + 1:] if idx is not \
                                        None else []
                                    body = list(node.body)
                                    orelse = list(node.orelse)
                                    ends = body and isinstance(
                                        body[-1], (ast.Raise, ast.Return))
                                    if ends:
                                        orelse = orelse + rest
                                    is_none = isinstance(node.test.ops[0],
                                                         ast.Is)
                                    yield (unparse(node.test.left)[5:],
                                           body if is_none else orelse,
                                           orelse if is_none else body)
                        gbad = ""
                        for attr, none_arm, set_arm in arms(_norm_isnone(g), None):
                            if any(isinstance(x, ast.Return) and x.value is
                                   not None and unparse(x.value) ==
                                   f"self.{attr}" for s_ in none_arm
                                   for x in ast.walk(s_)):
                                gbad = f"getter returns self.{attr} on the " \
                                       "path where it is None"
                            if any(isinstance(x, ast.Raise) for s_ in set_arm
                                   for x in ast.walk(s_)):
                                gbad = f"getter raises although self.{attr} " \
                                       "is set"
                        for attr, none_arm, set_arm in arms(_norm_isnone(st), None):
                            stored_here = {a for a, _ in stores}
                            if attr not in stored_here and any(
                                    isinstance(x, ast.Assign) for s_ in
                                    none_arm for x in ast.walk(s_)):
                                gbad = f"setter stores although self.{attr} " \
                                       "is None"
                            if attr in stored_here and any(
                                    isinstance(x, ast.Assign) for s_ in
                                    set_arm for x in ast.walk(s_)) and any(
                                    isinstance(x, ast.Raise) for s_ in
                                    none_arm for x in ast.walk(s_)):
                                gbad = f"write-once setter of self.{attr} " \
                                       "stores only when it is already set"
                        rep.ob(rule, f"{ci.name}.{st.name}: is-None guards "
                               "of getter and setter point the right way",
                               not gbad, fi=fi_of(ci, st), node=st,
                               detail=gbad or "guards consistent")
                        rep.ob(rule, f"{ci.name}.{st.name}: the setter "
                               "stores its argument where the getter reads",
                               ok, fi=fi_of(ci, st), node=st,
                               detail=f"getter reads {sorted(gread)}, setter "
                                      f"stores {[a for a, _ in stores]}")
            setters = {st.name for st in ci.node.body if isinstance(
                st, ast.FunctionDef) and any(isinstance(d, ast.Attribute)
                                             and d.attr == "setter"
                                             for d in st.decorator_list)}
            for gname, g in getters.items():
                if gname in setters:
                    continue
                g = _norm_isnone(g)
                gbad = ""
                for node in ast.walk(g):
                    if isinstance(node, ast.If) and isinstance(
                            node.test, ast.Compare) and len(
                            node.test.ops) == 1 and isinstance(
                            node.test.ops[0], (ast.Is, ast.IsNot)) and \
                            unparse(node.test.comparators[0]) == "None" and \
                            unparse(node.test.left).startswith("self.") and \
                            node in g.body:
                        attr = unparse(node.test.left)[5:]
                        rest = g.body[g.body.index(node) + 1:]
                        body, orelse = list(node.body), list(node.orelse)
                        if body and isinstance(body[-1], (ast.Raise,
                                                          ast.Return)):
                            orelse = orelse + rest
                        is_none = isinstance(node.test.ops[0], ast.Is)
                        none_arm = body if is_none else orelse
                        set_arm = orelse if is_none else body
                        if any(isinstance(x, ast.Return) and x.value is not
                               None and unparse(x.value) == f"self.{attr}"
                               for s_ in none_arm for x in ast.walk(s_)):
                            gbad = f"returns self.{attr} on the path where " \
                                   "it is None"
                        if any(isinstance(x, ast.Raise) for s_ in set_arm
                               for x in ast.walk(s_)):
                            gbad = f"raises although self.{attr} is set"
                        n_prop += 1
                        rep.ob(rule, f"{ci.name}.{gname}: the is-None guard "
                               "of the getter points the right way", not gbad,
                               fi=fi_of(ci, g), node=g,
                               detail=gbad or "guard consistent")
    rep.analysed[f"{rule}_records"] = {"classes": n_cls, "attributes": n_attr,
                                       "stores": n_par, "properties": n_prop}


def constant_params(ctx: Ctx, entry_spec: str = "pv_to_puml_string"
                    ) -> dict[tuple[str, str], object]:
    """(function, parameter) -> the one constant every call site in the
    closure of the entry point passes (directly, or by forwarding a
    parameter that is itself such a constant).  Used to recognise branches
    that today's pipeline cannot take (``direction == "incoming"``)."""
    entry = ctx.func(entry_spec)
    clo = [ctx.index.functions[q] for q in sorted(ctx.cg.closure([entry]))
           if q in ctx.index.functions]
    TOP = object()
    val: dict[tuple[str, str], object] = {}
    sites: dict[str, list[tuple[FuncInfo, ast.Call]]] = {}
    for f in clo:
        for site in ctx.cg.sites_in(f):
            if isinstance(site.node, ast.Call):
                for c in site.callees:
                    sites.setdefault(c.qualname, []).append((f, site.node))
    BOT = object()
    cur: dict[tuple[str, str], object] = {}
    changed = True
    rounds = 0
    while changed and rounds < 12:
        changed = False
        rounds += 1
        for f in clo:
            ps = f.params()
            off = 1 if ps and ps[0] in ("self", "cls") else 0
            for i, p in enumerate(ps[off:]):
                acc: object = BOT
                calls = sites.get(f.qualname, [])
                if not calls:
                    acc = TOP
                for caller, call in calls:
                    a: Optional[ast.AST] = None
                    if i < len(call.args) and not any(isinstance(
                            x, ast.Starred) for x in call.args[:i + 1]):
                        a = call.args[i]
                    for kw in call.keywords:
                        if kw.arg == p:
                            a = kw.value
                    if a is None:
                        a = default_of(f.node, p)
                    v: object = TOP
                    if isinstance(a, ast.Constant):
                        v = ("c", a.value)
                    elif isinstance(a, ast.Name) and a.id in caller.params():
                        v = cur.get((caller.qualname, a.id), BOT)
                    if v is BOT:
                        continue
                    if acc is BOT:
                        acc = v
                    elif acc != v:
                        acc = TOP
                if cur.get((f.qualname, p), BOT) != acc and acc is not BOT:
                    cur[(f.qualname, p)] = acc
                    changed = True
    val = {k: v[1] for k, v in cur.items()  # type: ignore[index]
           if isinstance(v, tuple)}
    return val


def dead_statements(ctx: Ctx, fi: FuncInfo,
                    consts: dict[tuple[str, str], object]) -> set[int]:
    """ids of the statements in arms that cannot run because a parameter is
    the same constant at every call site of today's pipeline."""
    dead: set[int] = set()
    mine = {p: v for (q, p), v in consts.items() if q == fi.qualname}
    if not mine:
        return dead

    def truth(t: ast.AST) -> Optional[bool]:
        if isinstance(t, ast.Compare) and len(t.ops) == 1:
            l, r = t.left, t.comparators[0]
            if isinstance(r, ast.Name) and isinstance(l, ast.Constant):
                l, r = r, l
            if isinstance(l, ast.Name) and l.id in mine and isinstance(
                    r, ast.Constant):
                if isinstance(t.ops[0], ast.Eq):
                    return mine[l.id] == r.value
                if isinstance(t.ops[0], ast.NotEq):
                    return mine[l.id] != r.value
        return None
    for n in ast.walk(fi.node):
        if isinstance(n, ast.If):
            tv = truth(n.test)
            if tv is True:
                arm = n.orelse
            elif tv is False:
                arm = n.body
            else:
                continue
            for st in arm:
                for x in ast.walk(st):
                    dead.add(id(x))
    return dead


def swallowing_handlers(ctx: Ctx, entry: FuncInfo, targets: set[str]
                        ) -> tuple[list[tuple[FuncInfo, ast.ExceptHandler]],
                                   int]:
    """Handlers in the call closure of ``entry`` that can complete normally
    (do not end in ``raise``) around a ``try`` body that reaches one of the
    ``targets`` (qualified names, closed under calls)."""
    tq = ctx.cg.closure(targets) if targets else set()
    bad: list[tuple[FuncInfo, ast.ExceptHandler]] = []
    n_try = 0
    for q in sorted(ctx.cg.closure([entry])):
        fi = ctx.index.functions.get(q)
        if fi is None:
            continue
        for t in ast.walk(fi.node):
            if not isinstance(t, ast.Try):
                continue
            n_try += 1
            inside = {id(x) for st in t.body for x in ast.walk(st)}
            reach: set[str] = set()
            for site in ctx.cg.sites_in(fi):
                if id(site.node) in inside:
                    reach |= ctx.cg.closure(
                        [c.qualname for c in site.callees])
            if not (reach & tq):
                continue
            for h in t.handlers:
                last = h.body[-1] if h.body else None
                if not isinstance(last, ast.Raise):
                    bad.append((fi, h))
    return bad, n_try


def borrow(rep: "Report", ctx: "Ctx", mod: Any, prop: str, from_rule: str,
           to_rule: str) -> int:
    """Evaluate ``from_rule`` of another property's check and register its
    obligations under ``to_rule`` of this report (an obligation that is a
    necessary condition of two properties is decided once and reported by
    both checks)."""
    from ..core import Report as _R
    sub = _R(prop, ctx.index)
    mod.check(sub, ctx)
    n = 0
    for o in sub.obligations:
        if o.rule == from_rule:
            o.rule = to_rule
            rep.obligations.append(o)
            n += 1
    rep.funcs_seen |= sub.funcs_seen
    return n


_IO_CALLS = {"open", "dump", "dumps", "write", "writelines", "replace",
             "rename", "write_text", "write_bytes", "flush", "close",
             "makedirs", "mkdir"}


def swallowed_io(ctx: "Ctx", entry: "FuncInfo"
                 ) -> list[tuple["FuncInfo", ast.ExceptHandler]]:
    """Handlers in the call closure of ``entry`` that can complete normally
    around a ``try`` body that opens / writes / renames a file (builtin and
    library calls, which the call graph does not resolve)."""
    from ..core import call_name
    bad = []
    for q in sorted(ctx.cg.closure([entry])):
        fi = ctx.index.functions.get(q)
        if fi is None:
            continue
        for t in ast.walk(fi.node):
            if not isinstance(t, ast.Try):
                continue
            io = any(isinstance(c, ast.Call) and call_name(c) in _IO_CALLS
                     for st in t.body for c in ast.walk(st)) or any(
                isinstance(w, ast.With) for st in t.body for w in ast.walk(st))
            if not io:
                continue
            for h in t.handlers:
                last = h.body[-1] if h.body else None
                if not isinstance(last, ast.Raise):
                    bad.append((fi, h))
    return bad


_SIZE_MUTATORS = {"add", "remove", "discard", "pop", "clear", "update",
                  "difference_update", "intersection_update",
                  "symmetric_difference_update", "popitem", "append",
                  "insert", "extend", "setdefault"}


def resized_while_iterated(ctx: "Ctx", fi: "FuncInfo"
                           ) -> list[tuple[ast.For, ast.AST, str]]:
    """``for x in E:`` loops of ``fi`` whose body changes the size of the
    very collection ``E`` (same expression: a name or an attribute chain)
    without leaving the loop right afterwards.  (A mutation through a callee
    is not matched: the same attribute name on another receiver is the
    normal case - `for s in a.in_event_sets: b.update_in_event_sets(..)`.)  Iterating a copy (``list(E)``,
    ``E.copy()``, ``sorted(E)``) is not matched."""
    out: list[tuple[ast.For, ast.AST, str]] = []
    for l in ast.walk(fi.node):
        if not isinstance(l, ast.For) or not isinstance(
                l.iter, (ast.Name, ast.Attribute)):
            continue
        it = unparse(l.iter)
        for st in l.body:
            for c in ast.walk(st):
                if isinstance(c, ast.Call) and isinstance(
                        c.func, ast.Attribute) and c.func.attr in \
                        _SIZE_MUTATORS and unparse(c.func.value) == it:
                    if not _leaves_loop_after(l, c):
                        out.append((l, c, f"{it}.{c.func.attr}(..)"))
                elif isinstance(c, ast.Delete) and any(
                        isinstance(t, ast.Subscript)
                        and unparse(t.value) == it for t in c.targets):
                    if not _leaves_loop_after(l, c):
                        out.append((l, c, f"del {it}[..]"))
    return out


def _leaves_loop_after(loop: ast.For, node: ast.AST) -> bool:
    """The statement containing ``node`` is followed, in its own block, by
    ``break`` / ``return`` / ``raise`` as the next statement."""
    for parent in ast.walk(loop):
        for fld in ("body", "orelse", "finalbody"):
            blk = getattr(parent, fld, None)
            if not isinstance(blk, list):
                continue
            for i, st in enumerate(blk):
                if isinstance(st, ast.stmt) and any(
                        x is node for x in ast.walk(st)) and not any(
                        isinstance(y, (ast.For, ast.While, ast.If, ast.Try,
                                       ast.With)) and any(
                            x is node for x in ast.walk(y)) and y is not st
                        for y in ast.walk(st)):
                    nxt = blk[i + 1] if i + 1 < len(blk) else None
                    return isinstance(nxt, (ast.Break, ast.Return, ast.Raise))
    return False
