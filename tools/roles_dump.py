import ast,sys
sys.path.insert(0,'/verif')
from sa.core import Index
from sa.ctx import Ctx
from sa.roles import Roles
ctx=Ctx(Index('/repo'))
def dump(fn):
    fi=ctx.func(fn); R=Roles(ctx,fi)
    print("==",fn, fi.params())
    for st in ast.walk(fi.node):
        if isinstance(st,ast.Expr) and isinstance(st.value,ast.Call):
            c=st.value
            recv = R.of(c.func.value,c)+"." if isinstance(c.func,ast.Attribute) else ""
            nm = c.func.attr if isinstance(c.func,ast.Attribute) else R.of(c.func,c)
            print("   call", recv+nm, [R.of(a,c) for a in c.args], R.guards(c)+R.side)
        if isinstance(st,ast.Expr) and isinstance(st.value,(ast.Yield,)): print("   yield", R.of(st.value.value,st), R.guards(st))
        if isinstance(st,ast.Assign) and not isinstance(st.targets[0],ast.Name): print("   store", R.of(st.targets[0],st), "<-", R.of(st.value,st), R.guards(st))
        if isinstance(st,ast.Return) and st.value is not None: print("   ret", R.of(st.value,st), R.guards(st))
        if isinstance(st,ast.Raise): print("   raise", R.guards(st))
for fn in sys.argv[1:]: dump(fn)
