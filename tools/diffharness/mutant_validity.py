"""Development aid (NOT part of any check, never run by MANIFEST commands):
for every self-test mutant that edits the pv2puml half, compare the emitted
PlantUML of the mutated tree with the pinned tree on random job families.
A mutant whose output never differs is a hint that the obligation it breaks
may not be a necessary condition of the behaviour (or that the generator does
not reach the code) - such obligations are reviewed by hand.
usage: python mutant_validity.py [N_SEEDS] [PROP ...]"""
import sys, os, json, shutil, subprocess, glob, tempfile
from concurrent.futures import ThreadPoolExecutor
HERE = os.path.dirname(os.path.abspath(__file__))
sys.path.insert(0, "/verif")
from sa import selftest  # noqa: E402
selftest._load_recipes()
N = int(sys.argv[1]) if len(sys.argv) > 1 and sys.argv[1].isdigit() else 200
props = [a for a in sys.argv[1:] if not a.isdigit()] or ["C01", "C05", "C07"]
STUB = "/verif/tools/janus_stub"
HALF = ("events.py", "logic_detection.py", "puml_graph.py", "loop_detection/",
        "pv_to_puml/", "walk_puml_graph/")


def run(tree, mode):
    env = dict(os.environ, PYTHONHASHSEED="0", GEN_MODE=str(mode),
               PYTHONPATH=f"{tree}:{STUB}")
    p = subprocess.run(["/venv/bin/python", f"{HERE}/run_tree.py", "0", str(N)],
                       env=env, capture_output=True, text=True, timeout=3600)
    out = {}
    for line in p.stdout.splitlines():
        if line.startswith("{"):
            d = json.loads(line)
            out[d["seed"]] = (d["st"], d["h"])
    return out


def tree_of(v):
    d = tempfile.mkdtemp(prefix="mv_")
    shutil.copytree("/repo/tel2puml", d + "/tel2puml")
    for f, old, new in v.edits:
        c = [p for p in glob.glob(d + "/tel2puml/**/*.py", recursive=True)
             if p.endswith(f)]
        if len(c) != 1:
            return None
        s = open(c[0]).read()
        if s.count(old) != 1:
            return None
        open(c[0], "w").write(s.replace(old, new))
    return d


base = {m: run("/repo", m) for m in (1, 2)}
print("baseline", {m: len(base[m]) for m in base}, flush=True)
seen = set()
todo = []
for v in selftest.VARIANTS:
    if v.kind != "mutant" or v.prop not in props:
        continue
    if not all(any(h in f for h in HALF) for f, _, _ in v.edits):
        continue
    key = tuple(v.edits)
    if key in seen:
        continue
    seen.add(key)
    todo.append(v)


def job(v):
    d = tree_of(v)
    if d is None:
        return v, None
    try:
        diff = 0
        tot = 0
        for m in (1, 2):
            r = run(d, m)
            for s, x in r.items():
                tot += 1
                if base[m].get(s) != x:
                    diff += 1
        return v, (diff, tot)
    finally:
        shutil.rmtree(d, ignore_errors=True)


from concurrent.futures import as_completed
with ThreadPoolExecutor(max_workers=14) as ex:
    futs = [ex.submit(job, v) for v in todo]
    for f in as_completed(futs):
        v, res = f.result()
        print(f"{v.prop} {v.vid}: " + ("stale" if res is None else
              f"{res[0]} of {res[1]} outputs differ"), flush=True)
