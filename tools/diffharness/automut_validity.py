"""Development aid (NOT part of any check): which obligations of the effect
tables are only ever exercised by mutants that do not change the output?
For the first-order mutants (sa.automut) of the pv2puml functions that are
DETECTED only by table rules, compare the emitted PlantUML of the mutated
tree with the pinned tree on random job families.
usage: python automut_validity.py [N_SEEDS]"""
import sys, os, json, shutil, subprocess, tempfile, re
from pathlib import Path
from concurrent.futures import ProcessPoolExecutor, ThreadPoolExecutor, as_completed
HERE = os.path.dirname(os.path.abspath(__file__))
sys.path.insert(0, "/verif")
from sa import automut  # noqa: E402
from sa.core import DEFAULT_ROOT, PACKAGE  # noqa: E402
N = int(sys.argv[1]) if len(sys.argv) > 1 else 60
STUB = "/verif/tools/janus_stub"
TABLE_RULES = re.compile(r"^R(7\.1[2-9]|7\.20|5\.1[4-9]|5\.2[01]|1\.1[4-9]|1\.2[0-5]|4\.8)$")


def run(tree, mode):
    env = dict(os.environ, PYTHONHASHSEED="0", GEN_MODE=str(mode),
               PYTHONPATH=f"{tree}:{STUB}", CASE_TIMEOUT="5")
    p = subprocess.run(["/venv/bin/python", f"{HERE}/run_tree.py", "0", str(N)],
                       env=env, capture_output=True, text=True, timeout=3600)
    out = {}
    for line in p.stdout.splitlines():
        if line.startswith("{"):
            d = json.loads(line)
            out[d["seed"]] = (d["st"], d["h"])
    return out


def main():
    jobs = {}
    for prop in ("C01", "C05", "C07"):
        for j in automut.generate(prop, DEFAULT_ROOT):
            jobs.setdefault((j[2], j[3], j[4]), []).append(j)
    uniq = [v[0] for v in jobs.values()]
    only = os.environ.get("FUNC")
    if only:
        uniq = [j for j in uniq if j[3].split(":")[-1] in only.split(",")]
    alljobs = [("ALL3",) + j[1:] for j in uniq]
    print("mutants", len(alljobs), flush=True)
    # detection by C01, C05, C07 together
    def det(j):
        fired = set()
        for prop in ("C01", "C05", "C07"):
            r = automut._run((prop,) + j[1:])
            if r["status"] == "detected":
                fired |= set(r["fired"])
        return j, fired
    with ProcessPoolExecutor(max_workers=14) as ex:
        dets = list(ex.map(_det, alljobs, chunksize=4))
    only_old = os.environ.get("OLD_RULES") == "1"
    pick = [(j, f) for j, f in dets if f and (all(TABLE_RULES.match(r) for r in f) != only_old)]
    print("detected by table rules only", len(pick), flush=True)
    base = {m: run("/repo", m) for m in (1, 2)}

    def job(jf):
        j, fired = jf
        d = tempfile.mkdtemp(prefix="amv_")
        try:
            shutil.copytree("/repo/tel2puml", d + "/tel2puml")
            Path(d, j[2]).write_text(j[5])
            diff = tot = 0
            for m in (1, 2):
                r = run(d, m)
                for s, x in r.items():
                    tot += 1
                    diff += base[m].get(s) != x
            return j, fired, diff, tot
        finally:
            shutil.rmtree(d, ignore_errors=True)
    with ThreadPoolExecutor(max_workers=14) as ex:
        for f in as_completed([ex.submit(job, x) for x in pick]):
            j, fired, diff, tot = f.result()
            print(f"{diff:3d}/{tot} {j[3].split(':')[-1]}: {j[4][:90]} :: {' '.join(sorted(fired))}", flush=True)


def _det(j):
    fired = set()
    for prop in ("C01", "C05", "C07"):
        r = automut._run((prop,) + tuple(j[1:]))
        if r["status"] == "detected":
            fired |= set(r["fired"])
    return j, fired


if __name__ == "__main__":
    main()
