"""Like mk_table.py, but lists EVERY call of a package function (also as a
sub-expression), with abbreviations: usage mk_table2.py FUNC [ABBR=role ...]"""
import ast, sys
sys.path.insert(0, '/verif')
from sa.core import Index
from sa.ctx import Ctx
from sa.rules.effspec import effects
ctx = Ctx(Index('/repo'))
fn = sys.argv[1]
abbr = [a.split("=", 1) for a in sys.argv[2:]]
fi = ctx.func(fn)
pkg = {f.node.name for f in ctx.index.all_functions()}
names = {n.func.id if isinstance(n.func, ast.Name) else n.func.attr
         for n in ast.walk(fi.node) if isinstance(n, ast.Call)
         and isinstance(n.func, (ast.Name, ast.Attribute))}
names = {n for n in names if n in pkg}


def ab(x):
    if isinstance(x, (tuple, list)):
        return type(x)(ab(y) for y in x)
    for b, a in abbr:
        x = x.replace(a, b)
    return x


for e in effects(ctx, fi, names=names):
    if e.kind == "raise":
        continue
    print(e.kind, e.name, "|", ab(e.recv), "|", ab(e.args))
    for g in ab(e.guards):
        print("      ", g)
