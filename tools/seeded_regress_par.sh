#!/usr/bin/env bash
# Parallel form of seeded_regress.sh: tools/seeded_regress_par.sh [JOBS]
# (tools/try_seed.sh works on a scratch copy, /repo is never touched).
cd /verif
one() {
  d="$1"; id=$(basename "$d")
  res=$(tools/try_seed.sh "${d}/patch.diff" 2>&1)
  out=$(echo "$res" | grep -E "^C[0-9]+ rc=[12]" | sed -E 's/^(C[0-9]+) rc=([0-9]).*/\1(rc\2)/' | tr '\n' ' ')
  rules=$(echo "$res" | grep -oE "VIOLATED R[0-9.]+|ANALYSIS-ERROR" | sort -u | tr '\n' ' ')
  echo "$id : ${out:-none} :: ${rules:-}"
}
export -f one
ls -d /verif/seeded/*/ | sed 's#/$##' | xargs -P "${1:-8}" -I{} bash -c 'one {}' | sort
