"""C01 -- learned diagram accepts every job it was learned from (plumbing)."""
from __future__ import annotations

import ast
import importlib.util
from pathlib import Path
from typing import Optional

from ..core import (AnalysisError, FuncInfo, Report, call_name, const_value,
                    dotted, unparse)
from ..ctx import Ctx
from ..dataflow import default_of
from ..effects import (TypeInfer, attr_channel, enum_channels, flag_channel,
                       inst_channel)
from .markings import producer_before_consumer, stmt_closures
from .util import actual, calls_in, cguards, ctor_arg, enclosing

EXPLANATION = (
    "The behaviour (termination and language inclusion of a process-mining "
    "heuristic) is NOT decided. Decided: the pipeline's plumbing, which is a "
    "necessary condition of acceptance for every definition that uses the "
    "corresponding construct. R1.1 producer-before-consumer on every "
    "marking: markings (PUMLEvent members added to event_types, the "
    "loop-kill-path flags, sub_graph / outgoing_logic / eventsets_incoming "
    "attributes, LoopEvent instances) and their producer / consumer sites "
    "are discovered by AST patterns with receiver-class inference; at the "
    "entry pv_to_puml_string every statement whose resolved callee closure "
    "contains a consumer must be reached only through a statement whose "
    "closure contains a producer (CFG set-dominance). R1.2 the operator "
    "vocabulary is total along the hand-off chain pm4py Operator -> "
    "logic_detection.Operator -> node.operator_name_map -> PUMLOperator -> "
    "PUMLOperatorNodes -> OPERATOR_NODE_PUML_MAP (pm4py's enum is parsed "
    "from site-packages, not imported). R1.3 ingestion pairs post_events "
    "with update_event_sets and previous_events with update_in_event_sets on "
    "the entry keyed by the event's own type, unconditionally for every "
    "event. R1.4 the dummy start is added on the public path (constant "
    "propagation of add_dummy_start=True along the call chain). R1.5 the "
    "phases are chained: each phase consumes the object the previous phase "
    "returned."
    " Added: R1.6 every phase over the nested graphs reaches every loop body; R1.7 the uids tying a loop node to its body are handed over unchanged; R1.8 the phases after ingestion run on a deep copy of the model (may-alias escape analysis); R1.9 event-type lists keep their repetitions up to the multiset they are compared with; R1.10 every child of a gate-tree node is translated.")
TRUSTED = ["receiver-class inference of sa/effects.py (annotations, "
           "isinstance narrowing, constructor assignment, single visible "
           "declaring class)"]
NOT_DECIDED = ["gate inference, loop component classification, merge "
               "validation, path rotation (value-dependent heuristics)",
               "termination of the walk"]
ASSUMPTIONS = ["janus (test_event_generator) GraphSolution/EventSolution are "
               "opaque: post_events / previous_events mean what their names "
               "say"]


def check(rep: Report, ctx: Ctx) -> None:
    r11(rep, ctx)
    r12(rep, ctx)
    r13(rep, ctx)
    r14(rep, ctx)
    r15(rep, ctx)
    r16(rep, ctx)
    r17(rep, ctx)
    r18(rep, ctx)
    r19(rep, ctx)
    r110(rep, ctx)
    r111(rep, ctx)
    r112(rep, ctx)
    r113(rep, ctx)
    r114(rep, ctx)
    r115(rep, ctx)
    r116(rep, ctx)
    r122(rep, ctx)
    r124(rep, ctx)
    r125(rep, ctx)
    r126(rep, ctx)
    r127(rep, ctx)
    r128(rep, ctx)
    r129(rep, ctx)
    r130(rep, ctx)
    r131(rep, ctx)


def r18(rep: Report, ctx: Ctx) -> None:
    """(shared with C04 R4.5)  Loop extraction and the later phases rewrite
    Event objects in place (successor sets become LOOP_n, dummy events are
    spliced in).  They must work on a private copy: the caller keeps the
    model (it is saved with -om and handed to the next run / the next call
    with the same dictionary), and a rewritten model makes the next learning
    step fail on, or mis-learn, the jobs it was learned from."""
    rep.rule("R1.8", "the phases after ingestion never rewrite the model "
             "they were given (they run on a deep copy)", 3)
    from . import c04 as _c04
    sub = Report("C04", ctx.index)
    sub.rule("R4.5", "derived computations run on a copy", 1)
    _c04.r45(sub, ctx)
    for o in sub.obligations:
        o.rule = "R1.8"
        rep.obligations.append(o)
    rep.funcs_seen |= sub.funcs_seen
    rep.analysed.update(sub.analysed)


def channels(ctx: Ctx):
    idx = ctx.index
    ti = TypeInfer(idx)
    out = []
    enums = enum_channels(idx, "PUMLEvent")
    for m in sorted(enums):
        out.append(enums[m])
    out.append(flag_channel(idx, "is_loop_kill_path"))
    out.append(attr_channel(idx, ti, idx.cls("SubGraphNode"), "sub_graph"))
    out.append(attr_channel(idx, ti, idx.cls("PUMLEventNode"), "sub_graph"))
    out.append(attr_channel(idx, ti, idx.cls("Node"), "outgoing_logic"))
    out.append(attr_channel(idx, ti, idx.cls("Node"), "eventsets_incoming"))
    out.append(inst_channel(idx, idx.cls("LoopEvent")))
    return out


def r11(rep: Report, ctx: Ctx) -> None:
    rep.rule("R1.1", "producer before consumer on every marking "
             "(entry pv_to_puml_string)", 10)
    entry = ctx.func("pv_to_puml_string")
    cl = stmt_closures(ctx, entry)
    table = []
    for ch in channels(ctx):
        prod, cons = producer_before_consumer(rep, ctx, "R1.1", entry, ch, cl)
        table.append({
            "marking": ch.name,
            "producer_functions": sorted(q.split(":")[-1]
                                         for q in ch.producer_funcs()),
            "consumer_functions": sorted(q.split(":")[-1]
                                         for q in ch.consumer_funcs()),
            "producer_statements": len(prod), "consumer_statements": len(cons),
        })
        if ch.name in ("enum:PUMLEvent.BREAK", "enum:PUMLEvent.LOOP",
                       "enum:PUMLEvent.MERGE", "enum:PUMLEvent.BRANCH",
                       "flag:is_loop_kill_path", "attr:SubGraphNode.sub_graph",
                       "attr:PUMLEventNode.sub_graph", "inst:LoopEvent") \
                and not ch.consumers:
            raise AnalysisError(f"marking {ch.name}: no consumer site found "
                                "(pattern no longer matches the code)")
    rep.analysed["markings"] = table


# --------------------------------------------------------------------------
def _enum_members(ctx: Ctx, cls_name: str, module_suffix: Optional[str] = None
                  ) -> dict[str, object]:
    cands = ctx.index.classes.get(cls_name, [])
    if module_suffix:
        cands = [c for c in cands if c.module.name.endswith(module_suffix)]
    if len(cands) != 1:
        raise AnalysisError(f"enum {cls_name}: {len(cands)} definitions")
    out: dict[str, object] = {}
    for st in cands[0].node.body:
        if isinstance(st, ast.Assign) and isinstance(st.targets[0], ast.Name):
            try:
                out[st.targets[0].id] = const_value(st.value)
            except ValueError:
                out[st.targets[0].id] = unparse(st.value)
    return out


def _pm4py_operator() -> dict[str, object]:
    spec = importlib.util.find_spec("pm4py")
    if spec is None or not spec.submodule_search_locations:
        raise AnalysisError("pm4py sources not found (needed for R1.2)")
    p = Path(list(spec.submodule_search_locations)[0]) / "objects" / \
        "process_tree" / "obj.py"
    tree = ast.parse(p.read_text())
    for n in tree.body:
        if isinstance(n, ast.ClassDef) and n.name == "Operator":
            return {st.targets[0].id: const_value(st.value) for st in n.body
                    if isinstance(st, ast.Assign)
                    and isinstance(st.targets[0], ast.Name)}
    raise AnalysisError("pm4py Operator enum not found")


def r12(rep: Report, ctx: Ctx) -> None:
    rep.rule("R1.2", "operator vocabulary is total along the hand-off chain",
             7)
    local = _enum_members(ctx, "Operator", "logic_detection")
    ld = ctx.index.module("logic_detection")
    third = _pm4py_operator()
    shared = sorted(set(local) & set(third))
    drift = {k: (local[k], third[k]) for k in shared if local[k] != third[k]}
    rep.ob("R1.2", "local Operator mirrors pm4py's values", not drift
           and len(shared) >= 5,
           detail=(f"shared members {shared}; drifted: {drift}" if drift else
                   f"{len(shared)} shared members carry equal values (the "
                   "code compares operators of both enums by .value)"))
    rep.obligations[-1].func = "logic_detection:Operator"
    rep.obligations[-1].file = ld.relpath
    vals = list(local.values())
    rep.ob("R1.2", "operator values are distinct", len(set(vals)) == len(vals),
           detail=f"values {vals}")
    rep.obligations[-1].func = "logic_detection:Operator"
    rep.obligations[-1].file = ld.relpath
    node_mod = ctx.index.module("walk_puml_graph.node")
    try:
        name_map = node_mod.constant("operator_name_map")
    except Exception as exc:
        raise AnalysisError(f"operator_name_map: {exc}")
    if not isinstance(name_map, dict):
        st = node_mod.assigns["operator_name_map"][0]
        name_map = {const_value(k): const_value(v) for k, v in zip(
            st.value.keys, st.value.values)}  # type: ignore[attr-defined]
    need = {"PARALLEL", "XOR", "OR", "BRANCH"}
    rep.ob("R1.2", "operator_name_map keys = gate operators",
           need <= set(name_map) and set(name_map) <= set(local),
           detail=f"keys {sorted(name_map)}; required {sorted(need)}; local "
                  f"members {sorted(local)} (a miner-built gate whose name "
                  "is not a key raises KeyError)")
    rep.obligations[-1].func = "node:operator_name_map"
    rep.obligations[-1].file = node_mod.relpath
    puml_op = _enum_members(ctx, "PUMLOperator")
    vals_needed = {v for k, v in name_map.items() if k != "BRANCH"}
    rep.ob("R1.2", "mapped names are PUMLOperator members",
           vals_needed <= set(puml_op) and name_map.get("PARALLEL") == "AND"
           and name_map.get("XOR") == "XOR" and name_map.get("OR") == "OR",
           detail=f"values {sorted(vals_needed)}; PUMLOperator "
                  f"{sorted(puml_op)} (Node.get_operator_type raises "
                  "otherwise; a crossed value swaps fork and switch)")
    rep.obligations[-1].func = "node:operator_name_map"
    rep.obligations[-1].file = node_mod.relpath
    # SEQUENCE handled before the table lookup
    ll = ctx.func("Node._load_logic_into_logic_list")
    lookups = [s for s in ast.walk(ll.node) if isinstance(s, ast.Subscript)
               and isinstance(s.value, ast.Name)
               and s.value.id == "operator_name_map"]
    ok = False
    if lookups:
        # whenever the lookup runs, "operator is not SEQUENCE" is established
        gs = cguards(ctx, ll, lookups[0])
        ok = any(g[0] == "cmp" and g[2] == "NotEq" and "SEQUENCE" in (
            g[1] + g[3]) for g in gs)
    rep.ob("R1.2", "SEQUENCE is handled before the table lookup", ok, fi=ll,
           node=lookups[0] if lookups else ll.node,
           detail="elif operator == SEQUENCE: ... else: "
                  "operator_name_map[...]")
    # get_operator_type compares with PUMLOperator member names
    got = ctx.func("Node.get_operator_type")
    ok = False
    for lp in [l for l in ast.walk(got.node) if isinstance(l, ast.For)
               and unparse(l.iter) == "PUMLOperator"
               and isinstance(l.target, ast.Name)]:
        ok = ok or any(isinstance(c, ast.Compare) and len(c.ops) == 1
                       and isinstance(c.ops[0], ast.Eq) and sorted(
                           [unparse(c.left), unparse(c.comparators[0])]) ==
                       sorted([f"{lp.target.id}.name", "self.operator"])
                       for c in ast.walk(lp))
    rep.ob("R1.2", "gate nodes resolve their PUML operator by member name",
           ok, fi=got, node=got.node,
           detail="for operator in PUMLOperator: self.operator == "
                  "operator.name")
    # BRANCH test on the miner's tree uses the local enum
    tests = [c for c in ast.walk(ll.node) if isinstance(c, ast.Compare)
             and "BRANCH" in unparse(c)]
    rep.ob("R1.2", "BRANCH gates are recognised", bool(tests), fi=ll,
           node=tests[0] if tests else ll.node,
           detail=unparse(tests[0]) if tests else "<missing>")


# --------------------------------------------------------------------------
def r13(rep: Report, ctx: Ctx) -> None:
    rep.rule("R1.3", "ingestion pairing", 5)
    fi = ctx.func("update_and_create_events_from_graph_solution")
    defs = ctx.defs(fi)
    loops = [l for l in fi.node.body if isinstance(l, ast.For)]
    ok = len(loops) == 1 and unparse(loops[0].iter).endswith(
        ".events.values()") and not any(
        isinstance(x, (ast.Break, ast.Continue, ast.Return))
        for x in ast.walk(loops[0]))
    rep.ob("R1.3", "every event of the job graph is ingested", ok, fi=fi,
           node=loops[0] if loops else fi.node,
           detail="one unconditional loop over graph_solution.events.values()")
    if not loops:
        return
    loop = loops[0]
    ev = loop.target.id if isinstance(loop.target, ast.Name) else "?"
    for meth, src in (("update_event_sets", "post_events"),
                      ("update_in_event_sets", "previous_events")):
        calls = [c for c in ast.walk(loop) if isinstance(c, ast.Call)
                 and call_name(c) == meth]
        if len(calls) != 1:
            rep.ob("R1.3", f"{meth} is called once per event", False, fi=fi,
                   node=loop, detail=f"{len(calls)} call(s)")
            continue
        c = calls[0]
        uncond = not enclosing(loop, c, (ast.If, ast.Try))
        arg = c.args[0] if c.args else None
        attrs = {a.attr for a in ast.walk(defs.resolve_deep(arg))
                 if isinstance(a, ast.Attribute)} if arg is not None else set()
        ok = uncond and src in attrs and not ({"post_events",
                                               "previous_events"} - {src}
                                              ) & attrs
        rep.ob("R1.3", f"{meth} <- {src}", ok, fi=fi, node=c,
               detail=f"argument derives from {sorted(attrs)}"
                      + ("" if ok else " -- successors and predecessors are "
                         "crossed or conditional"))
        recv = c.func.value if isinstance(c.func, ast.Attribute) else None
        key = recv.slice if isinstance(recv, ast.Subscript) else None
        keyr = defs.resolve(key) if key is not None else None
        ok = isinstance(recv, ast.Subscript) and unparse(recv.value) == \
            "events" and keyr is not None and "EventType" in unparse(keyr) \
            and unparse(keyr).startswith(f"{ev}.")
        rep.ob("R1.3", f"{meth}: on the entry keyed by the event's own type",
               ok, fi=fi, node=c, detail=f"receiver {unparse(recv)} with key "
               f"{unparse(keyr) if keyr is not None else '?'}")
    creates = [s for s in ast.walk(loop) if isinstance(s, ast.Assign)
               and isinstance(s.targets[0], ast.Subscript)
               and unparse(s.targets[0].value) == "events"]
    ok = len(creates) == 1 and isinstance(creates[0].value, ast.Call) and \
        call_name(creates[0].value) == "Event"
    if ok:
        g = enclosing(loop, creates[0], (ast.If,))
        ok = len(g) == 1 and " not in events" in unparse(g[0].test)
    rep.ob("R1.3", "unknown event types are created, known ones are kept",
           ok, fi=fi, node=creates[0] if creates else loop,
           detail="if event_type not in events: events[event_type] = "
                  "Event(event_type)")


def r14(rep: Report, ctx: Ctx) -> None:
    rep.rule("R1.4", "dummy start on the public path", 3)
    entry = ctx.func("pv_to_puml_string")
    mid = ctx.func("update_and_create_events_from_clustered_pvevents")
    low = ctx.func("get_graph_solutions_from_clustered_events")
    c = calls_in(ctx, entry, mid)
    a = actual(c[0], mid, "add_dummy_start") if c else None
    rep.ob("R1.4", "pv_to_puml_string asks for the dummy start",
           isinstance(a, ast.Constant) and a.value is True, fi=entry,
           node=c[0] if c else entry.node,
           detail=f"add_dummy_start={unparse(a)} (the graph head is taken "
                  "as topological_sort(...)[0]: jobs with several start "
                  "events need the single dummy root)")
    c2 = calls_in(ctx, mid, low)
    a2 = actual(c2[0], low, "add_dummy_start") if c2 else None
    rep.ob("R1.4", "the flag is forwarded unchanged",
           isinstance(a2, ast.Name) and a2.id == "add_dummy_start"
           and ctx.defs(mid).only_param("add_dummy_start"), fi=mid,
           node=c2[0] if c2 else mid.node,
           detail=f"add_dummy_start={unparse(a2)}")
    dm = ctx.func("update_graph_solution_with_dummy_start_event")
    c3 = calls_in(ctx, low, dm)
    ok = False
    if len(c3) == 1:
        g = enclosing(low.node, c3[0], (ast.If,))
        y = [n for n in ast.walk(low.node) if isinstance(n, ast.Yield)]
        ok = len(g) == 1 and unparse(g[0].test) == "add_dummy_start" \
            and len(y) == 1 and c3[0].lineno < y[0].lineno \
            and unparse(c3[0].args[0]) == unparse(y[0].value)
    rep.ob("R1.4", "the dummy start is added to each job before it is used",
           ok, fi=low, node=c3[0] if c3 else low.node,
           detail="if add_dummy_start: update_graph_solution_with_dummy_"
                  "start_event(graph_solution); yield graph_solution")


def r15(rep: Report, ctx: Ctx) -> None:
    rep.rule("R1.5", "the phases are chained on each other's results", 5)
    entry = ctx.func("pv_to_puml_string")
    defs = ctx.defs(entry)
    chain = [
        ("create_graph_from_events", 0, "deepcopy"),
        ("detect_loops", 0, "create_graph_from_events"),
        ("create_node_graph_from_event_graph", 0, "detect_loops"),
        ("update_nested_node_graph_with_break_points", 0,
         "create_node_graph_from_event_graph"),
        ("find_and_add_loop_kill_paths_to_nested_graphs", 0,
         "create_node_graph_from_event_graph"),
        ("walk_nested_graph", 0, "create_node_graph_from_event_graph"),
        ("update_nested_sub_graphs_for_dummy_break_event_nodes", 0,
         "walk_nested_graph"),
        ("remove_dummy_start_and_end_events_from_nested_graphs", 0,
         "walk_nested_graph"),
    ]
    for callee, pos, source in chain:
        calls = [c for c in ast.walk(entry.node) if isinstance(c, ast.Call)
                 and call_name(c) == callee]
        if len(calls) != 1:
            rep.ob("R1.5", f"{callee} is called once", False, fi=entry,
                   node=calls[0] if calls else entry.node,
                   detail=f"{len(calls)} call(s)")
            continue
        a = calls[0].args[pos] if len(calls[0].args) > pos else None
        src = defs.resolve_deep(a) if a is not None else None
        names = {call_name(c) for c in ast.walk(src)
                 if isinstance(c, ast.Call)} if src is not None else set()
        ok = source in names
        how = f"argument '{unparse(a)}' derives from " \
              f"{sorted(n for n in names if n)}"
        if not ok and source == "detect_loops" and isinstance(a, ast.Name):
            # detect_loops rewrites its argument IN PLACE and returns that
            # same object (C07 R7.3): after the call, the name that was
            # passed in is an alias of the result
            dl = [c for c in ast.walk(entry.node) if isinstance(c, ast.Call)
                  and call_name(c) == "detect_loops"]
            cfg = ctx.cfg(entry)
            if len(dl) == 1 and dl[0].args and isinstance(
                    dl[0].args[0], ast.Name) and dl[0].args[0].id == a.id \
                    and cfg.dominates(cfg.container(dl[0]),
                                      cfg.container(calls[0])) \
                    and cfg.container(dl[0]) != cfg.container(calls[0]) \
                    and len(ctx.reach(entry).at(calls[0], a.id)) == 1:
                ok = True
                how = f"argument '{a.id}' is the graph detect_loops " \
                      "rewrote in place (alias of its result)"
        rep.ob("R1.5", f"{callee}(<- {source})", ok, fi=entry,
               node=calls[0], detail=how)
    ret = [r for r in entry.node.body if isinstance(r, ast.Return)]
    rv = ctx.reach(entry).resolve(ret[0].value, at=ret[0]) if len(ret) == 1 \
        and ret[0].value is not None else None
    ok = isinstance(rv, ast.Call) and call_name(rv) == "write_puml_string"
    if ok:
        recv = defs.resolve(rv.func.value)
        ok = isinstance(recv, ast.Call) and call_name(recv) == \
            "walk_nested_graph"
    rep.ob("R1.5", "the written diagram is the walked graph", ok, fi=entry,
           node=ret[0] if ret else entry.node,
           detail="return puml_graph.write_puml_string(puml_name)")


# --------------------------------------------------------------------------
NESTED = [
    # (function, helper it must apply, how it reaches the nested graphs)
    ("update_nested_node_graph_with_break_points",
     "update_sub_graph_node_break_points"),
    ("find_and_add_loop_kill_paths_to_nested_graphs",
     "find_and_add_loop_kill_paths_to_sub_graph_node"),
    ("walk_nested_graph", "create_puml_graph_from_node_class_graph"),
    ("remove_dummy_start_and_end_events_from_nested_graphs", None),
    ("update_nested_sub_graphs_for_dummy_break_event_nodes",
     "update_graph_for_dummy_break_event_nodes"),
    ("create_node_graph_from_event_graph", None),
]


def r16(rep: Report, ctx: Ctx) -> None:
    rep.rule("R1.6", "every phase over the nested graphs reaches every loop "
             "body: it recurses into .sub_graph of every loop node, "
             "unconditionally", 6)
    for name, helper in NESTED:
        fi = ctx.func(name)
        rec = calls_in(ctx, fi, fi)
        ok, why = False, "no recursive call"
        for call in rec:
            arg = call.args[0] if call.args else None
            src = ctx.defs(fi).resolve_deep(arg) if arg is not None else None
            into_sub = src is not None and any(
                isinstance(a, ast.Attribute) and a.attr == "sub_graph"
                for a in ast.walk(src))
            guards = enclosing(fi.node, call, (ast.If,))
            # tolerated guards (with their polarity): isinstance(node, <loop
            # node class>) holds; `<x>.sub_graph is not None` holds
            g_ok = all(
                (g[0] == "truth" and g[1].startswith("isinstance(")
                 and g[2] == "1")
                or (g[0] == "cmp" and g[1].endswith("sub_graph")
                    and g[2] == "IsNot" and g[3] == "None")
                for g in cguards(ctx, fi, call))
            loops = enclosing(fi.node, call, (ast.For,))
            filt = [l for l in loops if isinstance(l.iter, ast.Name)]
            ok = into_sub and g_ok and bool(loops)
            why = (f"recurses with '{unparse(arg)}' under guards "
                   f"{[unparse(g.test)[:50] for g in guards]}")
        rep.ob("R1.6", f"{fi.short} recurses into every loop body", ok,
               fi=fi, node=rec[0] if rec else fi.node, detail=why)
        if helper:
            h = ctx.func(helper)
            hc = calls_in(ctx, fi, h)
            rep.ob("R1.6", f"{fi.short} applies {h.short} at every level",
                   len(hc) >= 1, fi=fi, node=hc[0] if hc else fi.node,
                   detail=f"{len(hc)} call(s) of {h.short}")


def r17(rep: Report, ctx: Ctx) -> None:
    rep.rule("R1.7", "the uids that tie a loop node to its body's dummy "
             "entry / exit / breaks are handed over unchanged", 6)
    mk = ctx.func("create_node_from_event")
    ctor = [c for c in ast.walk(mk.node) if isinstance(c, ast.Call)
            and call_name(c) == "SubGraphNode"]
    if len(ctor) != 1:
        raise AnalysisError(f"{mk.qualname}: expected one SubGraphNode(...)")
    for k in ("uid", "start_uid", "end_uid", "break_uids"):
        v = ctor_arg(ctx, ctor[0], "SubGraphNode", k)
        ok = isinstance(v, ast.Attribute) and v.attr == k and isinstance(
            v.value, ast.Name) and v.value.id == mk.params()[0]
        rep.ob("R1.7", f"SubGraphNode.{k} <- event.{k}", ok, fi=mk,
               node=ctor[0], detail=f"{k}={unparse(v)}")
    plain = [c for c in ast.walk(mk.node) if isinstance(c, ast.Call)
             and call_name(c) == "Node"]
    v = None
    for c in plain:
        v = ctor_arg(ctx, c, "Node", "uid") or v
    rep.ob("R1.7", "Node.uid <- event.uid", unparse(v) ==
           f"{mk.params()[0]}.uid", fi=mk, node=plain[0] if plain else mk.node,
           detail=f"uid={unparse(v)}")
    bp = ctx.func("update_sub_graph_node_break_points")
    tests = [c for c in ast.walk(bp.node) if isinstance(c, ast.Compare)
             and isinstance(c.ops[0], ast.In)]
    ok = len(tests) == 1 and unparse(tests[0].left).endswith(".uid") and \
        unparse(tests[0].comparators[0]).endswith(".break_uids")
    marks = [c for c in ast.walk(bp.node) if isinstance(c, ast.Call)
             and call_name(c) == "update_event_types"]
    ok = ok and len(marks) == 1 and unparse(marks[0].func.value) == unparse(
        tests[0].left)[:-4] if tests and marks else False
    if ok:
        gs = cguards(ctx, bp, marks[0])
        ok = len(gs) == 1 and gs[0][0] == "cmp" and gs[0][2] == "In" \
            and gs[0][1].endswith(".uid") and gs[0][3].endswith(".break_uids")
    rep.ob("R1.7", "BREAK marks the body nodes whose uid is a break uid", ok,
           fi=bp, node=tests[0] if tests else bp.node,
           detail="if node.uid in sub_graph_node.break_uids: "
                  "node.update_event_types(BREAK)")
    kp = ctx.func("find_and_add_loop_kill_paths_to_sub_graph_node")
    comps = {}
    for c in ast.walk(kp.node):
        if isinstance(c, ast.Compare) and len(c.ops) == 1 and isinstance(
                c.ops[0], ast.Eq):
            l, r = unparse(c.left), unparse(c.comparators[0])
            if r.endswith(".uid") and not l.endswith(".uid"):
                l, r = r, l
            if l.endswith(".uid"):
                comps[r.split(".")[-1]] = l
    rep.ob("R1.7", "loop entry / exit are found by start_uid / end_uid",
           set(comps) >= {"start_uid", "end_uid"}, fi=kp, node=kp.node,
           detail=f"uid comparisons against {sorted(comps)}")
    call = [c for c in ast.walk(kp.node) if isinstance(c, ast.Call)
            and call_name(c) ==
            "get_all_kill_edges_from_loop_nodes_and_end_points"]
    ok = False
    if len(call) == 1 and len(call[0].args) == 4:
        defs = ctx.defs(kp)
        a_end = unparse(defs.resolve_deep(call[0].args[2]))
        a_start = unparse(defs.resolve_deep(call[0].args[3]))
        ok = "end_uid" in a_end and "start_uid" not in a_end and \
            "start_uid" in a_start and "end_uid" not in a_start
    rep.ob("R1.7", "kill edges are computed from (end points, start points) "
           "in that order", ok, fi=kp, node=call[0] if call else kp.node,
           detail="get_all_kill_edges_from_loop_nodes_and_end_points(graph, "
                  "nodes, {end_point}, {start_point})")


# --------------------------------------------------------------------------
def _dedups(defs, expr: ast.AST, seen: set[str]) -> Optional[ast.AST]:
    """First construct on the derivation of ``expr`` (followed through local
    names, comprehension sources and list-preserving wrappers) that collapses
    repeated elements: a set / frozenset call, a set display or
    comprehension, ``dict.fromkeys`` / ``.keys()`` of a dict built from it."""
    if isinstance(expr, (ast.Set, ast.SetComp)):
        return expr
    if isinstance(expr, ast.Call):
        d = (dotted(expr.func) or "").split(".")[-1]
        if d in ("set", "frozenset", "fromkeys", "unique"):
            return expr
        if d in ("list", "sorted", "tuple", "reversed", "iter", "chain",
                 "from_iterable") and expr.args:
            for a in expr.args:
                hit = _dedups(defs, a, seen)
                if hit is not None:
                    return hit
        return None
    if isinstance(expr, (ast.ListComp, ast.GeneratorExp)):
        for g in expr.generators:
            hit = _dedups(defs, g.iter, seen)
            if hit is not None:
                return hit
        return None
    if isinstance(expr, ast.BinOp) and isinstance(expr.op, ast.Add):
        return _dedups(defs, expr.left, seen) or _dedups(defs, expr.right,
                                                         seen)
    if isinstance(expr, ast.IfExp):
        return _dedups(defs, expr.body, seen) or _dedups(defs, expr.orelse,
                                                         seen)
    if isinstance(expr, ast.Name) and expr.id not in seen:
        seen = seen | {expr.id}
        for b in defs.of(expr.id):
            if b.kind in ("assign", "aug") and b.value is not None:
                hit = _dedups(defs, b.value, seen)
                if hit is not None:
                    return hit
    return None


def r19(rep: Report, ctx: Ctx) -> None:
    """Successor / predecessor evidence is a family of *multisets* (two
    parallel branches ending in the same event type are ``{X: 2}``).  A list
    of event types that is compared with, or turned into, such a multiset
    must reach the comparison with its repetitions intact."""
    rep.rule("R1.9", "event-type lists keep their repetitions up to the "
             "multiset they are compared with / stored as", 3)
    sinks = []
    for fi in ctx.index.all_functions():
        for site in ctx.cg.sites_in(fi):
            c = site.node
            if not isinstance(c, ast.Call):
                continue
            nm = call_name(c)
            if nm == "has_event_set_as_subset" and len(c.args) >= 2:
                sinks.append((fi, c, c.args[1], "compared with the "
                              "predecessor multisets"))
            elif nm == "EventSet" and isinstance(c.func, ast.Name) \
                    and len(c.args) == 1:
                sinks.append((fi, c, c.args[0], "stored as a multiset"))
    for fi, c, arg, what in sinks:
        hit = _dedups(ctx.defs(fi), arg, set())
        rep.ob("R1.9", f"{fi.short}: {call_name(c)}(...)", hit is None,
               fi=fi, node=hit if hit is not None else c,
               detail=(f"the event types {what} pass through "
                       f"'{unparse(hit)[:60]}', which drops repeated types: "
                       "a merge point reached by two branches ending in the "
                       "same event is validated as if one branch reached it "
                       "(the event is emitted once after the join and the "
                       "jobs that ran it once per branch are rejected)"
                       if hit is not None else
                       "no de-duplicating construct on the way"))


# --------------------------------------------------------------------------
def r110(rep: Report, ctx: Ctx) -> None:
    """The gate tree of an event is translated into the node's logic lists
    *totally*: every child of every operator node is visited, with the
    bookkeeping arguments handed on unchanged.  A child that is skipped is a
    branch the diagram does not have - the jobs that took it are rejected."""
    rep.rule("R1.10", "every child of a gate-tree node is translated (no "
             "filter, no early exit), bookkeeping forwarded unchanged", 4)
    fi = ctx.func("Node._load_logic_into_logic_list")
    tree_p = fi.params()[1]
    loops = [l for l in ast.walk(fi.node) if isinstance(l, ast.For)
             and isinstance(l.iter, ast.Attribute)
             and l.iter.attr == "children"
             and isinstance(l.iter.value, ast.Name)
             and l.iter.value.id == tree_p]
    rep.ob("R1.10", "one child loop per operator kind (BRANCH, SEQUENCE, "
           "gate)", len(loops) >= 3, fi=fi, node=fi.node,
           detail=f"{len(loops)} loop(s) over {tree_p}.children")
    for l in loops:
        tgt = l.target.id if isinstance(l.target, ast.Name) else "?"
        body = [s for s in l.body]
        jumps = [n for s in body for n in ast.walk(s)
                 if isinstance(n, (ast.Break, ast.Continue, ast.Return,
                                   ast.If))]
        rec = [c for s in body for c in ast.walk(s)
               if isinstance(c, ast.Call)
               and call_name(c) == fi.node.name]
        ok = not jumps and len(rec) == 1
        if ok:
            c = rec[0]
            a_tree = actual(c, fi, tree_p)
            ok = isinstance(a_tree, ast.Name) and a_tree.id == tgt
            for p in fi.params()[2:]:
                a = actual(c, fi, p)
                ok = ok and isinstance(a, ast.Name) and a.id == p
        rep.ob("R1.10", f"loop over {tree_p}.children", ok, fi=fi, node=l,
               detail=("every child is handed to the recursion with "
                       f"{fi.params()[2:]} unchanged" if ok else
                       "a child can be skipped, or the recursion does not "
                       "receive the child / the shared bookkeeping"))
    # the gate node built for an operator is registered after its children
    regs = [c for c in ast.walk(fi.node) if isinstance(c, ast.Call)
            and call_name(c) == "update_logic_list"]
    gates = [c for c in regs if c.args and isinstance(c.args[0], ast.Name)
             and any(isinstance(b.value, ast.Call) and call_name(b.value)
                     == "Node" for b in ctx.defs(fi).of(c.args[0].id))]
    ok = len(gates) == 1
    rep.ob("R1.10", "the gate node is added to the logic list", ok, fi=fi,
           node=gates[0] if gates else fi.node,
           detail="self.update_logic_list(<new gate node>, direction)")
    tl = ctx.func("Node.traverse_logic")
    rec = [c for c in ast.walk(tl.node) if isinstance(c, ast.Call)
           and call_name(c) == "traverse_logic"]
    loops2 = [l for l in ast.walk(tl.node) if isinstance(l, ast.For)]
    ok = len(rec) == 1 and len(loops2) == 1 and not any(
        isinstance(n, (ast.Break, ast.Continue, ast.Return))
        for s in loops2[0].body for n in ast.walk(s))
    rep.ob("R1.10", "the logic lists are flattened totally", ok, fi=tl,
           node=loops2[0] if loops2 else tl.node,
           detail="leaf -> append, gate -> extend(recurse), for every entry")


# --------------------------------------------------------------------------
def r111(rep: Report, ctx: Ctx) -> None:
    """Direction pairing at the Event -> Node hand-off: merge-point
    validation reads ``Node.eventsets_incoming``; the walk follows the
    *outgoing* logic.  Crossing them validates merges against the successor
    sets (or builds branches from predecessors)."""
    rep.rule("R1.11", "Event -> Node hand-off keeps directions: incoming "
             "sets from in_event_sets, outgoing logic from the gate tree of "
             "the successor sets", 3)
    mk = ctx.func("create_node_from_event")
    ev = mk.params()[0]
    reach = ctx.reach(mk)
    st = [a for a in ast.walk(mk.node) if isinstance(a, ast.Assign)
          and isinstance(a.targets[0], ast.Attribute)
          and a.targets[0].attr == "eventsets_incoming"]
    ok = len(st) == 1
    v = reach.resolve(st[0].value, at=st[0]) if ok else None
    ok = ok and isinstance(v, ast.Attribute) and v.attr == "in_event_sets" \
        and isinstance(v.value, ast.Name) and v.value.id == ev \
        and not cguards(ctx, mk, st[0])
    rep.ob("R1.11", "node.eventsets_incoming <- event.in_event_sets", ok,
           fi=mk, node=st[0] if st else mk.node,
           detail=unparse(st[0]) if st else "<missing>")
    up = ctx.func("update_outgoing_logic_nodes")
    e2, n2 = up.params()[0], up.params()[1]
    calls = [c for c in ast.walk(up.node) if isinstance(c, ast.Call)
             and call_name(c) == "load_logic_into_list"]
    ok = len(calls) == 1
    if ok:
        c = calls[0]
        a0 = ctx.reach(up).resolve(c.args[0], at=c) if c.args else None
        d = c.args[1] if len(c.args) > 1 else None
        ok = isinstance(a0, ast.Attribute) and a0.attr == "logic_gate_tree" \
            and isinstance(a0.value, ast.Name) and a0.value.id == e2 \
            and isinstance(d, ast.Constant) and d.value == "outgoing" \
            and isinstance(c.func.value, ast.Name) and c.func.value.id == n2
    rep.ob("R1.11", "node.load_logic_into_list(event.logic_gate_tree, "
           "'outgoing')", ok, fi=up, node=calls[0] if calls else up.node,
           detail=unparse(calls[0]) if calls else "<missing>")
    getter = ctx.func("Event.logic_gate_tree")
    src = [c for c in ast.walk(getter.node) if isinstance(c, ast.Call)
           and call_name(c) == "calculate_logic_gates"]
    ok = len(src) == 1 and src[0].args and unparse(src[0].args[0]) == \
        "self.event_sets"
    rep.ob("R1.11", "the gate tree is inferred from the successor sets", ok,
           fi=getter, node=src[0] if src else getter.node,
           detail=unparse(src[0]) if src else "<missing>")
    edge = ctx.func("update_graph_with_node_tuple")
    ups = [c for c in ast.walk(edge.node) if isinstance(c, ast.Call)
           and call_name(c) == "update_node_list_with_node"]
    # local name -> NodeTuple field (by unpacking position or attribute)
    fields = [n for n, _ in ctx.index.cls("NodeTuple").fields()]
    role: dict[str, str] = {}
    for a in ast.walk(edge.node):
        if isinstance(a, ast.Assign) and isinstance(a.targets[0], ast.Tuple) \
                and isinstance(a.value, ast.Name) and a.value.id == \
                edge.params()[0] and len(a.targets[0].elts) == len(fields):
            for t, f_ in zip(a.targets[0].elts, fields):
                if isinstance(t, ast.Name):
                    role[t.id] = f_

    def rl(e: ast.AST) -> str:
        if isinstance(e, ast.Name):
            return role.get(e.id, e.id)
        if isinstance(e, ast.Attribute) and e.attr in fields:
            return e.attr
        return unparse(e)
    pairs = sorted((rl(c.func.value), rl(c.args[0]),
                    c.args[1].value if isinstance(c.args[1], ast.Constant)
                    else "?") for c in ups if len(c.args) == 2)
    # the 'incoming' registration is kept consistent when present, but it is
    # not an obligation: Node.incoming is only read when incoming logic is
    # loaded, which the pipeline never does (found by the differential
    # validation, DESIGN section 15)
    ok = pairs in ([("in_node", "out_node", "incoming"),
                    ("out_node", "in_node", "outgoing")],
                   [("out_node", "in_node", "outgoing")])
    rep.ob("R1.11", "an edge registers the head under 'outgoing' of the tail "
           "and the tail under 'incoming' of the head", ok, fi=edge,
           node=ups[0] if ups else edge.node, detail=str(pairs))


# --------------------------------------------------------------------------
def r112(rep: Report, ctx: Ctx) -> None:
    """Every job graph handed to the learner is ingested: the model is the
    union over *all* jobs (also the premise of C04: chunked == one-shot)."""
    rep.rule("R1.12", "every job graph of the stream is ingested (no job is "
             "skipped on a run-local criterion)", 2)
    outer = ctx.func("update_and_create_events_from_graph_solutions")
    inner = ctx.func("update_and_create_events_from_graph_solution")
    calls = calls_in(ctx, outer, inner)
    p0 = outer.params()[0]
    ok = len(calls) == 1
    why = f"{len(calls)} call(s)"
    if ok:
        loops = enclosing(outer.node, calls[0], (ast.For,))
        gs = cguards(ctx, outer, calls[0])
        a0 = actual(calls[0], inner, inner.params()[0])
        ok = len(loops) == 1 and isinstance(loops[0].iter, ast.Name) \
            and loops[0].iter.id == p0 and ctx.defs(outer).only_param(p0) \
            and not gs and isinstance(a0, ast.Name) and isinstance(
                loops[0].target, ast.Name) and a0.id == loops[0].target.id \
            and not any(isinstance(x, (ast.Break, ast.Return))
                        for x in ast.walk(loops[0]))
        why = (f"for g in {p0}: ingest(g)"
               + ("" if not gs else " under "
                  f"{[' '.join(g) for g in gs]} -- jobs that fail the test "
                  "contribute nothing to the model (and whether they do "
                  "depends on what the same run saw before)"))
    rep.ob("R1.12", "the per-graph ingestion runs for every graph", ok,
           fi=outer, node=calls[0] if calls else outer.node, detail=why)
    gen = ctx.func("get_graph_solutions_from_clustered_events")
    ys = [y for y in ast.walk(gen.node) if isinstance(y, ast.Yield)]
    ok = len(ys) == 1
    if ok:
        gs = [g for g in cguards(ctx, gen, ys[0])]
        lp = enclosing(gen.node, ys[0], (ast.For,))
        ok = not gs and len(lp) == 1 and isinstance(lp[0].iter, ast.Name) \
            and lp[0].iter.id == gen.params()[0]
    rep.ob("R1.12", "one graph solution is yielded per job of the stream",
           ok, fi=gen, node=ys[0] if ys else gen.node,
           detail="for job_events in clustered_events: yield "
                  "GraphSolution.from_event_list(job_events)")


def r113(rep: Report, ctx: Ctx) -> None:
    """(shared with C07 R7.11)  A loop whose end event fans out into several
    events of one type on leaving the loop: the multiplicity is evidence the
    dummy end of the body must inherit, else the diagram allows one such
    event where the jobs had several."""
    rep.rule("R1.13", "the exit fan-out of a loop's end events reaches the "
             "body's dummy end (recorded before the exit edges are cut)", 1)
    from .c07 import exit_fanout_recorded
    exit_fanout_recorded(rep, ctx, "R1.13")


def r114(rep: Report, ctx: Ctx) -> None:
    """(shared with C05 R5.15)  "graph walk building the block structure":
    a logic block whose index maps drift after a pop / partial merge nests
    the wrong alternatives -- the diagram then rejects jobs it was learned
    from."""
    rep.rule("R1.14", "popping a finished path and merging paths partially "
             "keep the per-path lists and index maps of a logic block "
             "consistent", 12)
    from .c05 import reshape_lockstep
    reshape_lockstep(rep, ctx, "R1.14")


def r115(rep: Report, ctx: Ctx) -> None:
    """(shared with C07 R7.12-R7.16)  Acceptance of a job with a loop needs
    the evidence at the loop's boundary to survive the extraction: the dummy
    start / end of the body, the loop node, and the rewired parent."""
    rep.rule("R1.15", "loop extraction carries the boundary evidence over "
             "(dummy start / end, loop node, rewired parent, break filter)",
             50)
    from . import c07
    c07.loop_boundary_evidence(rep, ctx, "R1.15")
    c07.parent_rewiring(rep, ctx, "R1.15")
    c07.rewiring_order(rep, ctx, "R1.15")
    c07.graph_helpers(rep, ctx, "R1.15")
    c07.scc_order(rep, ctx, "R1.15")
    c07.pruned_set_is_final(rep, ctx, "R1.15")
    from .loopspec import TABLE, check_table
    check_table(rep, ctx, "R1.15", list(TABLE))


def r116(rep: Report, ctx: Ctx) -> None:
    """Table-driven (sa/rules/walkspec.py): the translation of the inferred
    gate tree into node logic, the initial state of a logic block, and the
    validation of AND / OR merges against the predecessor sets."""
    from .effspec import check_table
    from .walkspec import TABLE
    rep.rule("R1.16", "gate tree -> node logic: one arm per kind of tree "
             "node, every child visited, leaves attached in the direction "
             "asked for", 7)
    check_table(rep, ctx, "R1.16", TABLE,
                ["Node._load_logic_into_logic_list"])
    rep.rule("R1.17", "a logic block starts as a faithful, private mirror of "
             "its logic node", 10)
    check_table(rep, ctx, "R1.17", TABLE, [
        "LogicBlockHolder.__init__", "Node.get_outgoing_logic_by_indices",
        "Node.set_outgoing_logic"])
    rep.rule("R1.18", "AND / OR merges are validated against the predecessor "
             "sets of the merge node (multiset of all arriving paths)", 11)
    from .walkspec import MERGE_TABLE
    check_table(rep, ctx, "R1.18", MERGE_TABLE, list(MERGE_TABLE))
    check_table(rep, ctx, "R1.18", TABLE,
                ["LogicBlockHolder._check_merge_is_correct",
                 "LogicBlockHolder.handle_path_merge",
                 "check_is_merge_node_for_logic_block",
                 "check_has_valid_merge"])
    # (shared with C04 R4.1)  a loaded event without a gate tree has no
    # outgoing logic: the walk follows one successor and the diagram rejects
    # the jobs the model was learned from
    from . import c04 as _c04
    rep.rule("R1.21", "every write of an event's successor sets marks its "
             "cached gate tree stale (= C04 R4.1)", 4)
    sub = Report("C04", ctx.index)
    sub.rule("R4.1", "", 0)
    _c04.r41(sub, ctx)
    for o in sub.obligations:
        o.rule = "R1.21"
        rep.obligations.append(o)
    rep.funcs_seen |= sub.funcs_seen
    from .walkspec import MODEL_TABLE
    rep.rule("R1.20", "an observation keeps its counts through construction, "
             "listing and removal (= C04 R4.8)", 8)
    check_table(rep, ctx, "R1.20", MODEL_TABLE, list(MODEL_TABLE))
    rep.rule("R1.23", "the elementary steps of the walk: an event node "
             "becomes one connected diagram node, a logic node opens a block "
             "of its own operator type, a rotated-to path is started only if "
             "it has not been walked yet", 6)
    check_table(rep, ctx, "R1.23", TABLE, [
        "update_puml_graph_with_event_node", "handle_logic_node_cases",
        "handle_rotate_path", "handle_logic_list_next_path",
        "handle_reach_logic_merge_point"])
    rep.rule("R1.19", "Event -> Node keeps identity, type, loop references "
             "and flags MERGE from the predecessor sets", 4)
    check_table(rep, ctx, "R1.19", TABLE, ["create_node_from_event"])


def r122(rep: Report, ctx: Ctx) -> None:
    """Paths of a loop body that leave the loop for good (kill paths) and
    break points must be marked on EVERY node of the body - a nested loop
    node has out-edges in the outer body like any event node.  An unmarked
    kill path is walked as an ordinary branch: the block waits for a merge
    that never comes and the separator lands outside its block."""
    from .effspec import check_table, effects
    from .walkspec import KILL_TABLE
    rep.rule("R1.22", "kill paths and break points of a loop body are marked "
             "from a scan of all its nodes", 5)
    check_table(rep, ctx, "R1.22", KILL_TABLE, list(KILL_TABLE))
    fi = ctx.func("find_and_add_loop_kill_paths_to_sub_graph_node")
    sg = "P:sub_graph_node.sub_graph"
    effs = effects(ctx, fi, names={
        "get_all_kill_edges_from_loop_nodes_and_end_points"})
    scan = [e for e in effs if e.name ==
            "get_all_kill_edges_from_loop_nodes_and_end_points"]

    def pt(which: str) -> str:
        return f"{{[each({sg}.nodes) for.. if (P:sub_graph_node.{which} Eq " \
               f"each({sg}.nodes).uid)].pop()}}"
    ok = len(scan) == 1 and scan[0].args == (
        sg, f"{sg}.nodes", pt("end_uid"), pt("start_uid")) and not \
        scan[0].guards
    rep.ob("R1.22", "the kill-edge scan covers every node of the body, "
           "between the body's own dummy end and start", ok, fi=fi,
           node=scan[0].node if scan else fi.node,
           detail="; ".join(", ".join(a[:70] for a in e.args) for e in scan)
           or "<no scan>")
    marks = [e for e in effs if e.kind == "call"
             and e.name == "add_loop_kill_paths_for_nodes"]
    ok = len(marks) == 1 and marks[0].args[1:] == (sg,) and \
        marks[0].args[0].startswith("get_node_to_node_map_from_edges(")
    rep.ob("R1.22", "and its result marks the nodes of that same body", ok,
           fi=fi, node=marks[0].node if marks else fi.node,
           detail="; ".join(", ".join(a[:70] for a in e.args)
                            for e in marks) or "<no marking call>")


def r124(rep: Report, ctx: Ctx) -> None:
    """(shared with C07 R7.19 / R7.20)  A loop member that always forks into
    one branch inside and one outside the loop: classified as a break, the
    diagram leaves the loop after the first pass and rejects the jobs it was
    learned from."""
    from . import c07
    rep.rule("R1.24", "the loop classifier sees the whole graph and an "
             "overlap map that groups co-occurring successors for every "
             "event (= C07 R7.19, R7.20)", 10)
    sub = Report("C07", ctx.index)
    sub.rule("R7.19", "", 0)
    c07.r719(sub, ctx)
    c07.overlap_map(sub, ctx, "R7.20")
    for o in sub.obligations:
        o.rule = "R1.24"
        rep.obligations.append(o)
    rep.funcs_seen |= sub.funcs_seen


def r125(rep: Report, ctx: Ctx) -> None:
    """(shared with C05 R5.21)"""
    from .c05 import main_walk_loop
    rep.rule("R1.25", "the main loop of the walk dispatches on (event / "
             "logic node, inside a block, successor, break point) as pinned "
             "(= C05 R5.21)", 20)
    main_walk_loop(rep, ctx, "R1.25")
    from .c05 import merge_point
    merge_point(rep, ctx, "R1.25")


def r126(rep: Report, ctx: Ctx) -> None:
    from .util import crossed_handoffs
    rep.rule("R1.26", "positional hand-offs between the functions of the "
             "pv -> puml pipeline do not cross two parameters", 1)
    crossed_handoffs(rep, ctx, "R1.26", ("tel2puml/",), 250)


def r127(rep: Report, ctx: Ctx) -> None:
    from .util import faithful_records
    rep.rule("R1.27", "the records handed from phase to phase are faithful: "
             "attributes are assigned before they are read, bases are "
             "initialised, parameters are stored under their own names, "
             "setters store where getters read", 30)
    faithful_records(rep, ctx, "R1.27", (
        "tel2puml/events.py", "loop_detection/", "puml_graph.py",
        "walk_puml_graph/"))


def node_tables(rep: Report, ctx: Ctx, rule: str) -> None:
    """Model nodes keep neighbours and logic per direction; the lonely merge
    and the kill flags of a gate are derived from them."""
    from .effspec import check_table
    from .walkspec import NODE_TABLE
    check_table(rep, ctx, rule, NODE_TABLE, list(NODE_TABLE))
    from .walkspec import GRAPH_TABLE, INGEST_TABLE
    check_table(rep, ctx, rule, GRAPH_TABLE, list(GRAPH_TABLE))
    check_table(rep, ctx, rule, INGEST_TABLE, list(INGEST_TABLE))
    # outgoing logic is resolved against the OUTGOING neighbours: whatever
    # reaches the loader as its map when the direction is not "incoming"
    from .effspec import effects
    fi = ctx.func("Node.load_logic_into_list")
    bs = [e for e in effects(ctx, fi, names={"_load_logic_into_logic_list"})
          if e.kind == "bind" and e.name == "_load_logic_into_logic_list#1"]
    inc = ("cmp", "'incoming'", "Eq", "P:direction", "1")
    good = [e for e in bs if e.args == ("P:self.event_node_map_outgoing",)
            and inc not in e.guards]
    other = [e for e in bs if e.args != ("P:self.event_node_map_outgoing",)
             and inc not in e.guards]
    rep.ob(rule, "load_logic_into_list: outgoing logic is resolved over "
           "the map of OUTGOING neighbours", bool(good) and not other, fi=fi,
           node=(other or good or [None])[0].node if (other or good)
           else fi.node,
           detail="; ".join(e.show()[:160] for e in bs) or "no map reaches "
           "the loader")


def r128(rep: Report, ctx: Ctx) -> None:
    rep.rule("R1.28", "model nodes: neighbours, logic and maps are kept per "
             "direction; kill flags and the lonely merge of a gate are "
             "derived per path", 21)
    node_tables(rep, ctx, "R1.28")


def r129(rep: Report, ctx: Ctx) -> None:
    """(= C05 R5.17 / R5.24)  A break that is drawn on the wrong node, or a
    copied loop node that loses its LOOP flag, is a diagram that rejects the
    jobs that break there (seed C01-w)."""
    from . import c05
    rep.rule("R1.29", "dummy breaks become breaks on the breaking event, "
             "which keeps its own flags (= C05 R5.17 / R5.24)", 12)
    c05.push_down(rep, ctx, "R1.29")


def r130(rep: Report, ctx: Ctx) -> None:
    """(= C04 R4.4)  The model that a later run is given must be the model
    this run learned into: a run that fills one dictionary and saves another
    makes the next diagram forget every job of this run (seed C01-x)."""
    from . import c04 as _c04
    rep.rule("R1.30", "the dictionary saved is the dictionary updated "
             "(= C04 R4.4)", 7)
    sub = Report("C04", ctx.index)
    sub.rule("R4.4", "", 0)
    _c04.r44(sub, ctx)
    for o in sub.obligations:
        o.rule = "R1.30"
        rep.obligations.append(o)
    rep.funcs_seen |= sub.funcs_seen


GATE_STAGES = [
    # (stage, position of the tree argument, stage that produced it)
    ("reduce_process_tree_to_preferred_logic_gates", 1,
     "calculate_process_tree_from_event_sets"),
    ("calculate_repeats_in_tree", 1,
     "reduce_process_tree_to_preferred_logic_gates"),
]


def r131(rep: Report, ctx: Ctx) -> None:
    """The gate tree of an event is mined, reduced to the preferred gates
    and then given its repeat (branch-count) marker; a tree that leaves
    ``calculate_logic_gates`` without having been through the last stage has
    no BRANCH root, so an event that is always followed by N >= 2 copies of
    one event type is drawn with a single successor and the diagram rejects
    the very jobs it was learned from (seed C01-y).  Decided here: *that*
    every tree handed out went through every stage, each stage working on
    the observed sets and on the previous stage's result -- not what the
    stages compute."""
    rep.rule("R1.31", "every gate tree handed out was mined, reduced and "
             "given its repeat marker from the observed sets", 4)
    fi = ctx.func("calculate_logic_gates")
    rep.funcs_seen.add(fi.qualname)
    reach = ctx.reach(fi)
    obs = fi.params()[0]
    rets = [r for r in ast.walk(fi.node) if isinstance(r, ast.Return)]
    some = False
    for r in rets:
        if r.value is None or (isinstance(r.value, ast.Constant)
                               and r.value.value is None):
            # "no tree" is tolerated only for an empty observation
            gs = cguards(ctx, fi, r)
            ln = f"len({obs})"
            ok = any(g in (("cmp", "0", "Eq", ln), ("cmp", ln, "Eq", "0"),
                           ("cmp", ln, "Lt", "1"), ("cmp", ln, "LtE", "0"),
                           ("truth", obs, "0"), ("truth", ln, "0"))
                     for g in gs)
            rep.ob("R1.31", "no tree only when nothing was observed", ok,
                   fi=fi, node=r,
                   detail=f"return None under {[' '.join(g) for g in gs]}")
            continue
        some = True
        v = reach.resolve_deep(r.value, depth=8, at=r)
        top = v if isinstance(v, ast.Call) else None
        ok = top is not None and call_name(top) == GATE_STAGES[-1][0]
        rep.ob("R1.31", "a returned tree is the result of the repeat-marker "
               "stage", ok, fi=fi, node=r,
               detail=f"return value derives from '{unparse(v)[:110]}'")
        if not ok:
            continue
        cur = top
        for stage, pos, source in reversed(GATE_STAGES):
            a0 = cur.args[0] if cur.args else None
            a1 = cur.args[pos] if len(cur.args) > pos else None
            good = isinstance(a0, ast.Name) and a0.id == obs and \
                not reach_rebound(fi, obs)
            inner = a1 if isinstance(a1, ast.Call) else None
            chained = inner is not None and call_name(inner) == source
            rep.ob("R1.31", f"{stage} works on the observed sets and on the "
                   f"result of {source}", good and chained, fi=fi, node=r,
                   detail=f"{stage}({unparse(a0) if a0 is not None else ''}, "
                          f"{(unparse(a1) if a1 is not None else '')[:70]})")
            if not chained:
                break
            cur = inner
        else:
            a0 = cur.args[0] if cur.args else None
            rep.ob("R1.31", f"{GATE_STAGES[0][2]} mines the observed sets",
                   isinstance(a0, ast.Name) and a0.id == obs, fi=fi, node=r,
                   detail=unparse(cur)[:100])
    if not some:
        rep.ob("R1.31", "a tree is returned", False, fi=fi, node=fi.node,
               detail="no return of a value")


def reach_rebound(fi: FuncInfo, name: str) -> bool:
    """``name`` (a parameter) is assigned somewhere in the function."""
    return any(isinstance(n, ast.Name) and n.id == name
               and isinstance(n.ctx, ast.Store) for n in ast.walk(fi.node))
