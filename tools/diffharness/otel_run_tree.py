"""Development aid (NOT part of any check): differential behaviour harness for
the OTel->PV half of whatever `tel2puml` package comes first on PYTHONPATH.

usage:  PYTHONPATH=<tree> /venv/bin/python otel_run_tree.py A B
prints one JSON line per seed in A..B-1:
    {"seed": n, "kind": k, "st": "ok"|"exc:<Type>"|"timeout", "h": <12 hex>}
env:    OTEL_HARNESS_DUMP=1   add the canonical output ("out") to each line
        OTEL_HARNESS_DEBUG=1  keep the child's stderr and print tracebacks
Every scenario runs in a forked child (fresh interpreter state per seed, so
the line for a seed does not depend on the range that was asked for), under
signal.alarm(10); the parent kills a child that does not answer in 20 s.
"""
import sys
import os
import json
import hashlib
import random
import select
import shutil
import signal
import tempfile
import time
import traceback

HERE = os.path.dirname(os.path.abspath(__file__))
if HERE not in sys.path:
    sys.path.append(HERE)
sys.path.append("/verif/tools/janus_stub")

import otel_gen as G  # noqa: E402

DUMP = bool(os.environ.get("OTEL_HARNESS_DUMP"))
DEBUG = bool(os.environ.get("OTEL_HARNESS_DEBUG"))
SCENARIO_TIMEOUT = 10
HARD_TIMEOUT = 20


class ScenarioTimeout(BaseException):
    pass


def _on_alarm(signum, frame):
    raise ScenarioTimeout()


# --------------------------------------------------------------------------
# helpers around the real code
# --------------------------------------------------------------------------
def fresh_process_state():
    """Every otel_to_pv call stands for one CLI invocation (one process).
    The project registers its temp table on the class-level MetaData, so
    emulate the fresh process by dropping that registration."""
    try:
        from tel2puml.otel_to_pv.data_holders.sql_data_holder.data_model \
            import Base
        tbl = Base.metadata.tables.get("temp_root_nodes")
        if tbl is not None:
            Base.metadata.remove(tbl)
    except Exception:
        pass


class HolderSpy:
    """Records the data holders the real code creates (wraps, never replaces,
    the project's own factory functions)."""

    def __init__(self):
        self.holders = []
        self._undo = []

    def __enter__(self):
        import tel2puml.otel_to_pv.otel_to_pv as mod
        for name in ("fetch_data_holder", "ingest_data_into_dataholder"):
            real = getattr(mod, name, None)
            if real is None:
                continue

            def wrapper(*a, _real=real, **k):
                holder = _real(*a, **k)
                self.holders.append(holder)
                return holder
            setattr(mod, name, wrapper)
            self._undo.append((mod, name, real))
        return self

    def __exit__(self, *exc):
        for mod, name, real in self._undo:
            setattr(mod, name, real)
        return False

    def table_state(self):
        import sqlalchemy as sa
        if not self.holders:
            return None
        holder = self.holders[-1]
        out = {}
        with holder.engine.connect() as conn:
            nodes = conn.execute(sa.text(
                "select event_id, job_id, job_name, event_type, "
                "parent_event_id, start_timestamp, end_timestamp, "
                "application_name from nodes")).fetchall()
            out["nodes_n"] = len(nodes)
            out["nodes"] = sorted([list(r) for r in nodes],
                                  key=lambda r: json.dumps(r))
            assoc = conn.execute(sa.text(
                'select parent_id, child_id from "NODE_ASSOCIATION"'
            )).fetchall()
            out["assoc_n"] = len(assoc)
            out["assoc"] = sorted([list(r) for r in assoc])
            try:
                out["job_hashes_n"] = conn.execute(sa.text(
                    "select count(*) from job_hashes")).scalar()
            except Exception:
                out["job_hashes_n"] = None
        return out

    def dispose(self):
        for holder in self.holders:
            try:
                holder.session.close()
                holder.engine.dispose()
            except Exception:
                pass
        self.holders = []


def canon_event(ev):
    ev = dict(ev)
    prev = ev.get("previousEventIds")
    if isinstance(prev, list):
        ev["previousEventIds"] = sorted(prev)
    return ev


def collect_streams(pv_gen, keep_order=True):
    """{order: [[job_name, [job_id...]]...], jobs: {job_name: {job_id: [ev]}}}
    """
    order, jobs = [], {}
    for job_name, streams in pv_gen:
        ids = []
        per_name = jobs.setdefault(job_name, {})
        for n, stream in enumerate(streams):
            evs = [canon_event(e) for e in stream]
            if not keep_order:
                evs.sort(key=lambda e: json.dumps(e, sort_keys=True))
            job_ids = sorted({e.get("jobId") for e in evs})
            jid = job_ids[0] if len(job_ids) == 1 else "mixed:%s" % job_ids
            while jid in per_name:
                jid += "'"
            per_name[jid] = evs
            ids.append(jid)
        order.append([job_name, ids])
    return {"order": order, "jobs": jobs}


def run_otel_to_pv(cfg_dict, with_tables=False, keep_order=True,
                   shape_info=None, **kwargs):
    """One 'process run' of the real otel_to_pv on a config dict."""
    from tel2puml.otel_to_pv.config import IngestDataConfig
    from tel2puml.otel_to_pv.otel_to_pv import otel_to_pv
    fresh_process_state()
    config = IngestDataConfig(**cfg_dict)
    with HolderSpy() as spy:
        try:
            res = collect_streams(otel_to_pv(config, **kwargs), keep_order)
            if shape_info is not None:
                res = summarise_shapes(res, shape_info)
            if with_tables:
                res["tables"] = spy.table_state()
        finally:
            spy.dispose()
    return res


def summarise_shapes(res, shape_info):
    """Representative-insensitive view of a unique-graphs run."""
    out = {"n_jobs": {}, "shapes": {}, "types": {}}
    for job_name, per_id in res["jobs"].items():
        out["n_jobs"][job_name] = len(per_id)
        out["shapes"][job_name] = sorted(
            shape_info.get(jid, {}).get("sig", "?") for jid in per_id)
        # renames ("_m") may depend on which representative was streamed
        out["types"][job_name] = sorted(
            sorted(str(e.get("eventType")).removesuffix("_m") for e in evs)
            for evs in per_id.values())
    out["name_order"] = [n for n, _ in res["order"]]
    return out


def base_input(rng, tmpdir, n_traces=None, overlap=None, **kw):
    """Random traces (span dicts) + per job info."""
    n_traces = n_traces or rng.randint(3, 7)
    rnd_overlap = rng.choice([0.0, 0.3, 0.8])
    traces, info = G.gen_traces(
        rng, n_traces, n_templates=rng.randint(1, 3),
        overlap=rnd_overlap if overlap is None else overlap,
        alt_name_prob=rng.choice([0.0, 0.0, 0.3]), **kw)
    return traces, info


def shuffled_spans(rng, traces, interleave=True):
    spans = [s for t in traces for s in t]
    if interleave:
        rng.shuffle(spans)
    return spans


# --------------------------------------------------------------------------
# scenario kinds
# --------------------------------------------------------------------------
def sc_ingest_seq(rng, tmp, out):
    use_default_flag = rng.random() < 0.35
    traces, info = base_input(
        rng, tmp, overlap=0.8 if use_default_flag else None)
    spans = shuffled_spans(rng, traces, rng.random() < 0.7)
    n_files = rng.choice([1, 1, 2, 3])
    chunks = G.split_chunks(rng, spans, n_files)
    json_cfg, meta = G.write_source(rng, tmp, chunks)
    seq = G.gen_sequencer(rng)
    if use_default_flag:
        seq.pop("async_flag", None)     # rely on the project's default
        if rng.random() < 0.5:
            seq = None                  # ... or on the default sequencer
    cfg = G.ingest_config(json_cfg, batch_size=rng.choice([1, 2, 3, 7, 100]),
                          sequencer=seq)
    out["meta"] = meta
    out["sequencer"] = seq
    out["run"] = run_otel_to_pv(cfg, keep_order=meta["n_files"] == 1,
                                ingest_data=True)


def sc_dups_and_batches(rng, tmp, out):
    traces, info = base_input(rng, tmp, n_traces=rng.randint(2, 5))
    spans = shuffled_spans(rng, traces, rng.random() < 0.5)
    n_files = rng.choice([1, 1, 2, 3])
    single = n_files == 1
    # duplicates: adjacent (same batch), far apart (other batch / other file)
    for _ in range(rng.randint(2, 6)):
        src = dict(rng.choice(spans))
        if single and rng.random() < 0.4:
            # conflicting duplicate: first occurrence must win
            src["event_type"] = src["event_type"] + "x"
            src["app"] = "dupapp"
        how = rng.randint(0, 2)
        idx = spans.index(next(s for s in spans
                               if s["event_id"] == src["event_id"]))
        if how == 0:
            spans.insert(idx + 1, src)
        elif how == 1:
            spans.append(src)
        else:
            spans.insert(rng.randint(idx + 1, len(spans)), src)
    chunks = G.split_chunks(rng, spans, n_files)
    json_cfg, meta = G.write_source(rng, tmp, chunks)
    cfg = G.ingest_config(json_cfg, batch_size=rng.choice([1, 2, 3, 7, 100]),
                          sequencer={"async_flag": rng.random() < 0.5})
    out["meta"] = meta
    out["run"] = run_otel_to_pv(cfg, with_tables=True,
                                keep_order=meta["n_files"] == 1,
                                ingest_data=True)


def sc_clean(rng, tmp, out):
    buffer_min = 1
    w = G.MINUTE * buffer_min
    total = rng.randint(4, 6) * G.MINUTE
    t_min, t_max = G.BASE_NS, G.BASE_NS + total
    w0, w1 = t_min + w, t_max - w
    templates = [G.gen_template(rng) for _ in range(2)]
    traces = []

    def add(t0, dur, name=None, tmpl=None):
        jid = "c%02d" % len(traces)
        spans = G.instantiate(rng, tmpl or rng.choice(templates), jid,
                              name or rng.choice(G.JOB_NAMES), t0, dur,
                              overlap=0.3,
                              alt_name_prob=rng.choice([0.0, 0.3]))
        traces.append(spans)
        return spans

    # anchors fixing the global min / max timestamps (both in buffer zones)
    add(t_min, rng.randint(10**9, 20 * 10**9))
    add(t_max - 10**10, 10**10)
    # ordinary traces all over the place
    for _ in range(rng.randint(3, 6)):
        dur = rng.randint(10**9, 30 * 10**9)
        add(rng.randint(t_min, t_max - dur), dur)
    # boundary traces: end exactly on the window start / start exactly on
    # the window end / just outside
    leaf = ("A", [])
    if rng.random() < 0.7:
        add(w0 - 5 * 10**9, 5 * 10**9, tmpl=leaf)
    if rng.random() < 0.7:
        add(w1, 5 * 10**9, tmpl=leaf)
    if rng.random() < 0.5:
        add(w0 - 5 * 10**9, 5 * 10**9 - 1, tmpl=leaf)
    if rng.random() < 0.5:
        add(w1 + 1, 5 * 10**9, tmpl=leaf)
    # single span enclosing the whole window (no end point inside)
    if rng.random() < 0.5:
        add(t_min + 1, total - 2, tmpl=leaf)
    # dangling parents
    for _ in range(rng.randint(1, 3)):
        dur = rng.randint(2 * 10**9, 30 * 10**9)
        spans = add(rng.randint(w0, w1 - dur), dur)
        how = rng.randint(0, 2)
        if how == 0 or len(spans) == 1:
            # root refers to a span that is not there
            spans[0]["parent"] = spans[0]["job_id"] + ".ghost"
        elif how == 1:
            # drop a non-root span that has (or not) children
            victim = rng.choice(spans[1:])
            spans.remove(victim)
        else:
            # an inner span points to a missing parent
            rng.choice(spans[1:])["parent"] = spans[0]["job_id"] + ".nope"
    spans = shuffled_spans(rng, traces, True)
    n_files = rng.choice([1, 1, 2])
    chunks = G.split_chunks(rng, spans, n_files)
    json_cfg, meta = G.write_source(rng, tmp, chunks)
    cfg = G.ingest_config(json_cfg, batch_size=rng.choice([1, 3, 7, 100]),
                          time_buffer=buffer_min,
                          sequencer={"async_flag": rng.random() < 0.5})
    out["meta"] = meta
    res = run_otel_to_pv(cfg, with_tables=True,
                         keep_order=meta["n_files"] == 1, ingest_data=True)
    out["survivors"] = sorted(j for per in res["jobs"].values() for j in per)
    out["run"] = res


def sc_unique_graphs(rng, tmp, out):
    n_templates = rng.randint(1, 3)
    names = rng.sample(G.JOB_NAMES, rng.randint(1, 3))
    buffered = rng.random() < 0.5
    info = {}
    if not buffered:
        time_buffer = 0
        traces, info = G.gen_traces(rng, rng.randint(5, 10), n_templates,
                                    job_names=names,
                                    overlap=rng.choice([0.0, 0.5]),
                                    alt_name_prob=rng.choice([0.0, 0.3]))
    else:
        # non-zero buffer: the unique graph search has its own window filter
        time_buffer = 1
        total = rng.randint(4, 6) * G.MINUTE
        t_min, t_max = G.BASE_NS, G.BASE_NS + total
        w0, w1 = t_min + G.MINUTE, t_max - G.MINUTE
        templates = [G.gen_template(rng) for _ in range(n_templates)]
        leaf = (rng.choice(G.ALPHABET), [])
        traces = []

        def add(t0, dur, tmpl=None):
            tmpl = tmpl or rng.choice(templates)
            jid = "u%02d" % len(traces)
            name = rng.choice(names)
            traces.append(G.instantiate(
                rng, tmpl, jid, name, t0, dur, overlap=0.3,
                alt_name_prob=rng.choice([0.0, 0.3])))
            info[jid] = dict(sig=G.shape_sig(tmpl), name=name)

        add(t_min, 10**10)
        add(t_max - 10**10, 10**10)
        for _ in range(rng.randint(4, 8)):
            dur = rng.randint(10**9, 30 * 10**9)
            add(rng.randint(t_min, t_max - dur), dur)
        # leaf-only traces sitting exactly on / just off the window borders
        # (a shape of their own, so each border decides a distinct graph)
        for t0, dur in rng.sample(
                [(w1, 5 * 10**9), (w0 - 5 * 10**9, 5 * 10**9),
                 (w1 + 1, 5 * 10**9), (w0 - 5 * 10**9, 5 * 10**9 - 1)],
                rng.randint(1, 3)):
            add(t0, dur, tmpl=leaf)
            leaf = (leaf[0] + "'", [])
    spans = shuffled_spans(rng, traces, True)
    chunks = G.split_chunks(rng, spans, rng.choice([1, 2]))
    json_cfg, meta = G.write_source(rng, tmp, chunks)
    seq = G.gen_sequencer(rng, names)
    cfg = G.ingest_config(json_cfg, batch_size=rng.choice([1, 2, 3, 7, 100]),
                          time_buffer=time_buffer, sequencer=seq)
    out["meta"] = meta
    out["time_buffer"] = time_buffer
    out["expected_pairs"] = sorted({(v["name"], v["sig"])
                                    for v in info.values()})
    out["run"] = run_otel_to_pv(cfg, with_tables=False, shape_info=info,
                                ingest_data=True, find_unique_graphs=True)


def sc_two_runs_file_db(rng, tmp, out):
    traces, info = G.gen_traces(rng, rng.randint(3, 6), rng.randint(1, 2),
                                overlap=0.3,
                                alt_name_prob=rng.choice([0.0, 0.3]))
    if rng.random() < 0.5:
        # one inconsistent job so that cleaning has something to remove
        bad = traces[-1]
        bad[0]["parent"] = bad[0]["job_id"] + ".ghost"
    spans = shuffled_spans(rng, traces, True)
    single = rng.random() < 0.6
    chunks = G.split_chunks(rng, spans, 1 if single else 2)
    json_cfg, meta = G.write_source(rng, tmp, chunks)
    keep = meta["n_files"] == 1
    db_uri = "sqlite:///" + os.path.join(tmp, "store.db")
    seq = {"async_flag": rng.random() < 0.5}

    def cfg(batch):
        return G.ingest_config(json_cfg, db_uri=db_uri, batch_size=batch,
                               time_buffer=0, sequencer=seq)
    out["meta"] = meta
    ug1 = rng.random() < 0.7
    out["run1"] = run_otel_to_pv(
        cfg(rng.choice([3, 7, 100])), with_tables=True, keep_order=keep,
        shape_info=info if ug1 else None,
        ingest_data=True, find_unique_graphs=ug1)
    out["run2"] = run_otel_to_pv(
        cfg(rng.choice([2, 7, 100])), with_tables=True, keep_order=keep,
        ingest_data=False)
    out["run2_ug"] = run_otel_to_pv(
        cfg(rng.choice([2, 7, 100])), with_tables=True, shape_info=info,
        ingest_data=False, find_unique_graphs=True)
    out["run3_reingest"] = run_otel_to_pv(
        cfg(rng.choice([3, 7, 100])), with_tables=True, keep_order=keep,
        ingest_data=True)


def sc_save_events_roundtrip(rng, tmp, out):
    from tel2puml.tel2puml_types import PVEventMappingConfig
    from tel2puml.pv_to_puml.pv_to_puml import (
        pv_job_files_to_event_sequence_streams, pv_files_to_pv_streams,
    )
    traces, info = base_input(rng, tmp, n_traces=rng.randint(2, 5))
    spans = shuffled_spans(rng, traces, True)
    json_cfg, meta = G.write_source(rng, tmp, [spans])
    cfg = G.ingest_config(json_cfg, batch_size=rng.choice([2, 7, 100]),
                          sequencer=G.gen_sequencer(rng))
    mapping = None
    if rng.random() < 0.6:
        fields = ["jobId", "eventId", "timestamp", "previousEventIds",
                  "applicationName", "jobName", "eventType"]
        mapping = PVEventMappingConfig(**{
            f: ("user_" + f if rng.random() < 0.6 else f) for f in fields})
    out["meta"] = meta
    out["mapping"] = mapping.model_dump() if mapping else None
    outdir = os.path.join(tmp, "pv_out")
    os.makedirs(outdir)
    out["streamed"] = run_otel_to_pv(cfg, ingest_data=True)
    kwargs = {} if mapping is None else {"mapping_config": mapping}
    out["after_save"] = run_otel_to_pv(
        cfg, ingest_data=True, save_events=True,
        output_file_directory=outdir, **kwargs)
    loaded, raw_keys = {}, {}
    for job_name in sorted(os.listdir(outdir)):
        d = os.path.join(outdir, job_name)
        files = sorted(os.listdir(d),
                       key=lambda f: (len(f), f))
        paths = [os.path.join(d, f) for f in files]
        if mapping is None:
            seqs = list(pv_job_files_to_event_sequence_streams(paths))
        else:
            seqs = list(pv_job_files_to_event_sequence_streams(
                paths, mapping))
        loaded[job_name] = {
            "files": files,
            "seqs": [[canon_event(e) for e in s] for s in seqs],
        }
        with open(paths[0]) as fh:
            first = json.load(fh)
        raw_keys[job_name] = sorted(first[0].keys()) if first else []
        # the pv2puml arm of otel_to_puml
        opts = dict(file_list=paths, job_name=job_name,
                    group_by_job_id=False)
        if mapping is not None:
            opts["mapping_config"] = mapping
        arm = [[n, [[canon_event(e) for e in s] for s in ss]]
               for n, ss in pv_files_to_pv_streams(**opts)]
        loaded[job_name]["arm"] = arm
    out["loaded"] = loaded
    out["raw_keys"] = raw_keys


def sc_timestamps(rng, tmp, out):
    from tel2puml.utils import unix_nano_to_pv_string
    try:
        from tel2puml.utils import datetime_to_pv_string
    except Exception:
        datetime_to_pv_string = None
    try:
        from tel2puml.pv_to_tel import convert_timestamp_to_unix_nano as conv
    except Exception:
        conv = None
    from datetime import datetime, timezone, timedelta
    res = []

    def guarded(fn, *a):
        try:
            return fn(*a)
        except ScenarioTimeout:
            raise
        except Exception as e:
            return "exc:" + type(e).__name__
    instants = []
    for _ in range(12):
        instants.append(rng.randint(0, 2 * 10**18))
    for _ in range(5):
        instants.append(-rng.randint(1, 10**18))       # pre-1970
    for _ in range(5):
        instants.append(rng.randint(0, 2 * 10**9) * 10**9)      # whole secs
    for _ in range(5):
        instants.append(rng.randint(0, 2 * 10**9) * 10**9
                        + rng.randint(1, 999_999) * 1000)       # whole micros
    instants += [0, 1, 999, 10**9 - 1, 10**9, -1, -10**9, -10**9 - 1000,
                 1723544132228102912]
    for ns in instants:
        s = guarded(unix_nano_to_pv_string, ns)
        item = {"ns": ns, "pv": s}
        if conv is not None and isinstance(s, str) and \
                not s.startswith("exc:"):
            back = guarded(conv, s)
            item["back"] = back
            if isinstance(back, int):
                item["pv2"] = guarded(unix_nano_to_pv_string, back)
        res.append(item)
    iso = []
    for _ in range(10):
        dt = datetime(1970, 1, 1, tzinfo=timezone.utc) + timedelta(
            seconds=rng.randint(-10**9, 2 * 10**9),
            microseconds=rng.randint(0, 999_999))
        frac = rng.choice(["%f", "%f", None, "ms"])
        base = dt.strftime("%Y-%m-%dT%H:%M:%S")
        if frac == "%f":
            base += "." + dt.strftime("%f")
        elif frac == "ms":
            base += "." + dt.strftime("%f")[:3]
        if rng.random() < 0.7:
            base += "Z"
        iso.append(base)
        if datetime_to_pv_string is not None:
            res.append({"dt": base,
                        "pvs": guarded(datetime_to_pv_string, dt)})
    iso += ["1970-01-01T00:00:00Z", "1969-12-31T23:59:59.500000Z",
            "2024-08-13T10:15:32.228102Z", "2024-02-29T23:59:59.999999",
            "not-a-timestamp"]
    if conv is not None:
        for s in iso:
            ns = guarded(conv, s)
            item = {"iso": s, "ns": ns}
            if isinstance(ns, int):
                item["pv"] = guarded(unix_nano_to_pv_string, ns)
            res.append(item)
    out["conv_available"] = conv is not None
    out["res"] = res


def _otel_events_from_spans(spans, with_children=True):
    from tel2puml.otel_to_pv.otel_to_pv_types import OTelEvent
    return [
        OTelEvent(job_name=s["job_name"], job_id=s["job_id"],
                  event_type=s["event_type"], event_id=s["event_id"],
                  start_timestamp=s["start"], end_timestamp=s["end"],
                  application_name=s["app"], parent_event_id=s["parent"],
                  child_event_ids=list(s["children"]) if with_children
                  else None)
        for s in spans
    ]


def sc_seq_unit(rng, tmp, out):
    import tel2puml.otel_to_pv.sequence_otel as so
    from tel2puml.otel_to_pv.otel_to_pv_types import OTelEventTypeMap

    def guarded(fn):
        try:
            return fn()
        except ScenarioTimeout:
            raise
        except Exception as e:
            return "exc:" + type(e).__name__

    traces, info = G.gen_traces(rng, rng.randint(2, 4), rng.randint(1, 2),
                                job_names=["jobA"], overlap=0.8)
    # one disconnected trace (a parent that is absent)
    broken = [dict(s) for s in G.instantiate(
        rng, G.gen_template(rng), "tbroken", "jobA", G.BASE_NS, 10**9)]
    if len(broken) > 1:
        del broken[0]
    else:
        broken[0]["parent"] = "nowhere"
    seq = G.gen_sequencer(rng, ["jobA"])
    groups = seq.get("async_event_groups", {}).get("jobA")
    if groups is None and rng.random() < 0.6:
        groups = {p: {k: "g%d" % rng.randint(1, 2)
                      for k in rng.sample(G.ALPHABET, 3)} | {"ZZ": "g9"}
                  for p in rng.sample(G.ALPHABET, 3)}
    raw_map = seq.get("event_name_map_information", {}).get("jobA")
    if raw_map is None and rng.random() < 0.6:
        raw_map = {et: {"mapped_event_type": et + "_m",
                        "child_event_types": rng.sample(G.ALPHABET, 2)}
                   for et in rng.sample(G.ALPHABET, 2)}

    def type_map():
        if raw_map is None:
            return None
        return {k: OTelEventTypeMap(**v) for k, v in raw_map.items()}

    def streams():
        sts = [_otel_events_from_spans(rng_shuffled(t)) for t in traces]
        sts.insert(1, _otel_events_from_spans(broken))
        return sts

    order_rng = random.Random(rng.random())

    def rng_shuffled(trace):
        t = list(trace)
        random.Random(order_rng.random()).shuffle(t)
        return t

    out["groups_cfg"] = groups
    out["map_cfg"] = raw_map
    full = {}
    for flag in (False, True):
        for use_groups in (False, True):
            for use_map in (False, True):
                key = "a%d_g%d_m%d" % (flag, use_groups, use_map)
                full[key] = guarded(lambda: [
                    [canon_event(e) for e in job]
                    for job in so.sequence_otel_job_id_streams(
                        streams(), flag,
                        groups if use_groups else None,
                        type_map() if use_map else None)])
    out["full"] = full
    # direct single-job call
    single = {}
    for n, t in enumerate(traces):
        evs = _otel_events_from_spans(t)
        emap = {e.event_id: e for e in evs}
        single["t%d" % n] = guarded(lambda: [
            canon_event(e) for e in so.sequence_otel_event_job(
                emap, rng.random() < 0.5, groups)])
        single["t%d_prev" % n] = guarded(lambda: {
            k: sorted(v) for k, v in so.sequence_otel_event_ancestors(
                so.get_root_event_from_event_id_to_event_map(emap), emap,
                async_flag=True, event_to_async_group_map=groups).items()})
    # two roots -> error
    two = _otel_events_from_spans(traces[0])
    two[-1].parent_event_id = None
    single["two_roots"] = guarded(lambda: list(so.sequence_otel_event_job(
        {e.event_id: e for e in two})))
    # missing child list -> error
    nokids = _otel_events_from_spans(traces[0], with_children=False)
    single["no_child_lists"] = guarded(lambda: list(
        so.sequence_otel_event_job({e.event_id: e for e in nokids})))
    out["single"] = single
    # group level functions on sibling sets
    sib = {}
    for n, t in enumerate(traces):
        evs = {e.event_id: e for e in _otel_events_from_spans(t)}
        for s in t:
            if len(s["children"]) < 2:
                continue
            kids = [evs[c] for c in s["children"]]
            random.Random(order_rng.random()).shuffle(kids)
            key = s["event_id"]
            sib[key + ":order"] = guarded(lambda: [
                [e.event_id for e in g]
                for g in so.order_groups_by_start_timestamp(
                    [[k] for k in kids])])
            sib[key + ":async"] = guarded(lambda: [
                sorted(e.event_id for e in g)
                for g in so.sequence_groups_of_otel_events_asynchronously(
                    [[k] for k in kids])])
            amap = (groups or {}).get(s["event_type"]) or {
                k.event_type: "g1" for k in kids[:2]} | {"ZZ": "g9"}
            grouped = guarded(lambda: so.group_events_using_async_information(
                list(kids), amap))
            if isinstance(grouped, list):
                sib[key + ":grouped"] = sorted(
                    sorted(e.event_id for e in g) for g in grouped)
                sib[key + ":grouped_order"] = guarded(lambda: [
                    [e.event_id for e in g]
                    for g in so.order_groups_by_start_timestamp(
                        [list(g) for g in grouped])])
                sib[key + ":grouped_async"] = guarded(lambda: [
                    sorted(e.event_id for e in g) for g in
                    so.sequence_groups_of_otel_events_asynchronously(
                        [list(g) for g in grouped])])
            else:
                sib[key + ":grouped"] = grouped
    out["siblings"] = sib
    # hand built: long first span hiding later ones (A[0,100] B[10,20]
    # C[30,40] D[150,160]) with random offsets
    from tel2puml.otel_to_pv.otel_to_pv_types import OTelEvent

    def ev(i, s, e):
        return OTelEvent(job_name="j", job_id="hb", event_type="T%d" % i,
                         event_id="hb%d" % i, start_timestamp=s,
                         end_timestamp=e, application_name="a",
                         parent_event_id="hbroot", child_event_ids=[])
    o = rng.randint(0, 1000)
    a_end = o + rng.randint(80, 120)
    hb = [ev(0, o, a_end), ev(1, o + 10, o + 20), ev(2, o + 30, o + 40),
          ev(3, a_end, a_end + 5), ev(4, a_end + 30, a_end + 40)]
    rng.shuffle(hb)
    out["hand_async"] = guarded(lambda: [
        sorted(e.event_id for e in g)
        for g in so.sequence_groups_of_otel_events_asynchronously(
            [[e] for e in hb])])
    out["hand_empty"] = [
        guarded(lambda: so.order_groups_by_start_timestamp([])),
        guarded(lambda: so.sequence_groups_of_otel_events_asynchronously([])),
        guarded(lambda: so.group_events_using_async_information(
            [], {"A": "g"})),
        guarded(lambda: so.order_groups_by_start_timestamp([[]])),
    ]


def sc_json_extract(rng, tmp, out):
    from tel2puml.otel_to_pv.config import IngestDataConfig
    traces, info = base_input(rng, tmp, n_traces=rng.randint(2, 4))
    spans = shuffled_spans(rng, traces, True)
    style = rng.choice(["otlp", "flat_wrapped", "flat_lines"])
    flat = style != "otlp"
    bad = []
    for s in rng.sample(spans, min(len(spans), rng.randint(2, 6))):
        s = dict(s)
        s["event_id"] = s["event_id"] + ".bad%d" % len(bad)
        how = rng.randint(0, 6)
        ov = {}
        if how == 0:     # missing mandatory id
            ov["ctx.span" if flat else "span_id"] = G._DELETE
        elif how == 1:   # missing job id
            ov["ctx.trace" if flat else "trace_id"] = None
        elif how == 2:   # non numeric timestamp
            ov["t.s" if flat else "start_time_unix_nano"] = "12x"
        elif how == 3:   # fractional timestamp
            ov["t.e" if flat else "end_time_unix_nano"] = 1.5
        elif how == 4:   # no event type anywhere
            s.pop("event_type")
            if flat:
                ov["op.name"] = G._DELETE
        elif how == 5:   # children of the wrong type (only seen if mapped)
            ov["kids" if flat else "child_span_ids"] = [1, 2]
        else:            # timestamp as an object
            ov["t.s" if flat else "start_time_unix_nano"] = {"v": 1}
        s["override"] = ov
        s["how"] = how
        bad.append(s)
        spans.insert(rng.randint(0, len(spans)), s)
    n_files = rng.choice([1, 1, 2])
    chunks = G.split_chunks(rng, spans, n_files)
    json_cfg, meta = G.write_source(rng, tmp, chunks, style=style)
    if style == "flat_lines" and rng.random() < 0.4:
        # garbage line in the middle of a per-line file
        path = json_cfg.get("filepath")
        if path is None:
            path = os.path.join(json_cfg["dirpath"], "file0.json")
        with open(path) as fh:
            lines = fh.read().splitlines()
        lines.insert(rng.randint(0, len(lines)), "{not json")
        with open(path, "w") as fh:
            fh.write("\n".join(lines) + "\n")
        meta["garbage_line"] = True
    cfg = IngestDataConfig(**G.ingest_config(json_cfg))
    from tel2puml.otel_to_pv.data_sources.json_data_source.json_datasource \
        import JSONDataSource
    source = JSONDataSource(cfg.data_sources["json"])
    events = [e.model_dump() for e in source]
    if meta["n_files"] > 1:
        events.sort(key=lambda e: json.dumps(e, sort_keys=True))
    out["meta"] = meta
    out["n_bad_injected"] = len(bad)
    out["bad_kinds"] = sorted(b["how"] for b in bad)
    out["events"] = events
    out["jq"] = getattr(source, "jq_query", None)


def sc_cli_otel2pv(rng, tmp, out):
    """Drive the otel2pv sub-command through the real argument parser and
    main_handler, saving PV event files; also pv_event_to_otel."""
    import yaml
    import tel2puml.__main__ as cli
    traces, info = base_input(rng, tmp, n_traces=rng.randint(2, 4))
    spans = shuffled_spans(rng, traces, True)
    json_cfg, meta = G.write_source(rng, tmp, [spans])
    cfg = G.ingest_config(json_cfg, batch_size=rng.choice([2, 5, 100]),
                          sequencer=G.gen_sequencer(rng))
    cfg_path = os.path.join(tmp, "config.yaml")
    with open(cfg_path, "w") as fh:
        yaml.safe_dump(cfg, fh)
    outdir = os.path.join(tmp, "cli_out")
    argv = ["-o", outdir, "otel2pv", "-c", cfg_path, "-se"]
    ug = rng.random() < 0.3
    if ug:
        argv.append("-ug")
    mapping = None
    if rng.random() < 0.5:
        mapping = {"jobId": "JID", "eventId": "EID", "timestamp": "ts",
                   "previousEventIds": "prev", "applicationName": "appn",
                   "jobName": "jn", "eventType": "et"}
        mpath = os.path.join(tmp, "mapping.yaml")
        with open(mpath, "w") as fh:
            yaml.safe_dump(mapping, fh)
        argv += ["-mc", mpath]
    out["argv"] = [a for a in argv if not a.startswith(tmp)]
    out["meta"] = meta
    fresh_process_state()
    args = vars(cli.parser.parse_args(argv))
    out["arg_keys"] = sorted(args)
    try:
        cli.main_handler(args, cli.ERROR_MESSAGES)
        out["exit"] = None
    except SystemExit as e:
        out["exit"] = str(e.code)
    files = {}
    if os.path.isdir(outdir):
        for job_name in sorted(os.listdir(outdir)):
            d = os.path.join(outdir, job_name)
            if not os.path.isdir(d):
                files[job_name] = "file"
                continue
            per = {}
            for f in sorted(os.listdir(d), key=lambda f: (len(f), f)):
                with open(os.path.join(d, f)) as fh:
                    data = json.load(fh)
                prev_key = (mapping or {}).get("previousEventIds",
                                               "previousEventIds")
                for e in data:
                    if isinstance(e.get(prev_key), list):
                        e[prev_key] = sorted(e[prev_key])
                per[f] = data
            if ug:
                jid_key = (mapping or {}).get("jobId", "jobId")
                et_key = (mapping or {}).get("eventType", "eventType")
                files[job_name] = {
                    "n": len(per),
                    "shapes": sorted(
                        info.get(d_[0].get(jid_key), {}).get("sig", "?")
                        for d_ in per.values() if d_),
                    "types": sorted(
                        sorted(str(e.get(et_key)).removesuffix("_m")
                               for e in d_)
                        for d_ in per.values()),
                }
            else:
                files[job_name] = per
    out["files"] = files
    # pv -> otel span conversion on the streamed events
    try:
        from tel2puml.pv_to_tel import pv_event_to_otel
    except Exception:
        pv_event_to_otel = None
    if pv_event_to_otel is not None and not ug and mapping is None:
        conv = []
        for per in files.values():
            for data in per.values():
                for e in data:
                    try:
                        conv.append(dict(pv_event_to_otel(e)))
                    except ScenarioTimeout:
                        raise
                    except Exception as ex:
                        conv.append("exc:" + type(ex).__name__)
        out["pv_to_otel"] = conv


KINDS = [
    ("ingest_seq", sc_ingest_seq),
    ("dups_and_batches", sc_dups_and_batches),
    ("clean", sc_clean),
    ("unique_graphs", sc_unique_graphs),
    ("two_runs_file_db", sc_two_runs_file_db),
    ("save_events_roundtrip", sc_save_events_roundtrip),
    ("timestamps", sc_timestamps),
    ("seq_unit", sc_seq_unit),
    ("json_extract", sc_json_extract),
    ("cli_otel2pv", sc_cli_otel2pv),
]


# --------------------------------------------------------------------------
# driver
# --------------------------------------------------------------------------
def canonical(out):
    return json.dumps(out, sort_keys=True, default=repr)


def run_scenario(seed, tmp):
    kind, fn = KINDS[seed % len(KINDS)]
    rng = random.Random(seed)
    out = {}
    st = "ok"
    signal.signal(signal.SIGALRM, _on_alarm)
    signal.alarm(SCENARIO_TIMEOUT)
    try:
        fn(rng, tmp, out)
    except ScenarioTimeout:
        st = "timeout"
    except BaseException as e:  # noqa: B902 - SystemExit etc. included
        st = "exc:" + type(e).__name__
        if DEBUG:
            traceback.print_exc()
    finally:
        signal.alarm(0)
    try:
        txt = canonical(out)
    except BaseException:
        txt = "unserialisable"
    txt = txt.replace(tmp, "<TMP>")
    rec = dict(seed=seed, kind=kind, st=st,
               h=hashlib.sha1(txt.encode()).hexdigest()[:12])
    if DUMP:
        rec["out"] = json.loads(txt) if txt != "unserialisable" else txt
    return rec


def run_isolated(seed):
    kind = KINDS[seed % len(KINDS)][0]
    tmp = tempfile.mkdtemp(prefix="otelharness_")
    rfd, wfd = os.pipe()
    sys.stdout.flush()
    sys.stderr.flush()
    pid = os.fork()
    if pid == 0:
        code = 0
        try:
            os.close(rfd)
            devnull = os.open(os.devnull, os.O_WRONLY)
            os.dup2(devnull, 1)
            if not DEBUG:
                os.dup2(devnull, 2)
            rec = run_scenario(seed, tmp)
            data = json.dumps(rec, sort_keys=False).encode()
            while data:
                n = os.write(wfd, data)
                data = data[n:]
        except BaseException:
            code = 1
        finally:
            os._exit(code)
    os.close(wfd)
    chunks = []
    deadline = time.monotonic() + HARD_TIMEOUT
    timed_out = False
    try:
        while True:
            left = deadline - time.monotonic()
            if left <= 0:
                timed_out = True
                break
            ready, _, _ = select.select([rfd], [], [], left)
            if not ready:
                timed_out = True
                break
            data = os.read(rfd, 1 << 16)
            if not data:
                break
            chunks.append(data)
    finally:
        os.close(rfd)
        if timed_out:
            try:
                os.kill(pid, signal.SIGKILL)
            except OSError:
                pass
        try:
            os.waitpid(pid, 0)
        except OSError:
            pass
        shutil.rmtree(tmp, ignore_errors=True)
    if timed_out:
        return dict(seed=seed, kind=kind, st="timeout", h="0" * 12)
    try:
        return json.loads(b"".join(chunks).decode())
    except Exception:
        return dict(seed=seed, kind=kind, st="exc:HarnessChildDied",
                    h="0" * 12)


def warm_up():
    """Import the heavy modules once in the parent so that forks are cheap.
    Failures are ignored here; the children will report them per scenario."""
    for mod in ("tel2puml.otel_to_pv.otel_to_pv",
                "tel2puml.otel_to_pv.config",
                "tel2puml.utils",
                "tel2puml.pv_to_puml.pv_to_puml",
                "tel2puml.pv_to_tel",
                "tel2puml.__main__",
                "yaml"):
        try:
            __import__(mod)
        except BaseException:
            pass


def main(argv):
    if len(argv) != 3:
        sys.stderr.write(__doc__)
        return 2
    a, b = int(argv[1]), int(argv[2])
    warm_up()
    for seed in range(a, b):
        try:
            rec = run_isolated(seed)
        except BaseException as e:  # the harness itself must never crash
            if isinstance(e, KeyboardInterrupt):
                raise
            rec = dict(seed=seed, kind=KINDS[seed % len(KINDS)][0],
                       st="exc:Harness" + type(e).__name__, h="0" * 12)
        print(json.dumps(rec), flush=True)
    return 0


if __name__ == "__main__":
    sys.exit(main(sys.argv))
