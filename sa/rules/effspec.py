"""Effect summaries in role expressions (sa/roles.py) and a small vocabulary
to state obligations over them.

A function is summarised as the list of its *effects*: statement-level calls
(and calls of named methods wherever they occur), returns, yields, attribute /
subscript stores and raises -- each with the role expression of its receiver
and arguments and with the role-described conditions that control it (CFG
control dependence + the filters of comprehensions that were looked through).
Obligations name an effect by (method, receiver, arguments) and constrain the
conditions under which it runs; local names, temporaries, guard-clause vs
nesting, loop vs comprehension and inlined / extracted helpers do not show in
a summary."""
from __future__ import annotations

import ast
import re
from dataclasses import dataclass, field
from typing import Callable, Iterable, Optional

from ..core import FuncInfo, Report, unparse
from ..ctx import Ctx
from ..roles import Roles

Guard = tuple


@dataclass
class Eff:
    kind: str                      # call | ret | yield | store | raise | bind
    name: str                      # method / function name ('' for others)
    recv: str                      # receiver role ('' for plain functions)
    args: tuple[str, ...]
    guards: list[Guard]
    node: ast.AST = field(repr=False, default=None)   # type: ignore[assignment]

    def show(self) -> str:
        r = f"{self.recv}." if self.recv else ""
        head = {"call": f"{r}{self.name}({', '.join(self.args)})",
                "ret": f"return {', '.join(self.args)}",
                "yield": f"yield {', '.join(self.args)}",
                "store": f"{self.recv} = {', '.join(self.args)}",
                "raise": "raise", "bind": f"{self.name} := "
                f"{', '.join(self.args)}"}[self.kind]
        return f"{head} when {self.guards or 'always'}"


_EDGE1 = re.compile(r"each\(([^()]*?(?:\([^()]*\))?[^()]*?)\.out_edges\(\[?(each\((?:[^()]|\([^()]*\))*\)|P:\w+)\]?\)\)\[1\]")
_EDGE0 = re.compile(r"each\(([^()]*?(?:\([^()]*\))?[^()]*?)\.in_edges\(\[?(each\((?:[^()]|\([^()]*\))*\)|P:\w+)\]?\)\)\[0\]")


def nx_norm(s: str) -> str:
    """networkx idioms for the neighbours of ONE node:
    ``each(G.out_edges([x]))[1]`` == ``each(G.successors(x))`` and
    ``each(G.in_edges(x))[0]`` == ``each(G.predecessors(x))``."""
    prev = None
    while prev != s:
        prev = s
        s = _EDGE1.sub(r"each(\1.successors(\2))", s)
        s = _EDGE0.sub(r"each(\1.predecessors(\2))", s)
    s = re.sub(r"each\(list\(((?:[^()]|\((?:[^()]|\([^()]*\))*\))*)\)\)", r"each(\1)", s)
    return s


def setnorm(s: str) -> str:
    """``frozenset(X.to_list())`` / ``set(X.to_list())`` == ``X.to_frozenset()``;
    ``set(gen)`` / ``frozenset(gen)`` == the set comprehension."""
    s = re.sub(r"^(?:frozen)?set\((.*)\.to_list\(\)\)$", r"\1.to_frozenset()",
               s)
    m = re.match(r"^(?:frozen)?set\(\((.*)\)\)$", s)
    if m:
        s = "{" + m.group(1) + "}"
    m = re.match(r"^(?:frozen)?set\(\[(.*)\]\)$", s)
    if m and " for.." in s:
        s = "{" + m.group(1) + "}"
    return s


def _norm_guard(g: Guard, norm: Callable[[str], str]) -> Guard:
    if g[0] in ("any", "all"):
        return (g[0], tuple(sorted(_norm_guard(x, norm) for x in g[1]))) + \
            tuple(g[2:])
    if g[0] == "le":
        return ("le", setnorm(norm(g[1])), setnorm(norm(g[2])), g[3])
    if g[0] == "cmp":
        return ("cmp", norm(g[1]), g[2], norm(g[3]), g[4])
    return (g[0], norm(g[1])) + tuple(g[2:])


def effects(ctx: Ctx, fi: FuncInfo, names: Optional[Iterable[str]] = None,
            norm: Callable[[str], str] = nx_norm) -> list[Eff]:
    R = Roles(ctx, fi)
    want = set(names) if names is not None else None
    out: list[Eff] = []
    pm = ctx.index.parents(fi)

    def guards_at(node: ast.AST, side: list) -> list[Guard]:
        gs = []
        for g in R.guards(node) + side:
            g = _norm_guard(g, norm)
            if g not in gs:
                gs.append(g)
        return gs

    def roles(exprs: list[ast.AST], at: ast.AST) -> tuple[list[str], list]:
        side: list = []
        rs = []
        for e in exprs:
            rs.append(norm(R.of(e, at)))
            side += R.side
        return rs, side

    for n in ast.walk(fi.node):
        if isinstance(n, ast.Call):
            stmt_level = isinstance(pm.get(n), ast.Expr)
            nm = n.func.attr if isinstance(n.func, ast.Attribute) else (
                n.func.id if isinstance(n.func, ast.Name) else "")
            if not (stmt_level or (want is not None and nm in want)):
                continue
            if want is not None and nm not in want and not stmt_level:
                continue
            exprs = ([n.func.value] if isinstance(n.func, ast.Attribute)
                     else []) + list(n.args) + [k.value for k in n.keywords]
            rs, side = roles(exprs, n)
            recv = rs.pop(0) if isinstance(n.func, ast.Attribute) else ""
            na = len(n.args)
            args = rs[:na] + [f"{k.arg}={r}" for k, r in zip(n.keywords,
                                                            rs[na:])]
            out.append(Eff("call", nm, recv, tuple(args), guards_at(n, side),
                           n))
        elif isinstance(n, ast.Return):
            if n.value is None:
                out.append(Eff("ret", "", "", ("None",), guards_at(n, []), n))
            else:
                rs, side = roles([n.value], n)
                out.append(Eff("ret", "", "", tuple(rs), guards_at(n, side),
                               n))
        elif isinstance(n, ast.Expr) and isinstance(n.value, (ast.Yield,
                                                              ast.YieldFrom)):
            v = n.value.value
            rs, side = roles([v], n) if v is not None else (["None"], [])
            out.append(Eff("yield", "from" if isinstance(
                n.value, ast.YieldFrom) else "", "", tuple(rs),
                guards_at(n, side), n))
        elif isinstance(n, (ast.Assign, ast.AugAssign, ast.AnnAssign)):
            if isinstance(n, ast.AnnAssign) and n.value is None:
                continue
            tgt = n.targets[0] if isinstance(n, ast.Assign) else n.target
            if isinstance(tgt, (ast.Attribute, ast.Subscript)):
                rs, side = roles([tgt, n.value], n)
                op = type(n.op).__name__ if isinstance(n, ast.AugAssign) \
                    else ""
                out.append(Eff("store", op, rs[0], (rs[1],),
                               guards_at(n, side), n))
        elif isinstance(n, ast.Raise):
            out.append(Eff("raise", "", "", (), guards_at(n, []), n))
    # bindings of the variables a function returns by name: the ``phi`` in
    # the role of `return a, b` says WHICH values can be returned, a
    # "bind" effect says under which conditions each of them is chosen
    pos: dict[str, list[tuple[int, list]]] = {}
    arity = max([len(n.value.elts) for n in ast.walk(fi.node)
                 if isinstance(n, ast.Return) and isinstance(
                     n.value, ast.Tuple)] or [1])
    for n in ast.walk(fi.node):
        if isinstance(n, ast.Return) and n.value is not None:
            val = n.value
            if isinstance(val, ast.Name):
                # `t = (a, b)` ... `return t`
                ds = [a for a in ast.walk(fi.node) if isinstance(
                    a, ast.Assign) and len(a.targets) == 1 and isinstance(
                    a.targets[0], ast.Name) and a.targets[0].id == val.id]
                if len(ds) == 1 and isinstance(ds[0].value, ast.Tuple):
                    val = ds[0].value
                    arity = max(arity, len(val.elts))
            elts = val.elts if isinstance(val, ast.Tuple) else [val]
            if not any(isinstance(el, ast.Name) for el in elts) and len(
                    elts) == 1:
                # `return f(..)` in a function that elsewhere returns a
                # k-tuple: the call yields all k positions
                if arity > 1 and isinstance(elts[0], ast.Call):
                    rs, side = roles([elts[0]], n)
                    for k in range(arity):
                        out.append(Eff("bind", f"ret[{k}]", "",
                                       (f"{rs[0]}[{k}]",),
                                       guards_at(n, side), n))
                continue
            rg = guards_at(n, [])
            for k, el in enumerate(elts):
                if isinstance(el, ast.Name):
                    pos.setdefault(el.id, []).append((k, rg))
                else:
                    # returned as an expression: bound where it is returned
                    rs, side = roles([el], n)
                    out.append(Eff("bind", f"ret[{k}]", "", (rs[0],),
                                   guards_at(n, side), n))
    # a local with several definitions handed to a named call: the ``phi``
    # in the argument's role says WHICH values, ``bind <call>#<i>`` says
    # under which conditions each is chosen (name-free: the variable is
    # identified by the argument position it feeds)
    if want:
        for c in ast.walk(fi.node):
            if not isinstance(c, ast.Call):
                continue
            nm = c.func.attr if isinstance(c.func, ast.Attribute) else (
                c.func.id if isinstance(c.func, ast.Name) else "")
            if nm not in want:
                continue
            for i, a in enumerate(c.args):
                ds = [x for x in ast.walk(fi.node) if isinstance(
                    x, ast.Assign) and len(x.targets) == 1 and isinstance(
                    x.targets[0], ast.Name) and isinstance(a, ast.Name)
                    and x.targets[0].id == a.id]
                cg = guards_at(c, [])
                if not ds:
                    if isinstance(a, ast.Starred):
                        continue
                    rs, side = roles([a], c)
                    out.append(Eff("bind", f"{nm}#{i}", "", (rs[0],),
                                   guards_at(c, side), c))
                    continue
                for d in ds:
                    rs, side = roles([d.value], d)
                    gs = guards_at(d, side)
                    out.append(Eff("bind", f"{nm}#{i}", "", (rs[0],),
                                   gs + [g for g in cg if g not in gs], d))
    if pos:
        for n in ast.walk(fi.node):
            if isinstance(n, ast.AnnAssign) and n.value is not None:
                tgt = n.target
            elif isinstance(n, ast.Assign) and len(n.targets) == 1:
                tgt = n.targets[0]
            else:
                continue
            pairs: list[tuple[str, str, list]] = []
            if isinstance(tgt, ast.Name) and tgt.id in pos:
                rs, side = roles([n.value], n)
                pairs.append((tgt.id, rs[0], side))
            elif isinstance(tgt, ast.Tuple):
                for i, el in enumerate(tgt.elts):
                    if not (isinstance(el, ast.Name) and el.id in pos):
                        continue
                    if isinstance(n.value, ast.Tuple) and len(
                            n.value.elts) == len(tgt.elts):
                        rs, side = roles([n.value.elts[i]], n)
                        pairs.append((el.id, rs[0], side))
                    else:
                        rs, side = roles([n.value], n)
                        pairs.append((el.id, f"{rs[0]}[{i}]", side))
            for var, role, side in pairs:
                for k, rg in pos[var]:
                    gs = guards_at(n, side)
                    out.append(Eff("bind", f"ret[{k}]", "", (role,),
                                   gs + [g for g in rg if g not in gs], n))
    return out


def expect(rep: Report, rule: str, fi: FuncInfo, effs: list[Eff], what: str,
           *, name: str, recv: str = "", args: tuple[str, ...] = (),
           must: Iterable[Guard] = (), may: Iterable[Guard] = (),
           kind: str = "call", alt_args: Iterable[tuple[str, ...]] = (),
           why: str = "", select: Optional[Callable[[Eff], bool]] = None,
           any_guard: bool = False, final_args: bool = False
           ) -> Optional[Eff]:
    """Exactly one effect (kind, name, recv, args) exists; it runs under
    every condition of ``must`` and under no condition outside ``must`` +
    ``may``."""
    accepted = [tuple(args)] + [tuple(a) for a in alt_args]
    hits = [e for e in effs if e.kind == kind and e.name == name
            and e.recv == recv and e.args in accepted]
    if select is not None:
        hits = [e for e in hits if select(e)]
    must, may = list(must), list(may)
    if len(hits) > 1:
        # several effects of that shape: the obligation names the one that
        # runs under exactly these conditions
        exact = [e for e in hits if all(m in e.guards for m in must)
                 and (any_guard or all(g in must or g in may
                                       for g in e.guards))]
        if exact:
            hits = exact
    ok = len(hits) == 1
    r = f"{recv}." if recv else ""
    shown = f"{r}{name}({', '.join(args)})" if kind == "call" else \
        f"{kind} {', '.join(args)}"
    if ok:
        gs = hits[0].guards
        ok = all(m in gs for m in must) and (any_guard or all(
            g in must or g in may for g in gs))
        detail = f"{shown[:300]} runs when {gs or 'always'}; required " \
                 f"{must or 'always'}"
    else:
        same = [e for e in effs if e.kind == kind and e.name == name]
        detail = f"{len(hits)} effect(s) {shown[:300]}; effects of that " \
                 "name in the function: " + (
                     "; ".join(e.show() for e in same)[:500] or "none")
    if not ok and why:
        detail += " -- " + why
    rep.ob(rule, what, ok, fi=fi, node=hits[0].node if hits else fi.node,
           detail=detail)
    # a role describes a local by its definition: an argument that was
    # computed (not an empty accumulator) and is then modified in place is
    # not what the obligation says it is
    if final_args and ok and kind == "call" and len(hits) == 1 and \
            isinstance(hits[0].node, ast.Call):
        ps = set(fi.params())
        for a in hits[0].node.args:
            for nm, st in mutated_locals(fi, a):
                if nm in ps or _starts_empty(fi, nm):
                    continue
                rep.ob(rule, f"{what} - the argument '{nm}' is not modified "
                       "in place after it is computed", False, fi=fi,
                       node=st, detail=f"{unparse(st)[:80]}")
    return hits[0] if len(hits) == 1 else None


def only(rep: Report, rule: str, fi: FuncInfo, effs: list[Eff], what: str,
         pred: Callable[[Eff], bool], n: int) -> None:
    mine = [e for e in effs if pred(e)]
    rep.ob(rule, what, len(mine) == n, fi=fi,
           node=mine[-1].node if mine else fi.node,
           detail=f"{len(mine)} such effect(s), expected {n}: "
                  + "; ".join(e.show() for e in mine)[:500])


def before(ctx: Ctx, fi: FuncInfo, a: ast.AST, b: ast.AST) -> bool:
    """Statement (or enclosing loop header) of ``a`` dominates ``b``'s and
    is not dominated by it: ``a`` happens first on every path."""
    cfg = ctx.cfg(fi)
    from .util import enclosing
    la = enclosing(fi.node, a, (ast.For, ast.While))
    lb = enclosing(fi.node, b, (ast.For, ast.While))
    k = 0
    while k < len(la) and k < len(lb) and la[k] is lb[k]:
        k += 1

    def outer(n: ast.AST, loops: list) -> Optional[int]:
        # the outermost enclosing loop header not shared with the other
        # statement, else the statement itself
        if loops[k:]:
            h = loops[k]
            return cfg.node(h) if cfg.has(h) else None
        return cfg.node(n) if cfg.has(n) else cfg.container(n)
    na, nb = outer(a, la), outer(b, lb)
    if na is None or nb is None or na == nb:
        return False
    return cfg.dominates(na, nb) and not cfg.dominates(nb, na)


def check_table(rep: Report, ctx: Ctx, rule: str, table: dict,
                funcs: Iterable[str],
                abbr: Callable[[str], str] = lambda s: s) -> None:
    """table: function spec -> [(what, kind, name, recv, args, must, may,
    why)]; ``may`` == "*" accepts any further condition."""
    for fn in funcs:
        fi = ctx.func(fn)
        # calls named by an obligation count wherever they occur (also as
        # the value of an assignment), other calls at statement level only
        effs = effects(ctx, fi, names={r[2] for r in table[fn]
                                       if r[1] == "call" and r[2]} | {
                           r[2].split("#")[0] for r in table[fn]
                           if r[1] == "bind" and "#" in r[2]})
        for what, kind, name, recv, args, must, may, why in table[fn]:
            alts: list[tuple[str, ...]] = []
            if args and isinstance(args[0], tuple):   # alternatives
                alts = [tuple(abbr(a) for a in alt) for alt in args[1:]]
                args = args[0]
            expect(rep, rule, fi, effs, f"{fi.name}: {what}",
                   kind=kind, name=name, recv=abbr(recv),
                   alt_args=alts, args=tuple(abbr(a) for a in args),
                   must=must, may=[] if may == "*" else may,
                   any_guard=may == "*", why=why, final_args=True)



_MUTATORS = {"add", "update", "discard", "remove", "clear", "pop", "append",
             "extend", "insert", "difference_update", "intersection_update",
             "symmetric_difference_update", "setdefault", "popitem", "sort",
             "reverse"}


def _starts_empty(fi: FuncInfo, name: str) -> bool:
    for x in ast.walk(fi.node):
        tg = None
        if isinstance(x, ast.Assign) and len(x.targets) == 1:
            tg = x.targets[0]
        elif isinstance(x, ast.AnnAssign):
            tg = x.target
        if isinstance(tg, ast.Name) and tg.id == name:
            v = x.value
            if isinstance(v, (ast.List, ast.Set)) and not v.elts:
                return True
            if isinstance(v, ast.Dict) and not v.keys:
                return True
            if isinstance(v, ast.Call) and not v.args and not v.keywords \
                    and isinstance(v.func, ast.Name) and v.func.id in (
                        "set", "list", "dict"):
                return True
            return False
    return True


def mutated_locals(fi: FuncInfo, expr: ast.AST) -> list[tuple[str, ast.AST]]:
    """Local names read by ``expr`` that the function also mutates in place
    (method call of a mutator, augmented assignment, item store): a role
    expression describes such a name by its definition only, so an
    obligation on a *set / list that is computed once* has to ask for this
    separately."""
    names = {n.id for n in ast.walk(expr) if isinstance(n, ast.Name)
             and isinstance(n.ctx, ast.Load)}
    out: list[tuple[str, ast.AST]] = []
    for st in ast.walk(fi.node):
        if isinstance(st, ast.Call) and isinstance(st.func, ast.Attribute) \
                and isinstance(st.func.value, ast.Name) \
                and st.func.value.id in names and st.func.attr in _MUTATORS:
            out.append((st.func.value.id, st))
        elif isinstance(st, ast.AugAssign) and isinstance(
                st.target, ast.Name) and st.target.id in names and isinstance(
                st.op, (ast.BitOr, ast.BitAnd, ast.Sub, ast.BitXor)):
            out.append((st.target.id, st))
        elif isinstance(st, (ast.Assign, ast.AugAssign)):
            tg = st.targets[0] if isinstance(st, ast.Assign) else st.target
            if isinstance(tg, ast.Subscript) and isinstance(
                    tg.value, ast.Name) and tg.value.id in names:
                out.append((tg.value.id, st))
    return out
