def puml_file_to_test_events(*args, **kwargs):
    raise NotImplementedError("janus is not installed (stub)")
