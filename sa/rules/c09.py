"""C09 -- unique-graph selection keeps one trace per distinct call-tree shape."""
from __future__ import annotations

import ast
from typing import Optional

from .. import sqlabs as S
from ..core import AnalysisError, FuncInfo, Report, call_name, dotted, unparse
from ..ctx import Ctx
from .c11 import _generic, extract_window, sibling_predicate
from .sqlutil import (check_window_predicate, exec_dominates, sql_of,
                      stmt_kind, table_of, time_window_bounds, window_params)
from .util import actual, calls_in, enclosing, forwards, kw

EXPLANATION = (
    "R9.1 taint: inside the shape hash the only span attribute that reaches "
    "the digest is event_type (ids are lookup keys only; no job id/name, "
    "timestamps or application). R9.2 the recursive child hashes pass "
    "through an order-normalising operation before concatenation. R9.3 a "
    "batch fetches every span of the batch's traces (job_id IN ids of the "
    "batch's roots, no limit) and children are grouped by parent_event_id. "
    "R9.4 paging tiles the root table: slice width == increment of the "
    "start row, loop ends only on an empty page. R9.5 one representative "
    "per (job_name, job_hash) group, keyed by job name. R9.6 candidate "
    "roots = roots (parent_event_id IS NULL) of traces with a span starting "
    "or ending inside the window: the extracted predicate is evaluated on "
    "all orderings of start<=end against the bounds; same normal form as "
    "the cleaning predicate. R9.7 hash rows are those of this run only. "
    "R9.8 each hash row carries the root's trace id, workflow name and the "
    "hash of that root. R9.9 the selection reaches the stream filter. "
    "Statements are extracted by abstract interpretation of the builder "
    "code; nothing is executed.")
TRUSTED = ["builder-method semantics table of sa/sqlabs.py"]
NOT_DECIDED = ["hash collisions of xxh64", "SQLite's choice of the bare "
               "job_id column inside a (job_name, job_hash) group"]
ASSUMPTIONS = ["start_timestamp <= end_timestamp for every span"]

SPAN_ATTRS = {"job_name", "job_id", "event_type", "event_id",
              "start_timestamp", "end_timestamp", "application_name",
              "parent_event_id", "id", "children", "parents"}


def check(rep: Report, ctx: Ctx) -> None:
    sql = sql_of(ctx)
    r91_92(rep, ctx)
    r98(rep, ctx)
    r93(rep, ctx, sql)
    r94(rep, ctx, sql)
    r95(rep, ctx, sql)
    r96(rep, ctx, sql)
    r97(rep, ctx, sql)
    r99(rep, ctx)
    r910(rep, ctx)


def r91_92(rep: Report, ctx: Ctx) -> None:
    rep.rule("R9.1", "the digest sees span types and structure only", 2)
    rep.rule("R9.2", "sibling order is normalised before concatenation", 1)
    fi = ctx.func("compute_graph_hash_from_event_ids")
    pm = ctx.index.parents(fi)
    digests = [c for c in ast.walk(fi.node) if isinstance(c, ast.Call)
               and ("digest" in (call_name(c) or "")
                    or (call_name(c) or "").startswith(("xxh", "sha", "md5",
                                                        "hash")))]
    if not digests:
        raise AnalysisError(f"{fi.qualname}: no digest call found")
    flows, lookups = [], []
    for n in ast.walk(fi.node):
        if isinstance(n, ast.Attribute) and n.attr in SPAN_ATTRS \
                and isinstance(n.ctx, ast.Load):
            par = pm.get(n)
            if isinstance(par, ast.Subscript) and par.slice is n:
                lookups.append(n)
            elif isinstance(par, ast.Compare) and par.left is n and all(
                    isinstance(o, (ast.In, ast.NotIn)) for o in par.ops):
                lookups.append(n)
            elif isinstance(par, ast.Call) and isinstance(
                    par.func, ast.Attribute) and par.func.attr in (
                    "get", "pop", "setdefault") and par.args \
                    and par.args[0] is n:
                lookups.append(n)   # mapping.get(key, default): a key
            else:
                flows.append(n)
    bad = [n for n in flows if n.attr != "event_type"]
    rep.ob("R9.1", "only event_type flows into the hashed string", not bad,
           fi=fi, node=bad[0] if bad else digests[0],
           detail=("attributes in value position: "
                   + ", ".join(sorted({unparse(n) for n in flows}))
                   + "; lookup-only: "
                   + ", ".join(sorted({unparse(n) for n in lookups}))
                   + ("" if not bad else
                      f" -- '{unparse(bad[0])}' makes two traces of the same "
                      "shape hash differently")))
    rep.ob("R9.1", "event_type does flow into the hashed string",
           any(n.attr == "event_type" for n in flows), fi=fi, node=digests[0],
           detail="the span type must be part of the shape")
    rec = calls_in(ctx, fi, fi)
    if not rec:
        rep.ob("R9.2", "children are hashed recursively", False, fi=fi,
               node=fi.node, detail="no recursive call: the structure below "
               "the root is ignored")
        return
    for call in rec:
        anc = enclosing(fi.node, call, (ast.Call,))
        norm = [a for a in anc if isinstance(a, ast.Call)
                and dotted(a.func) in ("sorted",)]
        ok = bool(norm)
        if not ok:
            # result list sorted later:  xs = [...]; xs.sort()
            asg = enclosing(fi.node, call, (ast.Assign,))
            if asg and isinstance(asg[-1].targets[0], ast.Name):
                nm = asg[-1].targets[0].id
                ok = any(isinstance(c, ast.Call) and isinstance(
                    c.func, ast.Attribute) and c.func.attr == "sort"
                    and isinstance(c.func.value, ast.Name)
                    and c.func.value.id == nm for c in ast.walk(fi.node)) or \
                    any(isinstance(c, ast.Call) and dotted(c.func) == "sorted"
                        and c.args and isinstance(c.args[0], ast.Name)
                        and c.args[0].id == nm for c in ast.walk(fi.node))
        dedupe = [a for a in anc if isinstance(a, ast.Call)
                  and (dotted(a.func) or "").split(".")[-1] in (
                      "set", "frozenset", "fromkeys", "unique", "Counter")]
        dedupe += [a for a in enclosing(fi.node, call, (ast.SetComp,
                                                          ast.DictComp))]
        if dedupe:
            rep.ob("R9.2", "child hashes keep their multiplicity", False,
                   fi=fi, node=dedupe[0],
                   detail=f"'{unparse(dedupe[0])[:60]}' collapses equal "
                          "child hashes: a parent with two identical "
                          "sub-trees hashes like a parent with one")
        rep.ob("R9.2", "recursive results are sorted before joining", ok,
               fi=fi, node=call,
               detail=("sorted(...) encloses the recursion" if ok else
                       "child hashes are concatenated in storage order: two "
                       "traces that differ only in sibling order get "
                       "different hashes"))
    # the children iterated are those of this node
    a = actual(rec[0], fi, "node_to_children")
    rep.ob("R9.1", "the child map is passed down unchanged",
           isinstance(a, ast.Name) and a.id == "node_to_children", fi=fi,
           node=rec[0], detail=f"node_to_children = {unparse(a)}")


def r93(rep: Report, ctx: Ctx, sql) -> None:
    rep.rule("R9.3", "trees are complete whatever the batch size", 4)
    fetch = ctx.func("get_sql_batch_nodes")
    it = sql.run(fetch)
    reads = [x for x in it.execs if x.kind == "read"]
    if len(reads) != 1:
        raise AnalysisError(f"{fetch.qualname}: expected one read")
    s = reads[0].stmt
    ok = isinstance(s, S.Select) and len(s.where) == 1 and isinstance(
        s.where[0], S.In) and not s.where[0].negated and isinstance(
        s.where[0].col, S.Col) and s.where[0].col.name == "job_id" \
        and isinstance(s.where[0].what, S.Param) \
        and s.where[0].what.text == "job_ids" and not s.joins
    rep.ob("R9.3", "batch fetch filters on job_id IN the batch's ids", ok,
           fi=fetch, node=reads[0].node, detail=s.nf()[:200])
    rep.ob("R9.3", "batch fetch is not truncated",
           isinstance(s, S.Select) and s.window is None and not any(
               e.startswith(("limit", "offset")) for e in s.extras),
           fi=fetch, node=reads[0].node,
           detail="no slice/limit/offset on the span fetch: a truncated "
                  "fetch drops descendants and changes the hash")
    batch = ctx.func("compute_graph_hashes_for_batch")
    c = calls_in(ctx, batch, fetch)
    a = actual(c[0], fetch, "job_ids") if c else None
    a = ctx.reach(batch).resolve(a, at=c[0]) if a is not None else None
    ok = isinstance(a, (ast.SetComp, ast.ListComp, ast.GeneratorExp)) \
        and isinstance(a.elt, ast.Attribute) and a.elt.attr == "job_id" \
        and not a.generators[0].ifs and isinstance(
            a.generators[0].iter, ast.Name) \
        and a.generators[0].iter.id == "root_nodes"
    rep.ob("R9.3", "ids = job_id of every root of the batch", ok, fi=batch,
           node=c[0] if c else batch.node, detail=f"job_ids = {unparse(a)}")
    cmap = ctx.func("create_event_id_to_child_nodes_map")
    apps = [n for n in ast.walk(cmap.node) if isinstance(n, ast.Call)
            and call_name(n) == "append" and isinstance(
                n.func.value, ast.Subscript)]
    defs = ctx.defs(cmap)
    ok = False
    if len(apps) == 1:
        key = defs.resolve(apps[0].func.value.slice)
        arg = apps[0].args[0]
        loops = enclosing(cmap.node, apps[0], (ast.For,))
        ok = isinstance(key, ast.Attribute) and key.attr == "parent_event_id" \
            and isinstance(arg, ast.Name) and loops and isinstance(
                loops[-1].target, ast.Name) \
            and arg.id == loops[-1].target.id \
            and isinstance(key.value, ast.Name) and key.value.id == arg.id
    rep.ob("R9.3", "children are grouped under their parent_event_id", ok,
           fi=cmap, node=apps[0] if apps else cmap.node,
           detail="map[node.parent_event_id].append(node)")
    c2 = calls_in(ctx, batch, cmap)
    a2 = actual(c2[0], cmap, "nodes") if c2 else None
    src = ctx.defs(batch).resolve(a2) if a2 is not None else None
    rep.ob("R9.3", "the child map is built from the fetched batch",
           isinstance(src, ast.Call) and call_name(src) == fetch.name,
           fi=batch, node=c2[0] if c2 else batch.node,
           detail=f"nodes = {unparse(src)[:80] if src is not None else '?'}")


def r94(rep: Report, ctx: Ctx, sql) -> None:
    rep.rule("R9.4", "paging tiles the root table", 4)
    fug = ctx.func("sql_dataholder:find_unique_graphs")
    roots = ctx.func("get_root_nodes")
    it = sql.run(roots, follow=False)
    reads = [x for x in it.execs if x.kind == "read"]
    sl = None
    for x in reads:
        s = x.stmt
        if isinstance(s, S.Select):
            for t, _ in s.joins:
                if isinstance(t, S.Select) and t.window is not None:
                    sl = (x, t)
            if s.window is not None:
                sl = (x, s)
    if sl is None:
        raise AnalysisError(f"{roots.qualname}: no sliced read found")
    x, s = sl
    lo, hi = s.window
    ok = isinstance(lo, S.Param) and lo.text == "start_row" and isinstance(
        hi, S.Param) and hi.text.replace(" ", "") in (
        "start_row+batch_size", "batch_size+start_row")
    rep.ob("R9.4", "page = rows [start_row, start_row + batch_size)", ok,
           fi=roots, node=x.node,
           detail=f"slice({lo.nf()}, {hi.nf()})")
    calls = calls_in(ctx, fug, roots)
    if len(calls) != 1:
        raise AnalysisError(f"{fug.qualname}: expected one get_root_nodes "
                            "call")
    call = calls[0]
    a_start = actual(call, roots, "start_row")
    a_size = actual(call, roots, "batch_size")
    loops = enclosing(fug.node, call, (ast.While, ast.For))
    if not loops:
        rep.ob("R9.4", "roots are fetched in a loop", False, fi=fug,
               node=call, detail="single fetch: only the first page is "
               "hashed")
        return
    loop = loops[-1]
    incs = [n for n in ast.walk(loop) if isinstance(n, ast.AugAssign)
            and isinstance(n.target, ast.Name) and isinstance(
                a_start, ast.Name) and n.target.id == a_start.id]
    ok = len(incs) == 1 and isinstance(incs[0].op, ast.Add) \
        and unparse(incs[0].value) == unparse(a_size) \
        and not enclosing(loop, incs[0], (ast.If,))
    rep.ob("R9.4", "start row advances by exactly the page width", ok,
           fi=fug, node=incs[0] if incs else loop,
           detail=(f"page width '{unparse(a_size)}', increment "
                   f"'{unparse(incs[0]) if incs else '<none>'}'"
                   + ("" if ok else " -- a different stride skips or "
                      "re-hashes root rows")))
    init = [b for b in ctx.defs(fug).of(a_start.id) if b.kind == "assign"] \
        if isinstance(a_start, ast.Name) else []
    rep.ob("R9.4", "paging starts at row 0", len(init) == 1 and isinstance(
        init[0].value, ast.Constant) and init[0].value.value == 0, fi=fug,
        node=init[0].stmt if init else fug.node,
        detail=unparse(init[0].stmt) if init else "<missing>")
    # loop exits only on an empty page
    exits = [n for n in ast.walk(loop) if isinstance(n, (ast.Break,
                                                         ast.Return))]
    res = enclosing(fug.node, call, (ast.Assign,))
    res_name = res[-1].targets[0].id if res and isinstance(
        res[-1].targets[0], ast.Name) else None
    ok = isinstance(loop, ast.While) and isinstance(
        loop.test, ast.Constant) and loop.test.value is True and len(
        exits) == 1
    if ok:
        g = enclosing(loop, exits[0], (ast.If,))
        t = unparse(g[-1].test) if g else ""
        ok = t in (f"not {res_name}", f"len({res_name}) == 0",
                   f"{res_name} == []")
    rep.ob("R9.4", "the loop stops only on an empty page", ok, fi=fug,
           node=exits[0] if exits else loop,
           detail="while True: page = ...; if not page: break")
    hb = ctx.func("compute_graph_hashes_for_batch")
    c = calls_in(ctx, fug, hb)
    ok = len(c) == 1 and bool(enclosing(loop, c[0], ())) is not None and any(
        x is c[0] for x in ast.walk(loop)) and not enclosing(
            loop, c[0], (ast.If,))
    a = actual(c[0], hb, "root_nodes") if c else None
    rep.ob("R9.4", "every page is hashed", ok and isinstance(a, ast.Name)
           and a.id == res_name, fi=fug, node=c[0] if c else loop,
           detail=f"compute_graph_hashes_for_batch({unparse(a)}) "
                  "unconditionally inside the paging loop")


def r95(rep: Report, ctx: Ctx, sql) -> None:
    rep.rule("R9.5", "one representative per (workflow name, hash)", 3)
    fi = ctx.func("get_unique_graph_job_ids_per_job_name")
    it = sql.run(fi)
    sels = [x for x in it.execs if isinstance(x.stmt, S.Select)
            and x.kind == "execute"]
    if len(sels) != 1:
        raise AnalysisError(f"{fi.qualname}: expected one executed select")
    s = sels[0].stmt
    g = sorted(c.nf() for c in s.group_by)
    rep.ob("R9.5", "grouped by exactly (job_name, job_hash)",
           g == ["job_hashes.job_hash", "job_hashes.job_name"], fi=fi,
           node=sels[0].node,
           detail=f"GROUP BY {g}" + ("" if g == ["job_hashes.job_hash",
                                                "job_hashes.job_name"] else
                                    " -- grouping by hash only collapses "
                                    "traces of different workflows; grouping "
                                    "by more keeps duplicates of a shape"))
    cols = [c.nf() for c in s.cols]
    rep.ob("R9.5", "selects (job_name, job_id)",
           cols == ["job_hashes.job_name", "job_hashes.job_id"]
           and not s.where and not s.having, fi=fi, node=sels[0].node,
           detail=f"SELECT {cols} WHERE {[w.nf() for w in s.where]}")
    adds = [n for n in ast.walk(fi.node) if isinstance(n, ast.Call)
            and call_name(n) == "add" and isinstance(
                n.func.value, ast.Subscript)]
    loops = [n for n in ast.walk(fi.node) if isinstance(n, ast.For)]
    ok = False
    if len(adds) == 1 and loops:
        l = enclosing(fi.node, adds[0], (ast.For,))
        if l and isinstance(l[-1].target, ast.Tuple) and len(
                l[-1].target.elts) == 2:
            n0, n1 = (e.id for e in l[-1].target.elts)  # type: ignore
            ok = unparse(adds[0].func.value.slice) == n0 and unparse(
                adds[0].args[0]) == n1 and not enclosing(
                    l[-1], adds[0], (ast.If,))
    rep.ob("R9.5", "result[job_name] collects the job_id of every group",
           ok, fi=fi, node=adds[0] if adds else fi.node,
           detail="for job_name, job_id in rows: result[job_name].add(job_id)")


def r96(rep: Report, ctx: Ctx, sql) -> None:
    rep.rule("R9.6", "candidate roots = roots of traces with a span starting "
             "or ending inside the window", 6)
    lo_idx, hi_idx = time_window_bounds(ctx, rep, "R9.6")
    fi = ctx.func("create_temp_table_of_root_nodes_in_time_window")
    it = sql.run(fi)
    ins = [x for x in it.execs if isinstance(x.stmt, S.Insert)]
    if len(ins) != 1 or not ins[0].stmt.from_select:
        raise AnalysisError(f"{fi.qualname}: expected one INSERT .. FROM "
                            "SELECT")
    x = ins[0]
    names, sel = x.stmt.from_select
    if not isinstance(sel, S.Select):
        raise AnalysisError(f"{fi.qualname}: from_select source outside "
                            "vocabulary")
    rep.ob("R9.6", "the temp table receives root event ids",
           list(names) == ["event_id"] and len(sel.cols) == 1 and isinstance(
               sel.cols[0], S.Col) and sel.cols[0].nf() == "nodes.event_id",
           fi=fi, node=x.node, detail=f"INSERT ({names}) SELECT "
           f"{[c.nf() for c in sel.cols]}")
    roots = [w for w in sel.where if isinstance(w, S.IsNull)
             and isinstance(w.col, S.Col) and w.col.name == "parent_event_id"]
    rep.ob("R9.6", "roots are the spans with parent_event_id IS NULL",
           len(roots) == 1 and not roots[0].negated and len(sel.where) == 1,
           fi=fi, node=x.node,
           detail=f"WHERE {[w.nf() for w in sel.where]}")
    sub, on = None, None
    for t, o in sel.joins:
        if isinstance(t, S.Select):
            sub, on = t, o
    if sub is None:
        rep.ob("R9.6", "roots are restricted to in-window traces", False,
               fi=fi, node=x.node, detail="no join with the in-window trace "
               "set: every root is a candidate")
        return
    names_on = sorted((c.table, c.name) for c in (on.left, on.right)
                      if isinstance(c, S.Col)) if isinstance(on, S.Cmp) else []
    rep.ob("R9.6", "join on the trace id",
           names_on == [("nodes", "job_id"), ("sub", "job_id")]
           and on.op == "==", fi=fi, node=x.node,
           detail=f"JOIN ON {on.nf() if on is not None else '?'}")
    pred, problem = extract_window(fi, sub)
    if pred is None:
        rep.ob("R9.6", "in-window set = traces with some span satisfying P",
               False, fi=fi, node=x.node, detail=problem)
        return
    lo, hi = window_params(ctx, fi, pred, lo_idx, hi_idx)
    bad, n = check_window_predicate(pred, lo, hi)
    rep.ob("R9.6", f"row predicate equals the specification on {n} "
           "orderings", not bad, fi=fi, node=x.node,
           detail=(f"P = {pred.nf()}"
                   + (f"; disagrees on {len(bad)} ordering(s), e.g. {bad[0]}"
                      if bad else f"; agrees on all {n}")))
    rep.analysed["orderings_evaluated"] = n
    # sibling
    clean = ctx.func("SQLDataHolder.remove_jobs_outside_of_time_window")
    cit = sql.run(clean)
    cp = None
    for y in cit.execs:
        if isinstance(y.stmt, S.Delete) and table_of(y.stmt) == "nodes" \
                and y.stmt.where:
            w = y.stmt.where[0]
            if isinstance(w, S.Not) and isinstance(w.item, S.In):
                w = w.item
            if isinstance(w, S.In):
                cp, _ = extract_window(clean, w.what)
    if cp is not None:
        rep.ob("R9.6", "same normal form as the cleaning predicate",
               _generic(cp.nf()) == _generic(pred.nf()), fi=fi, node=x.node,
               detail=f"cleaning: {cp.nf()}")
    # the window handed down
    fug = ctx.func("sql_dataholder:find_unique_graphs")
    gtw = ctx.func("get_time_window")
    forwards(rep, ctx, "R9.6", fug, fi, {
        "time_window": lambda e: isinstance(e, ast.Call)
        and call_name(e) == gtw.name,
        "sql_data_holder": "sql_data_holder"})
    forwards(rep, ctx, "R9.6", fug, gtw, {
        "time_buffer": "time_buffer", "data_holder": "sql_data_holder"})
    meth = ctx.func("SQLDataHolder.find_unique_graphs")
    forwards(rep, ctx, "R9.6", meth, fug, {
        "time_buffer": lambda e: unparse(e) == "self.time_buffer",
        "batch_size": lambda e: unparse(e) == "self.batch_size",
        "sql_data_holder": "self"})


def r97(rep: Report, ctx: Ctx, sql) -> None:
    rep.rule("R9.7", "hash rows are those of this run only", 1)
    fug = ctx.func("sql_dataholder:find_unique_graphs")
    it = sql.run(fug)
    ins = [x for x in it.execs if stmt_kind(x) == "INSERT"
           and table_of(x.stmt) == "job_hashes"]
    dels = [x for x in it.execs if isinstance(x.stmt, S.Delete)
            and table_of(x.stmt) == "job_hashes" and not x.stmt.where]
    final = [x for x in it.execs if isinstance(x.stmt, S.Select)
             and x.kind == "execute" and "job_hashes" in x.stmt.tables()]
    if not ins or not final:
        raise AnalysisError(f"{fug.qualname}: hash insert / final select "
                            "not found")
    for x in ins:
        ok = any(exec_dominates(ctx, d, x)[0] for d in dels)
        rep.ob("R9.7", "stale hash rows are removed before hashing", ok,
               fi=x.func, node=x.node, path=x.chain,
               detail=("DELETE FROM job_hashes dominates the insert" if ok
                       else "rows of an earlier run (possibly of traces that "
                       "no longer exist or lie outside the window) take part "
                       "in the selection, or collide on job_id"))


def r98(rep: Report, ctx: Ctx) -> None:
    rep.rule("R9.8", "a hash row carries its root's trace id, name and "
             "hash, and every row of a page is inserted", 4)
    fi = ctx.func("compute_graph_hashes_from_root_nodes")
    ctor = [c for c in ast.walk(fi.node) if isinstance(c, ast.Call)
            and call_name(c) == "JobHash"]
    if len(ctor) != 1:
        raise AnalysisError(f"{fi.qualname}: expected one JobHash(...)")
    c = ctor[0]
    comp = enclosing(fi.node, c, (ast.ListComp, ast.GeneratorExp, ast.For))
    var = None
    if comp:
        g = comp[-1]
        tgt = g.generators[0].target if hasattr(g, "generators") else g.target
        it_ = g.generators[0].iter if hasattr(g, "generators") else g.iter
        if isinstance(tgt, ast.Name) and isinstance(it_, ast.Name) \
                and it_.id == "root_nodes" and not (
                    hasattr(g, "generators") and g.generators[0].ifs):
            var = tgt.id
    rep.ob("R9.8", "one row per root of the batch", var is not None, fi=fi,
           node=c, detail="[JobHash(..) for node in root_nodes] with no "
           "filter")
    hf = ctx.func("compute_graph_hash_from_event_ids")
    for field, want in (("job_id", "job_id"), ("job_name", "job_name")):
        v = kw(c, field)
        ok = isinstance(v, ast.Attribute) and v.attr == want and isinstance(
            v.value, ast.Name) and v.value.id == var
        rep.ob("R9.8", f"{field} <- root.{want}", ok, fi=fi, node=c,
               detail=f"{field} = {unparse(v)}")
    v = kw(c, "job_hash")
    a0 = actual(v, hf, hf.params()[0]) if isinstance(v, ast.Call) \
        and call_name(v) == hf.name else None
    ok = isinstance(a0, ast.Name) and a0.id == var
    rep.ob("R9.8", "job_hash <- shape hash of that root", ok, fi=fi, node=c,
           detail=f"job_hash = {unparse(v)[:80]}")
    # every row computed for the page is inserted: the selection groups by
    # (job_name, job_hash), so a row left out because "its hash" is already
    # there loses the representative of another workflow (seed C09-z)
    page = ctx.func("compute_graph_hashes_for_batch")
    rep.seen(page)
    ins = [c_ for c_ in ast.walk(page.node) if isinstance(c_, ast.Call)
           and call_name(c_) == "insert_job_hashes"]
    ok, how = False, "insert_job_hashes(...) not found"
    if len(ins) == 1 and ins[0].args:
        a = ins[0].args[0]
        rv = ctx.reach(page).resolve(a, at=ins[0])
        nb = len(ctx.reach(page).at(ins[0], a.id)) if isinstance(
            a, ast.Name) else 1
        from .effspec import mutated_locals
        mut = mutated_locals(page, a) if isinstance(a, ast.Name) else []
        src = isinstance(rv, ast.Call) and call_name(rv) == fi.name and \
            rv.args and isinstance(rv.args[0], ast.Name) and \
            rv.args[0].id == page.params()[0]
        guards = enclosing(page.node, ins[0], (ast.If, ast.For, ast.While,
                                               ast.Try))
        ok = bool(src) and nb == 1 and not mut and not guards
        how = (f"insert_job_hashes({unparse(a)}) <- {unparse(rv)[:70]}; "
               f"{nb} definition(s) reach the insert"
               + ("; modified in place" if mut else "")
               + ("; the insert is conditional" if guards else ""))
    rep.ob("R9.8", "every hash row computed for a page is inserted", ok,
           fi=page, node=ins[0] if ins else page.node, detail=how)


def r99(rep: Report, ctx: Ctx) -> None:
    rep.rule("R9.9", "the selection reaches the stream filter", 1)
    top = ctx.func("otel_to_pv")
    defs = ctx.defs(top)
    calls = [c for c in ast.walk(top.node) if isinstance(c, ast.Call)
             and call_name(c) == "stream_data"]
    if len(calls) != 1:
        raise AnalysisError("otel_to_pv: expected one stream_data call")
    a = calls[0].args[0] if calls[0].args else kw(calls[0],
                                                 "job_name_to_job_ids_map")
    ok = False
    if isinstance(a, ast.Name):
        vals = [b.value for b in defs.of(a.id) if b.value is not None]
        ok = any(isinstance(v, ast.Call) and call_name(v) ==
                 "find_unique_graphs" for v in vals) and all(
            (isinstance(v, ast.Call) and call_name(v) == "find_unique_graphs")
            or (isinstance(v, ast.Constant) and v.value is None)
            for v in vals)
    rep.ob("R9.9", "stream_data receives find_unique_graphs() (or None)", ok,
           fi=top, node=calls[0], detail=f"stream_data({unparse(a)})")


def r910(rep: Report, ctx: Ctx) -> None:
    """(= C11 R11.8)  The candidate window is computed from the bounds that
    ingestion tracked; a cleaning step that moves them shifts the window
    between the trim and the unique-graph search (seed C09-g)."""
    rep.rule("R9.10", "the bounds the candidate window is computed from are "
             "min(start) / max(end) over every ingested span, and only "
             "save_data moves them (= C11 R11.8)", 5)
    from . import c11 as _c11
    from .util import borrow
    borrow(rep, ctx, _c11, "C11", "R11.8", "R9.10")
