"""C14 -- otel2puml equals otel2pv followed by pv2puml through saved files."""
from __future__ import annotations

import ast
from typing import Optional

from ..core import AnalysisError, FuncInfo, Report, call_name, dotted, unparse
from ..ctx import Ctx
from .util import (actual, calls_in, canon_test, cguards, enclosing,
                   forwards, is_param, kw, loopvar_over)

EXPLANATION = (
    "Plumbing of the two routes, decided on the source: R14.1 one learner "
    "call fed by the stream bound on either arm of the dispatcher, with the "
    "same model arguments; R14.2 the key tables are one table (keys the "
    "sequencer emits = PVEvent keys = PVEventMappingConfig fields = "
    "PVEventModel fields; the loader reads field K through "
    "mapping_config.K and the saver renames every key through getattr("
    "mapping_config, key)); R14.3 values survive JSON (str / list[str] "
    "only; the saver dumps the very dicts it received, one file per trace, "
    "numbered from 1, under <out>/<workflow>/); R14.4 an exhausted "
    "generator never reaches the learner (save_events iterates the "
    "generator that otel_to_pv returns, hence save_events with otel2puml "
    "must be rejected and otel2pv must return before the learner); R14.5 "
    "the CLI's mapping config reaches both the saver and the loader, built "
    "from the same file key. Equivalence of the diagrams is not decided."
    " Added: a record is rejected only for a missing key; the loader's validation model passes values through unchanged; R14.6 file listings take user paths literally.")
NOT_DECIDED = ["equivalence of the resulting diagrams (C01-C03)"]
ASSUMPTIONS: list[str] = []


def check(rep: Report, ctx: Ctx) -> None:
    r141(rep, ctx)
    r142(rep, ctx)
    r143(rep, ctx)
    r144(rep, ctx)
    r145(rep, ctx)
    r146(rep, ctx)
    r147(rep, ctx)
    r148(rep, ctx)


def r141(rep: Report, ctx: Ctx) -> None:
    rep.rule("R14.1", "one learner", 5)
    disp = ctx.func("otel_to_puml")
    learner = ctx.func("pv_streams_to_puml_files")
    calls = calls_in(ctx, disp, learner)
    rep.ob("R14.1", "a single learner call", len(calls) == 1, fi=disp,
           node=calls[0] if calls else disp.node,
           detail=f"{len(calls)} call(s) of pv_streams_to_puml_files")
    if len(calls) != 1:
        return
    call = calls[0]
    rep.ob("R14.1", "the learner call is not arm-specific",
           not enclosing(disp.node, call, (ast.If, ast.Match, ast.For,
                                           ast.Try)), fi=disp, node=call,
           detail="top-level statement after the dispatch")
    a = actual(call, learner, "pv_streams")
    defs = ctx.defs(disp)
    reach = ctx.reach(disp)
    wrap = ctx.func("wrap_generator_with_tqdm_start_and_end_messages")
    srcs = []
    if isinstance(a, ast.Name):
        for bnd in reach.at(call, a.id):
            v = reach.resolve(bnd.value, at=bnd.stmt) if bnd.value is not None \
                else None
            inner = v
            if isinstance(v, ast.Call) and call_name(v) == wrap.name:
                w0 = actual(v, wrap, wrap.params()[0])
                inner = reach.resolve(w0, at=bnd.stmt) if w0 is not None else v
            srcs.append(call_name(inner) if isinstance(inner, ast.Call)
                        else unparse(inner))
    ok = sorted(srcs) == ["otel_to_pv", "pv_files_to_pv_streams"]
    rep.ob("R14.1", "both arms bind the stream the learner consumes", ok,
           fi=disp, node=call,
           detail=f"'{unparse(a)}' is bound from {sorted(srcs)}")
    a_map = actual(call, learner, "events_to_jobs_map")
    a_save = actual(call, learner, "save_models")
    a_dir = actual(call, learner, "output_file_directory")
    # the dictionary the -im loop fills (found through the loop, not by name)
    loads = [c for c in ast.walk(disp.node) if isinstance(c, ast.Call)
             and call_name(c) == "load_events_from_file"]
    filled = None
    loaded_ok = False
    if len(loads) == 1:
        loops = enclosing(disp.node, loads[0], (ast.For,))
        asg = enclosing(disp.node, loads[0], (ast.Assign,))
        if loops and asg and isinstance(asg[-1].targets[0], ast.Tuple) \
                and len(asg[-1].targets[0].elts) == 2:
            n0, n1 = (unparse(e) for e in asg[-1].targets[0].elts)
            store = [st for st in ast.walk(loops[-1])
                     if isinstance(st, ast.Assign)
                     and isinstance(st.targets[0], ast.Subscript)
                     and isinstance(st.targets[0].value, ast.Name)
                     and unparse(st.targets[0].slice) == n0
                     and unparse(reach.resolve(st.value, at=st)) == n1]
            it = reach.resolve_deep(loops[-1].iter, at=loops[-1])
            if len(store) == 1:
                filled = store[0].targets[0].value.id
                loaded_ok = "input_puml_models" in unparse(it) and not [
                    g for g in cguards(ctx, disp, store[0])
                    if "global_options" not in " ".join(g)]
    rep.ob("R14.1", "loaded models reach the learner",
           isinstance(a_map, ast.Name) and a_map.id == filled,
           fi=disp, node=call, detail=f"events_to_jobs_map={unparse(a_map)}; "
           f"the -im loop fills '{filled}'")
    sv = reach.resolve_deep(a_save, at=call) if a_save is not None else None
    ok = sv is not None and "output_puml_models" in unparse(sv) \
        and "global_options" in unparse(sv)
    rep.ob("R14.1", "the -om flag reaches the learner", ok, fi=disp,
           node=call, detail=f"save_models={unparse(sv)}")
    rep.ob("R14.1", "the output directory reaches the learner",
           isinstance(a_dir, ast.Name) and a_dir.id ==
           "output_file_directory", fi=disp, node=call,
           detail=f"output_file_directory={unparse(a_dir)}")
    # otel arm: **options and the same output directory
    top = ctx.func("otel_to_pv")
    oc = calls_in(ctx, disp, top)
    ok = len(oc) == 1 and any(k.arg is None and unparse(k.value) ==
                              "otel_to_pv_options" for k in oc[0].keywords) \
        and unparse(kw(oc[0], "output_file_directory")) == \
        "output_file_directory"
    rep.ob("R14.1", "otel arm: otel_to_pv(**options, output dir)", ok,
           fi=disp, node=oc[0] if oc else disp.node,
           detail=unparse(oc[0])[:100] if oc else "<missing>")
    pc = calls_in(ctx, disp, ctx.func("pv_files_to_pv_streams"))
    ok = len(pc) == 1 and any(k.arg is None and unparse(k.value) ==
                              "pv_to_puml_options" for k in pc[0].keywords)
    rep.ob("R14.1", "pv arm: pv_files_to_pv_streams(**options)", ok,
           fi=disp, node=pc[0] if pc else disp.node,
           detail=unparse(pc[0])[:100] if pc else "<missing>")
    # -im: every model path is loaded and keyed by the name in the file
    rep.ob("R14.1", "every -im file is loaded under the name it carries",
           loaded_ok, fi=disp, node=loads[0] if loads else disp.node,
           detail="for path in input_puml_models: name, events = "
                  "load_events_from_file(path); map[name] = events")


def _kwargs(call: ast.Call) -> dict[str, ast.AST]:
    return {k.arg: k.value for k in call.keywords if k.arg}


def r142(rep: Report, ctx: Ctx) -> None:
    rep.rule("R14.2", "save keys and load keys are one table", 12)
    idx = ctx.index
    pv = [n for n, _ in idx.cls("PVEvent").fields()]
    mc = [n for n, _ in idx.cls("PVEventMappingConfig").fields()]
    pm = [n for n, _ in idx.cls("PVEventModel").fields()]
    types = idx.cls("PVEvent").module
    rep.ob("R14.2", "PVEvent keys = PVEventMappingConfig fields",
           set(pv) == set(mc), detail=f"PVEvent {sorted(pv)}; config "
           f"{sorted(mc)} (the saver does getattr(mapping_config, key) for "
           "every key: a key without a field raises AttributeError)")
    rep.obligations[-1].func = "PVEventMappingConfig"
    rep.obligations[-1].file = types.relpath
    rep.ob("R14.2", "PVEvent keys = PVEventModel fields", set(pv) == set(pm),
           detail=f"model {sorted(pm)}")
    rep.obligations[-1].func = "PVEventModel"
    rep.obligations[-1].file = types.relpath
    # defaults of the mapping config are the identity
    ident = True
    for n, st in idx.cls("PVEventMappingConfig").fields():
        v = st.value
        if not (isinstance(v, ast.Constant) and v.value == n):
            ident = False
    rep.ob("R14.2", "the default mapping is the identity", ident,
           detail="each field K defaults to 'K' (default save == default "
                  "load == in-memory keys)")
    rep.obligations[-1].func = "PVEventMappingConfig"
    rep.obligations[-1].file = types.relpath
    # emitter keys
    emit = ctx.func("sequence_otel_event_job")
    ec = [c for c in ast.walk(emit.node) if isinstance(c, ast.Call)
          and call_name(c) == "PVEvent"]
    if len(ec) != 1:
        raise AnalysisError(f"{emit.qualname}: expected one PVEvent(...)")
    rep.ob("R14.2", "the sequencer emits exactly the PVEvent keys",
           set(_kwargs(ec[0])) == set(pv), fi=emit, node=ec[0],
           detail=f"emitted {sorted(_kwargs(ec[0]))}")
    # loader
    ld = ctx.func("transform_dict_into_pv_event")
    mcall = [c for c in ast.walk(ld.node) if isinstance(c, ast.Call)
             and call_name(c) == "PVEventModel"]
    pcall = [c for c in ast.walk(ld.node) if isinstance(c, ast.Call)
             and call_name(c) == "PVEvent"]
    if len(mcall) != 1 or len(pcall) != 1:
        raise AnalysisError(f"{ld.qualname}: loader shape outside vocabulary")
    mk, pk = _kwargs(mcall[0]), _kwargs(pcall[0])
    model_var = None
    asg = enclosing(ld.node, mcall[0], (ast.Assign,))
    if asg and isinstance(asg[-1].targets[0], ast.Name):
        model_var = asg[-1].targets[0].id
    lreach0 = ctx.reach(ld)
    for k in pv:
        v = mk.get(k)
        v = lreach0.resolve_deep(v, at=mcall[0]) if v is not None else None
        ok = False
        if isinstance(v, ast.Subscript):
            ok = unparse(v.value) == "pv_dict" and unparse(v.slice) == \
                f"mapping_config.{k}"
        elif isinstance(v, ast.Call) and call_name(v) == "get":
            ok = unparse(v.func.value) == "pv_dict" and v.args and unparse(
                v.args[0]) == f"mapping_config.{k}"
        rep.ob("R14.2", f"loader reads {k} through mapping_config.{k}", ok,
               fi=ld, node=mcall[0], detail=f"{k} = {unparse(v)}")
    crossed = {k: unparse(v) for k, v in pk.items()
               if unparse(v) != f"{model_var}.{k}"}
    rep.ob("R14.2", "the loaded event copies each validated field",
           set(pk) == set(pv) and not crossed, fi=ld, node=pcall[0],
           detail=f"crossed: {crossed}" if crossed else "K = model.K")
    # mandatory set
    sets = [s for s in ast.walk(ld.node) if isinstance(s, ast.SetComp)]
    ok = False
    if sets:
        s = sets[0]
        g = s.generators[0]
        tg = g.target
        ok = "mapping_config.model_dump().items()" in unparse(g.iter) \
            and len(g.ifs) == 1 and isinstance(tg, ast.Tuple) and len(
                tg.elts) == 2 and tuple(
                x.replace('"', "'") for x in canon_test(g.ifs[0])) == (
                "cmp", "'previousEventIds'", "NotEq", unparse(tg.elts[0])) \
            and unparse(s.elt) == unparse(tg.elts[1])
    defaulted = [n for n, st in idx.cls("PVEventModel").fields()
                 if st.value is not None]
    rep.ob("R14.2", "mandatory = every field except the one the model "
           "defaults", ok and defaulted == ["previousEventIds"], fi=ld,
           node=sets[0] if sets else ld.node,
           detail=f"model defaults {defaulted}")
    # the loader rejects a record only for a *missing key*: the saver writes
    # every value unchanged (R14.3), the empty string included, so a
    # rejection that depends on a value makes the file route fail where the
    # in-memory route succeeds
    lcfg, lreach = ctx.cfg(ld), ctx.reach(ld)
    pvp = ld.params()[0]
    raises = [n for n in ast.walk(ld.node) if isinstance(n, ast.Raise)]
    for r in raises:
        bad = []
        for test, _sense in lcfg.controlling(lcfg.node(r)):
            t = lreach.resolve_deep(test, at=test)
            parents = {c: p for p in ast.walk(t)
                       for c in ast.iter_child_nodes(p)}
            for n in ast.walk(t):
                if isinstance(n, ast.Name) and n.id == pvp:
                    par = parents.get(n)
                    if isinstance(par, ast.Attribute) and par.attr == "keys":
                        continue
                    if isinstance(par, ast.Compare) and n in par.comparators \
                            and isinstance(par.ops[0], (ast.In, ast.NotIn)):
                        continue
                    if isinstance(par, ast.Call) and dotted(par.func) in (
                            "set", "frozenset", "list", "sorted", "len"):
                        continue
                    if isinstance(par, ast.comprehension) and par.iter is n:
                        continue
                    bad.append(unparse(par if par is not None else n))
        rep.ob("R14.2", "a record is rejected only for a missing key", not bad,
               fi=ld, node=r,
               detail=("rejection depends on " + ", ".join(sorted(set(bad)))
                       + " -- a value the saver legitimately wrote (e.g. an "
                       "empty application name) makes pv2puml fail on files "
                       "otel2pv produced") if bad else
               "the raise is controlled by key-presence tests only")
    # saver renames every key
    sv = ctx.func("save_pv_event_stream_to_file")
    dcs = [d for d in ast.walk(sv.node) if isinstance(d, ast.DictComp)]
    ok = False
    if len(dcs) == 1:
        d = dcs[0]
        g = d.generators[0]
        ok = unparse(d.key) == f"getattr(mapping_config, "\
            f"{unparse(g.target.elts[0])})" and unparse(d.value) == unparse(
            g.target.elts[1]) and unparse(g.iter).endswith(".items()") \
            and not g.ifs
    rep.ob("R14.2", "the saver renames every key, keeps every value", ok,
           fi=sv, node=dcs[0] if dcs else sv.node,
           detail=unparse(dcs[0])[:100] if dcs else "<missing>")


def r143(rep: Report, ctx: Ctx) -> None:
    rep.rule("R14.3", "values survive JSON; one file per trace", 5)
    idx = ctx.index
    bad = {}
    for n, st in idx.cls("PVEvent").fields():
        t = unparse(st.annotation).replace("NotRequired[", "").rstrip("]") \
            if "NotRequired" in unparse(st.annotation) else unparse(
                st.annotation)
        if t not in ("str", "list[str] | str", "list[str]", "str | list[str]"):
            bad[n] = t
    rep.ob("R14.3", "PVEvent values are str / list[str]", not bad,
           detail=f"non-JSON-stable field types: {bad}" if bad else
           "all fields are str or list[str]")
    rep.obligations[-1].func = "PVEvent"
    rep.obligations[-1].file = idx.cls("PVEvent").module.relpath
    # the validation model of the loader hands every value on unchanged
    TRANSFORMING = {"str_strip_whitespace", "str_to_lower", "str_to_upper",
                    "str_max_length", "coerce_numbers_to_str",
                    "anystr_strip_whitespace", "anystr_lower", "anystr_upper",
                    "max_anystr_length", "min_anystr_length",
                    "str_min_length", "use_enum_values"}
    pm = idx.cls("PVEventModel")
    list_fields = {n for n, st in pm.fields()
                   if unparse(st.annotation).lower().startswith("list")}
    probs: list[tuple[ast.AST, str]] = []
    for st in pm.node.body:
        cfg_call = None
        if isinstance(st, (ast.Assign, ast.AnnAssign)):
            tgt = st.targets[0] if isinstance(st, ast.Assign) else st.target
            if isinstance(tgt, ast.Name) and tgt.id == "model_config" \
                    and st.value is not None:
                cfg_call = st.value
        if cfg_call is not None:
            keys = [k.arg for k in cfg_call.keywords] if isinstance(
                cfg_call, ast.Call) else [
                k.value for k in getattr(cfg_call, "keys", [])
                if isinstance(k, ast.Constant)]
            for k in keys:
                if k in TRANSFORMING:
                    probs.append((st, f"model_config {k}: loaded strings "
                                      "are rewritten"))
        if isinstance(st, ast.ClassDef) and st.name == "Config":
            for x in st.body:
                if isinstance(x, ast.Assign) and isinstance(
                        x.targets[0], ast.Name) and x.targets[0].id in \
                        TRANSFORMING:
                    probs.append((x, f"Config.{x.targets[0].id}: loaded "
                                     "strings are rewritten"))
        if isinstance(st, ast.FunctionDef) and any(
                (dotted(d.func) if isinstance(d, ast.Call) else dotted(d))
                in ("field_validator", "validator") for d in
                st.decorator_list):
            deco = [d for d in st.decorator_list if isinstance(d, ast.Call)]
            flds = {a.value for d in deco for a in d.args
                    if isinstance(a, ast.Constant)}
            vparam = st.args.args[1].arg if len(st.args.args) > 1 else None
            for r in ast.walk(st):
                if isinstance(r, ast.Return) and r.value is not None:
                    v = r.value
                    same = isinstance(v, ast.Name) and v.id == vparam
                    wrap = isinstance(v, ast.List) and len(v.elts) == 1 \
                        and isinstance(v.elts[0], ast.Name) \
                        and v.elts[0].id == vparam and flds <= list_fields
                    if not (same or wrap):
                        probs.append((r, f"validator {st.name} returns "
                                         f"'{unparse(v)[:40]}' instead of "
                                         "the value it was given"))
    rep.ob("R14.3", "the loader's validation model passes values through "
           "unchanged", not probs, detail="; ".join(p[1] for p in probs) + (
               " -- the in-memory route keeps the values verbatim, the file "
               "route does not: event types / ids that differ only by what "
               "is rewritten are merged" if probs else
               "no transforming model_config option, validators return "
               "their argument (or [value] for the list field)"))
    rep.obligations[-1].func = pm.qualname
    rep.obligations[-1].file = pm.module.relpath
    rep.obligations[-1].line = (probs[0][0].lineno if probs
                                else pm.node.lineno)
    sv = ctx.func("save_pv_event_stream_to_file")
    dumps = [c for c in ast.walk(sv.node) if isinstance(c, ast.Call)
             and call_name(c) == "dump"]
    defs = ctx.defs(sv)
    ok = False
    if len(dumps) == 1 and isinstance(dumps[0].args[0], ast.Name):
        vals = [b.value for b in defs.of(dumps[0].args[0].id)
                if b.value is not None]
        ok = len(vals) == 2 and any(
            isinstance(v, ast.Call) and call_name(v) == "list" and unparse(
                v.args[0]) == "pv_event_stream" for v in vals) and any(
            isinstance(v, ast.ListComp) and unparse(
                v.generators[0].iter) == "pv_event_stream"
            and not v.generators[0].ifs for v in vals)
    rep.ob("R14.3", "the dumped list is the whole received stream", ok,
           fi=sv, node=dumps[0] if dumps else sv.node,
           detail="json.dump(list(stream) | [renamed(e) for e in stream])")
    # writer and reader agree on the text encoding: with the default
    # ensure_ascii=True json.dump writes pure ASCII (readable under any
    # encoding); otherwise both sides must name the same encoding
    dmp = dumps[0] if dumps else None
    ea = kw(dmp, "ensure_ascii") if dmp is not None else None
    ascii_only = ea is None or (isinstance(ea, ast.Constant)
                                and ea.value is True)
    w_open = [c for c in ast.walk(sv.node) if isinstance(c, ast.Call)
              and dotted(c.func) == "open"]
    w_enc = unparse(kw(w_open[0], "encoding")) if w_open and kw(
        w_open[0], "encoding") is not None else None
    rd_fns = [ctx.func("pv_job_file_to_event_sequence"),
              ctx.func("pv_event_file_to_event")]
    r_encs = set()
    for rf in rd_fns:
        for c in ast.walk(rf.node):
            if isinstance(c, ast.Call) and dotted(c.func) == "open":
                e_ = kw(c, "encoding")
                r_encs.add(unparse(e_) if e_ is not None else None)
    ok = ascii_only or (w_enc is not None and r_encs == {w_enc})
    rep.ob("R14.3", "saved files are readable by the loader whatever the "
           "locale", ok, fi=sv, node=dmp if dmp is not None else sv.node,
           detail=(f"json.dump(ensure_ascii={unparse(ea) if ea is not None else 'True (default)'}), "
                   f"writer encoding {w_enc or 'platform default'}, reader "
                   f"encoding(s) {sorted(str(x) for x in r_encs)}"
                   + ("" if ok else " -- non-ASCII field values are written "
                      "in the platform's default encoding (or fail to "
                      "encode) while the loader decodes UTF-8")))
    paths = [j for j in ast.walk(sv.node) if isinstance(j, ast.JoinedStr)]
    opens = [c for c in ast.walk(sv.node) if isinstance(c, ast.Call)
             and dotted(c.func) == "open"]
    ok = False
    if opens:
        p = defs.resolve(opens[0].args[0])
        names = {n.id for n in ast.walk(p) if isinstance(n, ast.Name)}
        ok = names == {"output_file_directory", "job_name", "count"} \
            and ".json" in unparse(p)
    rep.ob("R14.3", "file name = f(output dir, workflow, ordinal)", ok,
           fi=sv, node=opens[0] if opens else sv.node,
           detail=unparse(defs.resolve(opens[0].args[0]))[:100] if opens
           else "<missing>")
    hs = ctx.func("handle_save_events")
    calls = calls_in(ctx, hs, sv)
    ok = False
    if len(calls) == 1:
        loops = enclosing(hs.node, calls[0], (ast.For,))
        cnt = actual(calls[0], sv, "count")
        hd = ctx.defs(hs)
        if loops and isinstance(cnt, ast.Name) and isinstance(
                loops[-1].iter, ast.Call) and call_name(loops[-1].iter) == \
                "enumerate" and isinstance(loops[-1].target, ast.Tuple):
            # for n, stream in enumerate(streams, start=1)
            it = loops[-1].iter
            start = kw(it, "start") or (it.args[1] if len(it.args) > 1
                                        else None)
            names = [unparse(e) for e in loops[-1].target.elts]
            ok = unparse(start) == "1" and names[0] == cnt.id and unparse(
                actual(calls[0], sv, "pv_event_stream")) == names[1] and \
                unparse(it.args[0]) == "pv_event_streams" and not enclosing(
                    loops[-1], calls[0], (ast.If,))
        elif loops and isinstance(cnt, ast.Name):
            init = [b for b in hd.of(cnt.id) if b.kind == "assign"]
            inc = [b for b in hd.of(cnt.id) if b.kind == "aug"]
            ok = len(init) == 1 and unparse(init[0].value) == "1" \
                and len(inc) == 1 and unparse(inc[0].value) == "1" \
                and any(x is inc[0].stmt for x in loops[-1].body) \
                and unparse(actual(calls[0], sv, "pv_event_stream")) == \
                unparse(loops[-1].target) \
                and not enclosing(loops[-1], calls[0], (ast.If,))
    rep.ob("R14.3", "one file per trace, numbered from 1", ok, fi=hs,
           node=calls[0] if calls else hs.node,
           detail="file_no = 1; for stream in streams: save(..., file_no); "
                  "file_no += 1")
    mk = [c for c in ast.walk(hs.node) if isinstance(c, ast.Call)
          and call_name(c) == "makedirs"]
    ok = len(mk) == 1 and "{output_file_directory}/{job_name}" in unparse(
        ctx.reach(hs).resolve(mk[0].args[0], at=mk[0])) and unparse(
        kw(mk[0], "exist_ok")) == "True"
    rep.ob("R14.3", "the workflow folder is created (idempotently)", ok,
           fi=hs, node=mk[0] if mk else hs.node,
           detail=unparse(mk[0])[:90] if mk else "<missing>")


def r144(rep: Report, ctx: Ctx) -> None:
    rep.rule("R14.4", "a consumed generator is not handed to the learner", 2)
    top = ctx.func("otel_to_pv")
    rets = [r for r in ast.walk(top.node) if isinstance(r, ast.Return)
            and r.value is not None]
    if len(rets) != 1 or not isinstance(rets[0].value, ast.Name):
        raise AnalysisError(f"{top.qualname}: return shape outside "
                            "vocabulary")
    g = rets[0].value.id
    defs = ctx.defs(top)
    lazy = any(isinstance(b.value, ast.GeneratorExp) for b in defs.of(g))
    loops = [l for l in ast.walk(top.node) if isinstance(l, ast.For)
             and isinstance(l.iter, ast.Name) and l.iter.id == g]
    if not (lazy and loops):
        rep.ob("R14.4", "obligation not armed", True, fi=top, node=rets[0],
               detail="otel_to_pv no longer returns a generator it has "
                      "iterated itself")
        rep.ob("R14.4", "(not armed)", True, fi=top, node=rets[0],
               detail="-")
        return
    guards = enclosing(top.node, loops[0], (ast.If,))
    flag = unparse(guards[-1].test) if guards else "<unconditional>"
    saves = any(isinstance(c, ast.Call) and call_name(c) ==
                "handle_save_events" for c in ast.walk(loops[0]))
    rep.ob("R14.4", "the generator is exhausted only to save events",
           flag == "save_events" and saves, fi=top, node=loops[0],
           detail=f"'{g}' is iterated to exhaustion under '{flag}' and then "
                  "returned: the caller receives an empty stream")
    # (a) validator rejects otel2puml + save_events
    args = ctx.index.cls("OtelToPVArgs")
    rejected = None
    for ms in args.methods.values():
        for m in ms:
            if not any("model_validator" in d for d in m.decorators):
                continue
            for i in ast.walk(m.node):
                if isinstance(i, ast.Raise):
                    conds = set()
                    for test, sense in ctx.cfg(m).controlling(
                            ctx.cfg(m).node(i)):
                        if not sense:
                            test = ast.UnaryOp(op=ast.Not(), operand=test)
                        parts = test.values if isinstance(
                            test, ast.BoolOp) and isinstance(
                            test.op, ast.And) else [test]
                        for part in parts:
                            conds.add(tuple(x.replace('"', "'")
                                            for x in canon_test(part)))
                    if conds == {("cmp", "'otel2puml'", "Eq", "self.command"),
                                 ("truth", "self.save_events", "1")}:
                        rejected = (m, i)
    rep.ob("R14.4", "otel2puml with save_events is rejected",
           rejected is not None, fi=rejected[0] if rejected else None,
           node=rejected[1] if rejected else None,
           detail="validator raises for command == 'otel2puml' and "
                  "save_events" if rejected else
           "nothing rejects otel2puml + save_events: the learner would "
           "receive an exhausted generator and write no diagram")
    if rejected is None:
        rep.obligations[-1].func = args.qualname
        rep.obligations[-1].file = args.module.relpath
    # the CLI builds OtelToPVArgs from the arguments
    gen = ctx.func("generate_component_options")
    mk = [c for c in ast.walk(gen.node) if isinstance(c, ast.Call)
          and call_name(c) == "OtelToPVArgs"]
    opt = [c for c in ast.walk(gen.node) if isinstance(c, ast.Call)
           and call_name(c) == "OtelPVOptions"]
    ok = len(mk) == 1 and len(opt) == 1 and unparse(
        kw(opt[0], "save_events")).endswith(".save_events")
    rep.ob("R14.4", "the CLI validates before building the options", ok,
           fi=gen, node=mk[0] if mk else gen.node,
           detail="OtelToPVArgs(**args) -> OtelPVOptions(save_events="
                  "validated.save_events)")
    # (b) otel2pv returns before the learner
    disp = ctx.func("otel_to_puml")
    learner = ctx.func("pv_streams_to_puml_files")
    cfg = ctx.cfg(disp)
    lc = calls_in(ctx, disp, learner)
    early = [r for r in ast.walk(disp.node) if isinstance(r, ast.Return)
             and ("cmp", "'otel2pv'", "Eq", "components") in [
                 tuple(x.replace('"', "'") for x in g)
                 for g in cguards(ctx, disp, r)]]
    rep.ob("R14.4", "otel2pv returns before the learner",
           bool(early) and bool(lc), fi=disp,
           node=early[0] if early else disp.node,
           detail="if components == 'otel2pv': return")


def r145(rep: Report, ctx: Ctx) -> None:
    rep.rule("R14.5", "the mapping config reaches saver and loader", 8)
    f = ctx.func
    d_top = ctx.defs(f("otel_to_pv"))
    d_seq = ctx.defs(f("pv_job_file_to_event_sequence"))
    d_str = ctx.defs(f("pv_job_files_to_event_sequence_streams"))
    anyit = (lambda it: True)
    forwards(rep, ctx, "R14.5", f("otel_to_pv"), f("handle_save_events"), {
        "job_name": lambda e: loopvar_over(d_top, e, anyit, index=0),
        "pv_event_streams": lambda e: loopvar_over(d_top, e, anyit, index=1),
        "output_file_directory": "output_file_directory",
        "mapping_config": "mapping_config"})
    forwards(rep, ctx, "R14.5", f("handle_save_events"),
             f("save_pv_event_stream_to_file"), {
        "job_name": "job_name",
        "output_file_directory": "output_file_directory",
        "mapping_config": "mapping_config"})
    forwards(rep, ctx, "R14.5", f("pv_files_to_pv_streams"),
             f("pv_job_files_to_event_sequence_streams"), {
        "file_paths": "file_list", "mapping_config": "mapping_config"})
    forwards(rep, ctx, "R14.5", f("pv_files_to_pv_streams"),
             f("pv_event_files_to_job_id_streams"), {
        "file_list": "file_list", "mapping_config": "mapping_config"})
    forwards(rep, ctx, "R14.5", f("pv_job_files_to_event_sequence_streams"),
             f("pv_job_file_to_event_sequence"), {
        "file_path": lambda e: loopvar_over(d_str, e, is_param("file_paths")),
        "mapping_config": "mapping_config"})
    forwards(rep, ctx, "R14.5", f("pv_job_file_to_event_sequence"),
             f("transform_dict_into_pv_event"), {
        "pv_dict": lambda e: loopvar_over(d_seq, e, anyit),
        "mapping_config": "mapping_config"})
    forwards(rep, ctx, "R14.5", f("pv_event_files_to_job_id_streams"),
             f("pv_events_from_files_to_event_stream"), {
        "file_paths": "file_list", "mapping_config": "mapping_config"})
    gen = f("generate_component_options")
    mk = [c for c in ast.walk(gen.node) if isinstance(c, ast.Call)
          and call_name(c) == "PVEventMappingConfig"]
    ok = len(mk) == 2 and all(
        "mapping_config_file" in unparse(c) for c in mk)
    stores = [s for s in ast.walk(gen.node) if isinstance(s, ast.Assign)
              and isinstance(s.targets[0], ast.Subscript)
              and unparse(s.targets[0].slice).strip("'\"") ==
              "mapping_config"]
    rep.ob("R14.5", "both commands build the mapping from -mc and store it "
           "under 'mapping_config'", ok and len(stores) == 2, fi=gen,
           node=mk[0] if mk else gen.node,
           detail=f"{len(mk)} construction(s), {len(stores)} store(s)")


def r146(rep: Report, ctx: Ctx) -> None:
    """The saved files of a workflow are found whatever characters its name
    contains: a user-supplied path is never interpreted as a pattern."""
    rep.rule("R14.6", "file listings take user paths literally (no unescaped "
             "glob / fnmatch pattern built from a path argument)", 1)
    GLOBS = {"glob", "iglob", "rglob", "fnmatch", "fnmatchcase", "filter",
             "translate"}
    hits = []
    n_listings = 0
    for fi in ctx.index.all_functions():
        defs = ctx.defs(fi)
        for c in ast.walk(fi.node):
            if not isinstance(c, ast.Call):
                continue
            d = dotted(c.func) or ""
            last = d.split(".")[-1]
            if last in ("walk", "listdir", "scandir") and d.startswith("os"):
                n_listings += 1
            is_glob = (d.split(".")[0] in ("glob", "fnmatch") and last in
                       GLOBS) or last in ("glob", "iglob", "rglob")
            if not is_glob or not c.args:
                continue
            n_listings += 1
            pat = defs.resolve_deep(c.args[0])
            tainted = []
            parents = {ch: p for p in ast.walk(pat)
                       for ch in ast.iter_child_nodes(p)}
            for n in ast.walk(pat):
                if isinstance(n, ast.Name) and defs.is_param(n.id):
                    cur, escaped = n, False
                    while cur in parents:
                        cur = parents[cur]
                        if isinstance(cur, ast.Call) and (dotted(cur.func)
                                                          or "").endswith(
                                "escape"):
                            escaped = True
                    if not escaped:
                        tainted.append(n.id)
            if tainted:
                hits.append((fi, c, tainted))
    rep.ob("R14.6", "no listing interprets a path argument as a pattern",
           not hits, fi=hits[0][0] if hits else ctx.func("find_files"),
           node=hits[0][1] if hits else ctx.func("find_files").node,
           detail=("; ".join(f"{f.short}: '{unparse(c)[:60]}' builds its "
                             f"pattern from {t} without glob.escape"
                             for f, c, t in hits)
                   + " -- a workflow name containing *, ? or [..] (otel2pv "
                   "uses it as the folder name) matches other workflows' "
                   "folders or nothing at all") if hits else
           f"{n_listings} directory listing(s), none pattern-based on a "
           "path argument")


def r147(rep: Report, ctx: Ctx) -> None:
    """The file route must hand the learner the events the files hold: a
    loader that post-processes what the record transformation returned
    (drops links to events listed later, reorders, de-duplicates) makes
    pv2puml see another job than otel2puml saw in memory."""
    from .effspec import effects, expect
    rep.rule("R14.7", "a loaded event is the transformed record itself: the "
             "loaders add, drop and rewrite nothing", 5)
    MUT = {"update", "pop", "setdefault", "clear", "popitem", "remove",
           "sort", "reverse", "insert", "extend", "append"}

    def untouched(fi, effs, T: str) -> None:
        bad = [e for e in effs
               if (e.kind == "store" and e.recv.startswith(T + "["))
               or (e.kind == "call" and e.name in MUT and (
                   e.recv == T or e.recv.startswith(T + "[")))]
        rep.ob("R14.7", f"{fi.name}: no field of a transformed record is "
               "rewritten", not bad, fi=fi,
               node=bad[0].node if bad else fi.node,
               detail="; ".join(e.show() for e in bad)[:300] or
               "no store into / mutator call on the transformed record")
    seq = ctx.func("pv_job_file_to_event_sequence")
    effs = effects(ctx, seq)
    src = "json.load(with(open(P:file_path,'r',encoding='utf-8')))"
    T = f"transform_dict_into_pv_event(each({src}),P:mapping_config)"
    ls = ("truth", f"isinstance({src},list)", "1")
    dc = ("truth", f"isinstance(each({src}),dict)", "1")
    expect(rep, "R14.7", seq, effs, "every record of a job file is loaded, "
           "in file order, as transformed", name="append", recv="[]",
           args=(T,), may=[ls, dc])
    untouched(seq, effs, T)
    expect(rep, "R14.7", seq, effs, "the sequence returned is the one the "
           "records were appended to", kind="ret", name="", args=("[]",),
           may=[ls])
    one = ctx.func("pv_event_file_to_event")
    effs = effects(ctx, one)
    T1 = f"transform_dict_into_pv_event({src},P:mapping_config)"
    expect(rep, "R14.7", one, effs, "a single-event file is loaded as "
           "transformed", kind="ret", name="", args=(T1,),
           may=[("truth", f"isinstance({src},dict)", "1")])
    untouched(one, effs, T1)


def r148(rep: Report, ctx: Ctx) -> None:
    """The two-step route hands the PV event sequences over through files:
    a job whose file could not be written is a job the second step never
    learns from, while the one-step route has it in memory.  A failed save
    must therefore abort otel2pv - no handler that completes normally
    encloses the saving of a job's events (seed C14-x: `except OSError:
    continue with the next job name`)."""
    from .util import swallowing_handlers
    rep.rule("R14.8", "a job file that cannot be written aborts the export "
             "(no swallowing handler around the save)", 1)
    entry = ctx.func("otel_to_pv")
    saver = ctx.func("handle_save_events")
    bad, n_try = swallowing_handlers(ctx, entry, {saver.qualname})
    rep.ob("R14.8", "no handler that completes normally encloses a call "
           "reaching handle_save_events", not bad,
           fi=bad[0][0] if bad else entry,
           node=bad[0][1] if bad else entry.node,
           detail=(f"handler '{unparse(bad[0][1])[:70]}' in "
                   f"{bad[0][0].short} lets the export go on after a failed "
                   "save: the saved folder silently lacks jobs" if bad else
                   f"{n_try} try statement(s) in the closure of otel_to_pv, "
                   "none around the save"))
