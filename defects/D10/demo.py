"""D10 (observed, NOT decided by any static rule, NOT repaired) - property C07
(and C01 through it): a break event that lies behind another break event of
the same loop occurs twice in the nesting.

    A S N1 N2 E S N1 N2 E X     loop (S N1 N2 E)*, normal exit to X
    A S N1 K1 K2                early exit from N1 through K1, then K2
    A S N1 N2 K2                early exit from N2 straight into K2

K1 and K2 are both classified as break events; K1 stays a leaf of the body
and its successor K2 is re-attached behind the loop node, while K2 - a break
event itself - also stays a leaf of the body.  The emitted diagram therefore
demands K2 twice for the third job (`... N2; K2; break` and after the loop
`X | K2`), i.e. it does not accept a job it was learned from.

Found as a side observation by the sub-agent that seeded change C07-u;
reproduced here on the unchanged tree.  Run:
  cd /repo && PYTHONHASHSEED=0 PYTHONPATH=/repo:/verif/tools/janus_stub /venv/bin/python /verif/defects/D10/demo.py
Exit code 1 = the defect is present (current tree), 0 = nesting is fine.
attempted_fix.diff (treat such a break event like a break connected to the
loop's exit: dummy break) repairs the nesting but makes the renderer raise
NotImplementedError("Break event has an operator ancestor that is not
START_XOR") - not a small, safe repair; left to the maintainers.
"""
import sys
from collections import Counter
from copy import deepcopy

import networkx as nx

from tel2puml.pv_to_puml.data_ingestion import (
    update_and_create_events_from_clustered_pvevents,
)
from tel2puml.events import create_graph_from_events
from tel2puml.loop_detection.detect_loops import detect_loops
from tel2puml.loop_detection.loop_types import LoopEvent



TRACES = [
    ["A", "S", "N1", "N2", "E", "S", "N1", "N2", "E", "X"],
    ["A", "S", "N1", "K1", "K2"],
    ["A", "S", "N1", "N2", "K2"],
]


def make_pv_stream(traces):
    stream = []
    for job_no, trace in enumerate(traces):
        job = []
        previous = None
        for idx, event_type in enumerate(trace):
            event_id = f"job{job_no}-ev{idx}"
            pv_event = {
                "jobId": f"job{job_no}",
                "jobName": "demo",
                "eventId": event_id,
                "eventType": event_type,
                "timestamp": f"2024-01-01T00:00:{idx:02d}Z",
                "applicationName": "demo_app",
            }
            if previous is not None:
                pv_event["previousEventIds"] = [previous]
            previous = event_id
            job.append(pv_event)
        stream.append(job)
    return stream


def walk(graph, path, occurrences, problems):
    roots = [node for node, deg in graph.in_degree() if deg == 0]
    if len(roots) != 1:
        problems.append(
            f"{path}: expected a single entry, found {sorted(map(str, roots))}"
        )
    if not nx.is_directed_acyclic_graph(graph):
        problems.append(f"{path}: graph still contains a cycle")
    for node in graph.nodes:
        if isinstance(node, LoopEvent):
            walk(
                node.sub_graph, f"{path}/{node.event_type}",
                occurrences, problems
            )
        else:
            occurrences.append((node.event_type, path))


def main() -> int:
    observed = {event_type for trace in TRACES for event_type in trace}
    events = update_and_create_events_from_clustered_pvevents(
        make_pv_stream(TRACES), add_dummy_start=True
    )
    graph = create_graph_from_events(deepcopy(events).values())
    nested_graph = detect_loops(graph)

    occurrences: list[tuple[str, str]] = []
    problems: list[str] = []
    walk(nested_graph, "TOP", occurrences, problems)
    counts = Counter(event_type for event_type, _ in occurrences)
    for event_type in sorted(observed):
        if counts[event_type] != 1:
            places = [p for e, p in occurrences if e == event_type]
            problems.append(
                f"event type {event_type!r} occurs {counts[event_type]} "
                f"times in the nesting (expected exactly once): {places}"
            )
    if problems:
        print("C07 VIOLATED:")
        for problem in problems:
            print("  -", problem)
        return 1
    print("C07 holds: nesting is acyclic, single entry, every event once")
    return 0


if __name__ == "__main__":
    sys.exit(main())
