"""E3 -- intraprocedural def-use helpers (flow-insensitive unless stated).

``Defs`` records, for a function, every binding of every local name with the
expression bound (or a marker for parameters / loop targets).  On top of it:

* ``origins(expr)``  -- the set of *source* expressions ``expr`` may derive its
  value from, following local names through all their bindings (transitively);
* ``derives(expr, pred)`` -- some origin satisfies ``pred``;
* ``resolve(expr)``  -- copy propagation: a name with exactly one binding is
  replaced by the bound expression (so hoisting a test into a variable or
  naming an intermediate result does not change what a rule sees).
"""
from __future__ import annotations

import ast
from dataclasses import dataclass
from typing import Callable, Iterator, Optional

from .core import walk_no_nested


@dataclass
class Binding:
    name: str
    kind: str                    # param | assign | aug | for | with | comp | except | import
    value: Optional[ast.AST]     # bound expression (iter for 'for'/'comp')
    stmt: ast.AST                # statement (or comprehension) that binds
    target: Optional[ast.AST] = None


def _targets(t: ast.AST) -> Iterator[ast.Name]:
    if isinstance(t, ast.Name):
        yield t
    elif isinstance(t, (ast.Tuple, ast.List)):
        for e in t.elts:
            yield from _targets(e)
    elif isinstance(t, ast.Starred):
        yield from _targets(t.value)


class Defs:
    def __init__(self, func: ast.FunctionDef) -> None:
        self.func = func
        self.bindings: dict[str, list[Binding]] = {}
        a = func.args
        for p in a.posonlyargs + a.args + a.kwonlyargs:
            self._add(Binding(p.arg, "param", None, func))
        if a.vararg:
            self._add(Binding(a.vararg.arg, "param", None, func))
        if a.kwarg:
            self._add(Binding(a.kwarg.arg, "param", None, func))
        for n in ast.walk(func):
            if isinstance(n, ast.Assign):
                for t in n.targets:
                    if isinstance(t, (ast.Tuple, ast.List)) and isinstance(
                            n.value, (ast.Tuple, ast.List)) and len(
                            t.elts) == len(n.value.elts) and all(
                            isinstance(e, ast.Name) for e in t.elts):
                        # a, b = x, y  ==  a = x; b = y
                        for e, v in zip(t.elts, n.value.elts):
                            self._add(Binding(e.id, "assign", v, n, e))
                        continue
                    for nm in _targets(t):
                        self._add(Binding(nm.id, "assign", n.value, n, t))
            elif isinstance(n, ast.AnnAssign) and isinstance(n.target, ast.Name):
                if n.value is not None:
                    self._add(Binding(n.target.id, "assign", n.value, n,
                                      n.target))
            elif isinstance(n, ast.AugAssign) and isinstance(n.target, ast.Name):
                self._add(Binding(n.target.id, "aug", n.value, n, n.target))
            elif isinstance(n, (ast.For, ast.AsyncFor)):
                for nm in _targets(n.target):
                    self._add(Binding(nm.id, "for", n.iter, n, n.target))
            elif isinstance(n, ast.comprehension):
                for nm in _targets(n.target):
                    self._add(Binding(nm.id, "comp", n.iter, n, n.target))
            elif isinstance(n, (ast.With, ast.AsyncWith)):
                for it in n.items:
                    if it.optional_vars is not None:
                        for nm in _targets(it.optional_vars):
                            self._add(Binding(nm.id, "with", it.context_expr,
                                              n, it.optional_vars))
            elif isinstance(n, ast.ExceptHandler) and n.name:
                self._add(Binding(n.name, "except", n.type, n))
            elif isinstance(n, ast.NamedExpr):
                self._add(Binding(n.target.id, "assign", n.value, n, n.target))
            elif isinstance(n, ast.Lambda):
                for p in n.args.args:
                    self._add(Binding(p.arg, "lambda", None, n))

    def _add(self, b: Binding) -> None:
        self.bindings.setdefault(b.name, []).append(b)

    def of(self, name: str) -> list[Binding]:
        return self.bindings.get(name, [])

    def is_param(self, name: str) -> bool:
        return any(b.kind == "param" for b in self.of(name))

    def only_param(self, name: str) -> bool:
        bs = self.of(name)
        return bool(bs) and all(b.kind == "param" for b in bs)

    # -- copy propagation ---------------------------------------------------
    @staticmethod
    def _substitutable(b: "Binding") -> bool:
        """A single plain assignment of a computed value; never a literal
        container / constant (those are initial states of objects that are
        mutated later, not definitions)."""
        return b.kind == "assign" and isinstance(b.target, ast.Name) \
            and b.value is not None and not isinstance(
                b.value, (ast.Dict, ast.List, ast.Set, ast.Constant,
                          ast.Tuple))

    def resolve(self, expr: ast.AST, depth: int = 6) -> ast.AST:
        """Replace a Name that has exactly one plain-assignment binding by the
        bound expression (outermost only; repeated up to ``depth``)."""
        cur = expr
        for _ in range(depth):
            if isinstance(cur, ast.Name):
                bs = self.of(cur.id)
                if len(bs) == 1 and self._substitutable(bs[0]):
                    cur = bs[0].value
                    continue
            break
        return cur

    def resolve_deep(self, expr: ast.AST, depth: int = 4) -> ast.AST:
        """Substitute single-binding names everywhere inside ``expr``."""
        defs = self

        class Sub(ast.NodeTransformer):
            def __init__(self, d: int) -> None:
                self.d = d

            def visit_Name(self, node: ast.Name) -> ast.AST:
                if not isinstance(node.ctx, ast.Load) or self.d <= 0:
                    return node
                bs = defs.of(node.id)
                if len(bs) == 1 and defs._substitutable(bs[0]):
                    import copy
                    return Sub(self.d - 1).visit(copy.deepcopy(bs[0].value))
                return node

        import copy
        return Sub(depth).visit(copy.deepcopy(expr))

    # -- origins ------------------------------------------------------------
    def origins(self, expr: ast.AST, *, through_calls: bool = True
                ) -> list[ast.AST]:
        """Leaf expressions ``expr`` may take its value from: attribute
        chains, calls (kept as a whole *and* descended into when
        ``through_calls``), constants, parameters (as Name nodes)."""
        out: list[ast.AST] = []
        seen: set[int] = set()
        seen_names: set[str] = set()

        def visit(e: ast.AST) -> None:
            if id(e) in seen:
                return
            seen.add(id(e))
            if isinstance(e, ast.Name):
                bs = self.of(e.id)
                if not bs or e.id in seen_names:
                    if not bs:
                        out.append(e)
                    return
                seen_names.add(e.id)
                for b in bs:
                    if b.kind in ("param", "lambda"):
                        out.append(e)
                    elif b.value is not None:
                        if b.kind in ("for", "comp"):
                            out.append(ast.Subscript(
                                value=b.value, slice=ast.Constant("*iter*"),
                                ctx=ast.Load()))
                        visit(b.value)
                return
            if isinstance(e, ast.Attribute):
                out.append(e)
                visit(e.value)
                return
            if isinstance(e, ast.Call):
                out.append(e)
                if through_calls:
                    if isinstance(e.func, ast.Attribute):
                        visit(e.func.value)
                    for a in e.args:
                        visit(a)
                    for k in e.keywords:
                        visit(k.value)
                return
            if isinstance(e, ast.Constant):
                out.append(e)
                return
            if isinstance(e, (ast.ListComp, ast.SetComp, ast.GeneratorExp)):
                visit(e.elt)
                for g in e.generators:
                    visit(g.iter)
                    for c in g.ifs:
                        visit(c)
                return
            if isinstance(e, ast.DictComp):
                visit(e.key)
                visit(e.value)
                for g in e.generators:
                    visit(g.iter)
                return
            for c in ast.iter_child_nodes(e):
                if isinstance(c, (ast.expr,)):
                    visit(c)

        visit(expr)
        return out

    def derives(self, expr: ast.AST, pred: Callable[[ast.AST], bool]) -> bool:
        return any(pred(o) for o in self.origins(expr))

    def attr_origins(self, expr: ast.AST) -> set[str]:
        """Attribute names read anywhere in the derivation of ``expr``."""
        return {o.attr for o in self.origins(expr)
                if isinstance(o, ast.Attribute)}


def loads_of(func: ast.AST, name: str) -> list[ast.Name]:
    return [n for n in ast.walk(func)
            if isinstance(n, ast.Name) and n.id == name
            and isinstance(n.ctx, ast.Load)]


def stores_of(func: ast.AST, name: str) -> list[ast.Name]:
    return [n for n in ast.walk(func)
            if isinstance(n, ast.Name) and n.id == name
            and isinstance(n.ctx, (ast.Store, ast.Del))]


def find_calls(tree: ast.AST, name: str) -> list[ast.Call]:
    """Calls whose callee's last component is ``name``."""
    out = []
    for n in ast.walk(tree):
        if isinstance(n, ast.Call):
            f = n.func
            if (isinstance(f, ast.Name) and f.id == name) or \
                    (isinstance(f, ast.Attribute) and f.attr == name):
                out.append(n)
    return out


def arg_of(call: ast.Call, pos: int, kw: str | None = None
           ) -> Optional[ast.AST]:
    if kw is not None:
        for k in call.keywords:
            if k.arg == kw:
                return k.value
    if pos is not None and 0 <= pos < len(call.args):
        a = call.args[pos]
        if not isinstance(a, ast.Starred):
            return a
    return None


def bound_arg(call: ast.Call, callee: ast.FunctionDef, param: str,
              *, method: bool = False) -> Optional[ast.AST]:
    """The actual expression bound to parameter ``param`` of ``callee`` at
    ``call`` (None: not passed -> default applies)."""
    a = callee.args
    names = [x.arg for x in a.posonlyargs + a.args]
    if method and names and names[0] in ("self", "cls"):
        names = names[1:]
    for k in call.keywords:
        if k.arg == param:
            return k.value
    if param in names:
        i = names.index(param)
        if i < len(call.args) and not any(
                isinstance(x, ast.Starred) for x in call.args[: i + 1]):
            return call.args[i]
    return None


def default_of(callee: ast.FunctionDef, param: str) -> Optional[ast.AST]:
    a = callee.args
    pos = a.posonlyargs + a.args
    names = [x.arg for x in pos]
    if param in names:
        i = names.index(param) - (len(pos) - len(a.defaults))
        return a.defaults[i] if i >= 0 else None
    for x, d in zip(a.kwonlyargs, a.kw_defaults):
        if x.arg == param:
            return d
    return None
