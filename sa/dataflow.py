"""E3 -- intraprocedural def-use helpers (flow-insensitive unless stated).

``Defs`` records, for a function, every binding of every local name with the
expression bound (or a marker for parameters / loop targets).  On top of it:

* ``origins(expr)``  -- the set of *source* expressions ``expr`` may derive its
  value from, following local names through all their bindings (transitively);
* ``derives(expr, pred)`` -- some origin satisfies ``pred``;
* ``resolve(expr)``  -- copy propagation: a name with exactly one binding is
  replaced by the bound expression (so hoisting a test into a variable or
  naming an intermediate result does not change what a rule sees).
"""
from __future__ import annotations

import ast
from dataclasses import dataclass
from typing import Callable, Iterator, Optional

from .core import walk_no_nested


@dataclass
class Binding:
    name: str
    kind: str                    # param | assign | aug | for | with | comp | except | import
    value: Optional[ast.AST]     # bound expression (iter for 'for'/'comp')
    stmt: ast.AST                # statement (or comprehension) that binds
    target: Optional[ast.AST] = None


def _targets(t: ast.AST) -> Iterator[ast.Name]:
    if isinstance(t, ast.Name):
        yield t
    elif isinstance(t, (ast.Tuple, ast.List)):
        for e in t.elts:
            yield from _targets(e)
    elif isinstance(t, ast.Starred):
        yield from _targets(t.value)


class Defs:
    def __init__(self, func: ast.FunctionDef) -> None:
        self.func = func
        self.bindings: dict[str, list[Binding]] = {}
        a = func.args
        for p in a.posonlyargs + a.args + a.kwonlyargs:
            self._add(Binding(p.arg, "param", None, func))
        if a.vararg:
            self._add(Binding(a.vararg.arg, "param", None, func))
        if a.kwarg:
            self._add(Binding(a.kwarg.arg, "param", None, func))
        for n in ast.walk(func):
            if isinstance(n, ast.Assign):
                for t in n.targets:
                    if isinstance(t, (ast.Tuple, ast.List)) and isinstance(
                            n.value, (ast.Tuple, ast.List)) and len(
                            t.elts) == len(n.value.elts) and all(
                            isinstance(e, ast.Name) for e in t.elts):
                        # a, b = x, y  ==  a = x; b = y
                        for e, v in zip(t.elts, n.value.elts):
                            self._add(Binding(e.id, "assign", v, n, e))
                        continue
                    for nm in _targets(t):
                        self._add(Binding(nm.id, "assign", n.value, n, t))
            elif isinstance(n, ast.AnnAssign) and isinstance(n.target, ast.Name):
                if n.value is not None:
                    self._add(Binding(n.target.id, "assign", n.value, n,
                                      n.target))
            elif isinstance(n, ast.AugAssign) and isinstance(n.target, ast.Name):
                self._add(Binding(n.target.id, "aug", n.value, n, n.target))
            elif isinstance(n, (ast.For, ast.AsyncFor)):
                for nm in _targets(n.target):
                    self._add(Binding(nm.id, "for", n.iter, n, n.target))
            elif isinstance(n, ast.comprehension):
                for nm in _targets(n.target):
                    self._add(Binding(nm.id, "comp", n.iter, n, n.target))
            elif isinstance(n, (ast.With, ast.AsyncWith)):
                for it in n.items:
                    if it.optional_vars is not None:
                        for nm in _targets(it.optional_vars):
                            self._add(Binding(nm.id, "with", it.context_expr,
                                              n, it.optional_vars))
            elif isinstance(n, ast.ExceptHandler) and n.name:
                self._add(Binding(n.name, "except", n.type, n))
            elif isinstance(n, ast.NamedExpr):
                self._add(Binding(n.target.id, "assign", n.value, n, n.target))
            elif isinstance(n, ast.Lambda):
                for p in n.args.args:
                    self._add(Binding(p.arg, "lambda", None, n))

    def _add(self, b: Binding) -> None:
        self.bindings.setdefault(b.name, []).append(b)

    def of(self, name: str) -> list[Binding]:
        return self.bindings.get(name, [])

    def is_param(self, name: str) -> bool:
        return any(b.kind == "param" for b in self.of(name))

    def only_param(self, name: str) -> bool:
        bs = self.of(name)
        return bool(bs) and all(b.kind == "param" for b in bs)

    # -- copy propagation ---------------------------------------------------
    @staticmethod
    def _substitutable(b: "Binding") -> bool:
        """A single plain assignment of a computed value; never a literal
        container / constant (those are initial states of objects that are
        mutated later, not definitions)."""
        return b.kind == "assign" and isinstance(b.target, ast.Name) \
            and b.value is not None and not isinstance(
                b.value, (ast.Dict, ast.List, ast.Set, ast.Constant,
                          ast.Tuple))

    def resolve(self, expr: ast.AST, depth: int = 6) -> ast.AST:
        """Replace a Name that has exactly one plain-assignment binding by the
        bound expression (outermost only; repeated up to ``depth``)."""
        cur = expr
        for _ in range(depth):
            if isinstance(cur, ast.Name):
                bs = self.of(cur.id)
                if len(bs) == 1 and self._substitutable(bs[0]):
                    cur = bs[0].value
                    continue
            break
        return cur

    def resolve_deep(self, expr: ast.AST, depth: int = 4) -> ast.AST:
        """Substitute single-binding names everywhere inside ``expr``."""
        defs = self

        class Sub(ast.NodeTransformer):
            def __init__(self, d: int) -> None:
                self.d = d

            def visit_Name(self, node: ast.Name) -> ast.AST:
                if not isinstance(node.ctx, ast.Load) or self.d <= 0:
                    return node
                bs = defs.of(node.id)
                if len(bs) == 1 and defs._substitutable(bs[0]):
                    import copy
                    return Sub(self.d - 1).visit(copy.deepcopy(bs[0].value))
                return node

        import copy
        return Sub(depth).visit(copy.deepcopy(expr))

    # -- origins ------------------------------------------------------------
    def origins(self, expr: ast.AST, *, through_calls: bool = True
                ) -> list[ast.AST]:
        """Leaf expressions ``expr`` may take its value from: attribute
        chains, calls (kept as a whole *and* descended into when
        ``through_calls``), constants, parameters (as Name nodes)."""
        out: list[ast.AST] = []
        seen: set[int] = set()
        seen_names: set[str] = set()

        def visit(e: ast.AST) -> None:
            if id(e) in seen:
                return
            seen.add(id(e))
            if isinstance(e, ast.Name):
                bs = self.of(e.id)
                if not bs or e.id in seen_names:
                    if not bs:
                        out.append(e)
                    return
                seen_names.add(e.id)
                for b in bs:
                    if b.kind in ("param", "lambda"):
                        out.append(e)
                    elif b.value is not None:
                        if b.kind in ("for", "comp"):
                            out.append(ast.Subscript(
                                value=b.value, slice=ast.Constant("*iter*"),
                                ctx=ast.Load()))
                        visit(b.value)
                return
            if isinstance(e, ast.Attribute):
                out.append(e)
                visit(e.value)
                return
            if isinstance(e, ast.Call):
                out.append(e)
                if through_calls:
                    if isinstance(e.func, ast.Attribute):
                        visit(e.func.value)
                    for a in e.args:
                        visit(a)
                    for k in e.keywords:
                        visit(k.value)
                return
            if isinstance(e, ast.Constant):
                out.append(e)
                return
            if isinstance(e, (ast.ListComp, ast.SetComp, ast.GeneratorExp)):
                visit(e.elt)
                for g in e.generators:
                    visit(g.iter)
                    for c in g.ifs:
                        visit(c)
                return
            if isinstance(e, ast.DictComp):
                visit(e.key)
                visit(e.value)
                for g in e.generators:
                    visit(g.iter)
                return
            for c in ast.iter_child_nodes(e):
                if isinstance(c, (ast.expr,)):
                    visit(c)

        visit(expr)
        return out

    def derives(self, expr: ast.AST, pred: Callable[[ast.AST], bool]) -> bool:
        return any(pred(o) for o in self.origins(expr))

    def attr_origins(self, expr: ast.AST) -> set[str]:
        """Attribute names read anywhere in the derivation of ``expr``."""
        return {o.attr for o in self.origins(expr)
                if isinstance(o, ast.Attribute)}


def loads_of(func: ast.AST, name: str) -> list[ast.Name]:
    return [n for n in ast.walk(func)
            if isinstance(n, ast.Name) and n.id == name
            and isinstance(n.ctx, ast.Load)]


def stores_of(func: ast.AST, name: str) -> list[ast.Name]:
    return [n for n in ast.walk(func)
            if isinstance(n, ast.Name) and n.id == name
            and isinstance(n.ctx, (ast.Store, ast.Del))]


def find_calls(tree: ast.AST, name: str) -> list[ast.Call]:
    """Calls whose callee's last component is ``name``."""
    out = []
    for n in ast.walk(tree):
        if isinstance(n, ast.Call):
            f = n.func
            if (isinstance(f, ast.Name) and f.id == name) or \
                    (isinstance(f, ast.Attribute) and f.attr == name):
                out.append(n)
    return out


def arg_of(call: ast.Call, pos: int, kw: str | None = None
           ) -> Optional[ast.AST]:
    if kw is not None:
        for k in call.keywords:
            if k.arg == kw:
                return k.value
    if pos is not None and 0 <= pos < len(call.args):
        a = call.args[pos]
        if not isinstance(a, ast.Starred):
            return a
    return None


def bound_arg(call: ast.Call, callee: ast.FunctionDef, param: str,
              *, method: bool = False) -> Optional[ast.AST]:
    """The actual expression bound to parameter ``param`` of ``callee`` at
    ``call`` (None: not passed -> default applies)."""
    a = callee.args
    names = [x.arg for x in a.posonlyargs + a.args]
    if method and names and names[0] in ("self", "cls"):
        names = names[1:]
    for k in call.keywords:
        if k.arg == param:
            return k.value
    if param in names:
        i = names.index(param)
        if i < len(call.args) and not any(
                isinstance(x, ast.Starred) for x in call.args[: i + 1]):
            return call.args[i]
    return None


def default_of(callee: ast.FunctionDef, param: str) -> Optional[ast.AST]:
    a = callee.args
    pos = a.posonlyargs + a.args
    names = [x.arg for x in pos]
    if param in names:
        i = names.index(param) - (len(pos) - len(a.defaults))
        return a.defaults[i] if i >= 0 else None
    for x, d in zip(a.kwonlyargs, a.kw_defaults):
        if x.arg == param:
            return d
    return None


# --------------------------------------------------------------------------
# flow-sensitive reaching definitions (over the statement CFG of E2)
# --------------------------------------------------------------------------
class Reaching:
    """Reaching definitions of local names at every statement of a function.

    ``at(node, name)`` -- the bindings of ``name`` that may reach the
    statement containing the AST node ``node``; ``resolve(expr)`` -- copy
    propagation that is robust against re-binding of one name along the
    function (``x = f(a); x = g(x)``) and against hoisting a sub-expression
    into a temporary: a Name whose *only* reaching binding at that point is a
    plain assignment of a computed value is replaced by the bound expression
    (evaluated, in turn, at the binding's own statement)."""

    def __init__(self, func: ast.FunctionDef, cfg: "object", defs: Defs
                 ) -> None:
        self.func = func
        self.cfg = cfg
        self.defs = defs
        gen: dict[int, list[Binding]] = {}
        for bs in defs.bindings.values():
            for b in bs:
                if b.kind in ("param", "comp", "lambda"):
                    continue
                if cfg.has(b.stmt):                    # type: ignore[attr-defined]
                    gen.setdefault(cfg.node(b.stmt), []).append(b)  # type: ignore[attr-defined]
                else:
                    # a binding inside an expression (walrus) or in a nested
                    # statement header: attribute it to the owning statement
                    nid = cfg.container(b.stmt)        # type: ignore[attr-defined]
                    if nid is not None:
                        gen.setdefault(nid, []).append(b)
        self._gen = gen
        params = [b for bs in defs.bindings.values() for b in bs
                  if b.kind == "param"]
        n = len(cfg.nodes)                             # type: ignore[attr-defined]
        self.IN: list[set[int]] = [set() for _ in range(n)]
        self.OUT: list[set[int]] = [set() for _ in range(n)]
        self._b: dict[int, Binding] = {}
        for b in params:
            self._b[id(b)] = b
        for bl in gen.values():
            for b in bl:
                self._b[id(b)] = b
        entry_out = {id(b) for b in params}
        changed = True
        order = list(range(n))
        while changed:
            changed = False
            for x in order:
                if x == 0:
                    out = set(entry_out)
                    inn: set[int] = set()
                else:
                    inn = set()
                    for p in cfg.pred[x]:              # type: ignore[attr-defined]
                        inn |= self.OUT[p]
                    g = gen.get(x, [])
                    if g:
                        killed = {b.name for b in g}
                        out = {i for i in inn
                               if self._b[i].name not in killed}
                        out |= {id(b) for b in g}
                    else:
                        out = inn
                if inn != self.IN[x] or out != self.OUT[x]:
                    self.IN[x], self.OUT[x] = inn, out
                    changed = True

    def _node_of(self, node: ast.AST) -> Optional[int]:
        cfg = self.cfg
        if cfg.has(node):                              # type: ignore[attr-defined]
            return cfg.node(node)                      # type: ignore[attr-defined]
        return cfg.container(node)                     # type: ignore[attr-defined]

    def at(self, node: ast.AST, name: str) -> list[Binding]:
        nid = self._node_of(node)
        if nid is None:
            return list(self.defs.of(name))
        return [self._b[i] for i in self.IN[nid] if self._b[i].name == name]

    def _pure_temp(self, b: Binding) -> bool:
        """A literal container bound once to a name that is only ever read as
        a whole (never a method receiver, never subscripted for a store):
        a temporary, not the initial state of a mutated object."""
        if not (b.kind == "assign" and isinstance(b.target, ast.Name)
                and isinstance(b.value, (ast.List, ast.Tuple, ast.Dict,
                                         ast.Set, ast.Constant))):
            return False
        if len(self.defs.of(b.name)) != 1:
            return False
        for n in ast.walk(self.func):
            if isinstance(n, ast.Attribute) and isinstance(n.value, ast.Name) \
                    and n.value.id == b.name:
                return False
            if isinstance(n, ast.Subscript) and isinstance(n.value, ast.Name) \
                    and n.value.id == b.name and not isinstance(n.ctx,
                                                                ast.Load):
                return False
        return True

    def _subst(self, b: Binding) -> bool:
        return Defs._substitutable(b) or self._pure_temp(b)

    def resolve(self, expr: ast.AST, depth: int = 8,
                at: Optional[ast.AST] = None) -> ast.AST:
        """Outermost copy propagation, flow-sensitively.  ``at``: the AST
        node (inside the function) that locates the evaluation point; default
        ``expr`` itself."""
        cur, loc = expr, (at if at is not None else expr)
        for _ in range(depth):
            if isinstance(cur, ast.Name):
                bs = self.at(loc, cur.id)
                if len(bs) == 1 and self._subst(bs[0]):
                    cur, loc = bs[0].value, bs[0].stmt
                    continue
            break
        return cur

    def resolve_deep(self, expr: ast.AST, depth: int = 5,
                     at: Optional[ast.AST] = None) -> ast.AST:
        import copy
        me = self

        def sub(e: ast.AST, loc: ast.AST, d: int) -> ast.AST:
            if isinstance(e, ast.Name) and isinstance(e.ctx, ast.Load) and d > 0:
                bs = me.at(loc, e.id)
                if len(bs) == 1 and me._subst(bs[0]):
                    return sub(bs[0].value, bs[0].stmt, d - 1)
                return e
            if isinstance(e, (ast.Lambda, ast.ListComp, ast.SetComp,
                              ast.GeneratorExp, ast.DictComp)):
                bound = {a.arg for a in e.args.args} if isinstance(
                    e, ast.Lambda) else {
                    n.id for g in e.generators for n in ast.walk(g.target)
                    if isinstance(n, ast.Name)}
            else:
                bound = set()
            new = copy.copy(e)
            for fld, val in ast.iter_fields(e):
                if isinstance(val, ast.AST):
                    if isinstance(val, ast.Name) and val.id in bound:
                        continue
                    setattr(new, fld, sub_guard(val, loc, d, bound))
                elif isinstance(val, list):
                    setattr(new, fld, [
                        sub_guard(v, loc, d, bound)
                        if isinstance(v, ast.AST) else v for v in val])
            return new

        def sub_guard(e: ast.AST, loc: ast.AST, d: int, bound: set[str]
                      ) -> ast.AST:
            if not bound:
                return sub(e, loc, d)
            # do not substitute names bound by the enclosing lambda /
            # comprehension
            class _Shield(ast.NodeTransformer):
                pass
            if isinstance(e, ast.Name) and e.id in bound:
                return e
            if isinstance(e, ast.Name):
                return sub(e, loc, d)
            new = copy.copy(e)
            for fld, val in ast.iter_fields(e):
                if isinstance(val, ast.AST):
                    setattr(new, fld, sub_guard(val, loc, d, bound))
                elif isinstance(val, list):
                    setattr(new, fld, [
                        sub_guard(v, loc, d, bound)
                        if isinstance(v, ast.AST) else v for v in val])
            return new

        return sub(expr, at if at is not None else expr, depth)
