"""D9: `break` outside any `repeat`.

A while-style loop (B C)* that is left from B and from C, to D directly or
through an extra event X:  jobs ABCBCXD, ABXD, ABCXD, ABCBXD, ABD, ABCD,
ABCBCD.  D and X are both break events that are also exits of the end event
C, so `filter_and_replace_breaks_connected_to_end_events` puts a dummy break
in front of D for every predecessor of D "with a path back to the loop" -
including X, which is reachable from the loop but not part of it.  The dummy
break between X and D stays in the PARENT graph and is written as `break`
after `:X;`, outside the repeat, followed by `:D;`.

Run:  cd /repo && PYTHONPATH=/repo:/verif/tools/janus_stub /venv/bin/python /verif/defects/D9/demo.py
exit 0: every `break` is inside a repeat and ends its branch;  exit 1 otherwise.
"""
import sys
from tel2puml.pv_to_puml.pv_to_puml import pv_to_puml_string


def job(jid, seq):
    evs, prev = [], None
    for i, t in enumerate(seq):
        eid = f"{jid}-{i}"
        evs.append(dict(jobId=jid, jobName="J", eventId=eid, eventType=t,
                        timestamp=f"2024-01-01T00:00:{i:02d}.000000Z",
                        applicationName="app",
                        previousEventIds=[prev] if prev else []))
        prev = eid
    return evs


JOBS = ["ABCBCXD", "ABXD", "ABCXD", "ABCBXD", "ABD", "ABCD", "ABCBCD"]
puml = pv_to_puml_string([job(f"j{k}", list(s)) for k, s in enumerate(JOBS)])
lines = [ln.strip() for ln in puml.splitlines()]
depth, problems = 0, []
for i, ln in enumerate(lines):
    if ln == "repeat":
        depth += 1
    elif ln.startswith("repeat while"):
        depth -= 1
    elif ln == "break":
        if depth == 0:
            problems.append(f"line {i + 1}: 'break' outside any repeat")
        nxt = lines[i + 1] if i + 1 < len(lines) else ""
        if not (nxt.startswith(("case", "endswitch", "fork again", "end fork",
                                "split again", "end split", "repeat while",
                                "endif", "else", "end group"))):
            problems.append(f"line {i + 1}: 'break' is followed by '{nxt}' "
                            "in the same branch")
if problems:
    print(puml)
    print("\n".join(problems))
    sys.exit(1)
print("ok: every break is inside a repeat and ends its branch")
