"""E0 -- index of the repository under analysis, anchors, obligations, reports.

Nothing from the analysed tree is imported or executed: every module is read
as text and parsed with ``ast``.  All rules talk to the tree through
:class:`Index`.
"""
from __future__ import annotations

import ast
import hashlib
import json
import os
import sys
import time
from dataclasses import dataclass, field
from pathlib import Path
from typing import Any, Callable, Iterable, Iterator, Optional

VERIF_DIR = Path(__file__).resolve().parent.parent
DEFAULT_ROOT = Path(os.environ.get("VERIF_REPO_ROOT", "/repo"))
PACKAGE = "tel2puml"


class AnalysisError(Exception):
    """The analysis itself could not be carried out (vanished anchor,
    construct outside an interpreter's vocabulary, instance count below the
    hand-confirmed minimum).  Never a silent pass: exit code 2."""


# --------------------------------------------------------------------------
# small ast helpers
# --------------------------------------------------------------------------

def unparse(node: ast.AST | None) -> str:
    if node is None:
        return ""
    try:
        return ast.unparse(node)
    except Exception:  # pragma: no cover
        return ast.dump(node)


def norm_stmt(node: ast.AST | None, limit: int = 160) -> str:
    """Normalised one-line statement text: the key findings are triaged by
    (never line numbers)."""
    if node is None:
        return ""
    if isinstance(node, (ast.If, ast.While)):
        text = f"{type(node).__name__.lower()} {unparse(node.test)}"
    elif isinstance(node, (ast.For, ast.AsyncFor)):
        text = f"for {unparse(node.target)} in {unparse(node.iter)}"
    elif isinstance(node, (ast.With, ast.AsyncWith)):
        text = "with " + ", ".join(unparse(i) for i in node.items)
    elif isinstance(node, ast.Try):
        text = "try"
    elif isinstance(node, (ast.FunctionDef, ast.AsyncFunctionDef)):
        text = f"def {node.name}"
    elif isinstance(node, ast.ClassDef):
        text = f"class {node.name}"
    else:
        text = unparse(node)
    text = " ".join(text.split())
    return text if len(text) <= limit else text[: limit - 3] + "..."


def dotted(node: ast.AST) -> Optional[str]:
    """``a.b.c`` -> "a.b.c" for Name/Attribute chains, else None."""
    parts: list[str] = []
    while isinstance(node, ast.Attribute):
        parts.append(node.attr)
        node = node.value
    if isinstance(node, ast.Name):
        parts.append(node.id)
        return ".".join(reversed(parts))
    return None


def call_name(node: ast.AST) -> Optional[str]:
    """Last component of the callee of a Call (``x.y.f(...)`` -> "f")."""
    if not isinstance(node, ast.Call):
        return None
    f = node.func
    if isinstance(f, ast.Attribute):
        return f.attr
    if isinstance(f, ast.Name):
        return f.id
    return None


def walk_no_nested(node: ast.AST, *, include_lambdas: bool = True
                   ) -> Iterator[ast.AST]:
    """ast.walk that does not descend into nested function/class
    definitions (their bodies belong to another function)."""
    stack = [node]
    first = True
    while stack:
        n = stack.pop()
        if not first and isinstance(
            n, (ast.FunctionDef, ast.AsyncFunctionDef, ast.ClassDef)
        ):
            continue
        if not include_lambdas and isinstance(n, ast.Lambda) and not first:
            continue
        first = False
        yield n
        stack.extend(reversed(list(ast.iter_child_nodes(n))))


def names_in(node: ast.AST) -> set[str]:
    return {n.id for n in ast.walk(node) if isinstance(n, ast.Name)}


def const_value(node: ast.AST) -> Any:
    """Evaluate a literal constant expression (numbers, strings, tuples,
    unary minus, ``10**9``-style arithmetic).  Raises ValueError."""
    if isinstance(node, ast.Constant):
        return node.value
    if isinstance(node, ast.Tuple):
        return tuple(const_value(e) for e in node.elts)
    if isinstance(node, ast.List):
        return [const_value(e) for e in node.elts]
    if isinstance(node, ast.Dict):
        return {const_value(k): const_value(v)
                for k, v in zip(node.keys, node.values) if k is not None}
    if isinstance(node, ast.UnaryOp) and isinstance(node.op, ast.USub):
        return -const_value(node.operand)
    if isinstance(node, ast.BinOp):
        a, b = const_value(node.left), const_value(node.right)
        if isinstance(node.op, ast.Add):
            return a + b
        if isinstance(node.op, ast.Sub):
            return a - b
        if isinstance(node.op, ast.Mult):
            return a * b
        if isinstance(node.op, ast.Pow):
            return a ** b
        if isinstance(node.op, ast.FloorDiv):
            return a // b
        if isinstance(node.op, ast.Div):
            return a / b
    if isinstance(node, ast.JoinedStr):
        out = ""
        for v in node.values:
            if isinstance(v, ast.Constant):
                out += str(v.value)
            else:
                raise ValueError("non-constant f-string")
        return out
    raise ValueError(f"not a constant: {unparse(node)}")


# --------------------------------------------------------------------------
# index
# --------------------------------------------------------------------------

@dataclass
class FuncInfo:
    name: str
    qualname: str              # "pkg.mod:Class.func" or "pkg.mod:func"
    module: "ModuleInfo"
    node: ast.FunctionDef
    cls: Optional["ClassInfo"] = None
    decorators: tuple[str, ...] = ()

    @property
    def short(self) -> str:
        return (f"{self.cls.name}.{self.name}" if self.cls else self.name)

    @property
    def file(self) -> str:
        return self.module.relpath

    @property
    def is_property_getter(self) -> bool:
        return "property" in self.decorators

    @property
    def is_property_setter(self) -> bool:
        return any(d.endswith(".setter") for d in self.decorators)

    @property
    def is_static(self) -> bool:
        return "staticmethod" in self.decorators

    def params(self) -> list[str]:
        a = self.node.args
        return [x.arg for x in a.posonlyargs + a.args + a.kwonlyargs]

    def __hash__(self) -> int:
        return hash(self.qualname)

    def __eq__(self, other: object) -> bool:
        return isinstance(other, FuncInfo) and other.qualname == self.qualname

    def __repr__(self) -> str:
        return f"<{self.qualname}>"


@dataclass
class ClassInfo:
    name: str
    module: "ModuleInfo"
    node: ast.ClassDef
    base_names: list[str] = field(default_factory=list)
    bases: list["ClassInfo"] = field(default_factory=list)
    subclasses: list["ClassInfo"] = field(default_factory=list)
    methods: dict[str, list[FuncInfo]] = field(default_factory=dict)

    @property
    def qualname(self) -> str:
        return f"{self.module.name}:{self.name}"

    def mro(self) -> list["ClassInfo"]:
        out: list[ClassInfo] = []
        todo = [self]
        while todo:
            c = todo.pop(0)
            if c in out:
                continue
            out.append(c)
            todo.extend(c.bases)
        return out

    def all_subclasses(self) -> list["ClassInfo"]:
        out: list[ClassInfo] = []
        todo = list(self.subclasses)
        while todo:
            c = todo.pop()
            if c in out:
                continue
            out.append(c)
            todo.extend(c.subclasses)
        return out

    def lookup(self, name: str) -> list[FuncInfo]:
        """Methods called ``name`` visible on an instance of this class
        (first definition along the MRO)."""
        for c in self.mro():
            if name in c.methods:
                return c.methods[name]
        return []

    def fields(self) -> list[tuple[str, ast.AnnAssign]]:
        """Annotated class-level fields (pydantic / TypedDict / mapped)."""
        return [
            (s.target.id, s)
            for s in self.node.body
            if isinstance(s, ast.AnnAssign) and isinstance(s.target, ast.Name)
        ]

    def __hash__(self) -> int:
        return hash(self.qualname)

    def __eq__(self, other: object) -> bool:
        return isinstance(other, ClassInfo) and other.qualname == self.qualname

    def __repr__(self) -> str:
        return f"<class {self.qualname}>"


@dataclass
class ModuleInfo:
    name: str
    path: Path
    relpath: str
    src: str
    tree: ast.Module
    digest: str
    imports: dict[str, tuple[str, Optional[str]]] = field(default_factory=dict)
    functions: dict[str, FuncInfo] = field(default_factory=dict)
    classes: dict[str, ClassInfo] = field(default_factory=dict)
    assigns: dict[str, list[ast.stmt]] = field(default_factory=dict)

    def constant(self, name: str) -> Any:
        for st in self.assigns.get(name, []):
            value = st.value  # type: ignore[attr-defined]
            if value is not None:
                return const_value(value)
        raise KeyError(name)


PINNED_PARAMS_FILE = Path(__file__).resolve().parent / "pinned_params.json"


def _def_key(cls: Optional[str], name: str) -> str:
    return f"{cls}.{name}" if cls else name


def _iter_defs(tree: ast.Module) -> Iterator[tuple[Optional[str],
                                                   ast.FunctionDef]]:
    for st in tree.body:
        if isinstance(st, (ast.FunctionDef, ast.AsyncFunctionDef)):
            yield None, st  # type: ignore[misc]
        elif isinstance(st, ast.ClassDef):
            for sub in st.body:
                if isinstance(sub, (ast.FunctionDef, ast.AsyncFunctionDef)):
                    yield st.name, sub  # type: ignore[misc]


def _param_args(f: ast.FunctionDef) -> list[ast.arg]:
    a = f.args
    return list(a.posonlyargs) + list(a.args) + list(a.kwonlyargs)


def normalise_params(trees: list[ast.Module]) -> list[str]:
    """Alpha-normalisation of parameter names to the signatures recorded on
    the pinned tree (``pinned_params.json``: ``Class.method`` / ``function``
    -> parameter names, recorded only for names that are unique in the
    package).  A function whose parameter *count* equals the recorded one but
    whose names differ has been subjected to a parameter rename; the rename
    is undone positionally -- in the definition, in the body, and in keyword
    arguments at call sites of that name throughout the package -- so that
    the rules, which name parameters, see an alpha-equivalent program.  A
    reordering without renaming (same name set) is left alone; a changed
    count is left alone.  Returns a description of what was normalised."""
    try:
        pinned: dict[str, list[str]] = json.loads(
            PINNED_PARAMS_FILE.read_text())
    except FileNotFoundError:
        return []
    defs: dict[str, list[ast.FunctionDef]] = {}
    simple: dict[str, int] = {}
    for tree in trees:
        for cls, f in _iter_defs(tree):
            defs.setdefault(_def_key(cls, f.name), []).append(f)
            simple[f.name] = simple.get(f.name, 0) + 1
    done: list[str] = []
    for key, want in pinned.items():
        fs = defs.get(key, [])
        if len(fs) != 1:
            continue
        f = fs[0]
        have = [a.arg for a in _param_args(f)]
        if have == want or len(have) != len(want) or set(have) == set(want):
            continue
        mapping = {h: w for h, w in zip(have, want) if h != w}
        # never capture: a pinned name must not already be used otherwise
        used = {n.id for n in ast.walk(f) if isinstance(n, ast.Name)} | {
            a.arg for n in ast.walk(f) if isinstance(n, ast.Lambda)
            for a in n.args.args}
        if any(w in used and w not in have for w in mapping.values()):
            continue
        for a in _param_args(f):
            a.arg = mapping.get(a.arg, a.arg)
        for n in ast.walk(f):
            if isinstance(n, ast.Name) and n.id in mapping:
                n.id = mapping[n.id]
        if simple.get(f.name, 0) == 1 or f.name == "__init__":
            cname = key.split(".")[0] if f.name == "__init__" else f.name
            for tree in trees:
                for n in ast.walk(tree):
                    if isinstance(n, ast.Call) and call_name(n) == cname:
                        for kwd in n.keywords:
                            if kwd.arg in mapping:
                                kwd.arg = mapping[kwd.arg]
        done.append(f"{key}({', '.join(f'{h}->{w}' for h, w in mapping.items())})")
    return done


PINNED_FUNCS_FILE = Path(__file__).resolve().parent / "pinned_functions.json"


def function_fingerprint(f: ast.FunctionDef) -> list[str]:
    """A name-independent description of a function: its parameters, the
    simple names it calls and the attribute names it touches (as a multiset,
    its own name replaced by <self>)."""
    out = [f"p:{a.arg}" for a in _param_args(f)]
    for n in ast.walk(f):
        if isinstance(n, ast.Call):
            cn = call_name(n)
            if cn:
                out.append("c:" + ("<self>" if cn == f.name else cn))
        elif isinstance(n, ast.Attribute):
            out.append("a:" + ("<self>" if n.attr == f.name else n.attr))
        elif isinstance(n, (ast.For, ast.While, ast.If, ast.Try, ast.With,
                            ast.Return, ast.Yield, ast.Raise)):
            out.append("s:" + type(n).__name__)
    return sorted(out)


def _similarity(a: list[str], b: list[str]) -> float:
    from collections import Counter
    ca, cb = Counter(a), Counter(b)
    inter = sum((ca & cb).values())
    union = sum((ca | cb).values())
    return inter / union if union else 1.0


def normalise_function_names(trees: list[ast.Module]) -> list[str]:
    """Alpha-normalisation of function names to the pinned tree: a function
    of the pinned table that is missing, while exactly one *new* function
    (not in the table) has the same fingerprint (parameters, callees,
    attributes touched; similarity >= 0.9) is taken to be that function under
    a new name; the new name is replaced by the pinned one throughout the
    package (definition, calls, imports).  Rules name functions, so a rename
    alone must not make an anchor vanish."""
    try:
        pinned: dict[str, list[str]] = json.loads(
            PINNED_FUNCS_FILE.read_text())
    except FileNotFoundError:
        return []
    cur: dict[str, list[ast.FunctionDef]] = {}
    simple: dict[str, int] = {}
    for tree in trees:
        for cls, f in _iter_defs(tree):
            cur.setdefault(_def_key(cls, f.name), []).append(f)
            simple[f.name] = simple.get(f.name, 0) + 1
    missing = [k for k in pinned if k not in cur]
    extra = [k for k, fs in cur.items() if k not in pinned and len(fs) == 1]
    done: list[str] = []
    if not missing or not extra:
        return done
    fps = {k: function_fingerprint(cur[k][0]) for k in extra}
    for m in missing:
        mcls = m.rsplit(".", 1)[0] if "." in m else None
        scored = sorted(((_similarity(fps[e], pinned[m]), e) for e in extra
                         if (e.rsplit(".", 1)[0] if "." in e else None)
                         == mcls), reverse=True)
        if not scored or scored[0][0] < 0.9:
            continue
        if len(scored) > 1 and scored[1][0] >= 0.9:
            continue
        e = scored[0][1]
        old, new = e.split(".")[-1], m.split(".")[-1]
        if simple.get(old, 0) != 1 or simple.get(new, 0) != 0:
            continue
        for tree in trees:
            for n in ast.walk(tree):
                if isinstance(n, (ast.FunctionDef, ast.AsyncFunctionDef)) \
                        and n.name == old:
                    n.name = new
                elif isinstance(n, ast.Name) and n.id == old:
                    n.id = new
                elif isinstance(n, ast.Attribute) and n.attr == old:
                    n.attr = new
                elif isinstance(n, ast.alias):
                    if n.name == old:
                        n.name = new
                    if n.asname == old:
                        n.asname = new
        extra.remove(e)
        simple[new], simple[old] = 1, 0
        done.append(f"{e}->{m}")
    return done


def _renumber(fn: ast.AST) -> None:
    """After statements were spliced into ``fn``: give every statement a
    line number that reflects its position (rules order statements by line);
    the line a report should cite is kept as ``orig_lineno``."""
    counter = [getattr(fn, "lineno", 1)]

    def visit_block(stmts: list[ast.stmt]) -> None:
        for st in stmts:
            counter[0] += 1
            new = counter[0]
            for n in ast.walk(st):
                if isinstance(n, ast.stmt) and n is not st:
                    continue
                if hasattr(n, "lineno"):
                    if not hasattr(n, "orig_lineno"):
                        n.orig_lineno = n.lineno   # type: ignore[attr-defined]
            st_nodes = [st]
            # expressions directly owned by this statement header
            for fld, val in ast.iter_fields(st):
                if fld in ("body", "orelse", "finalbody", "handlers", "cases"):
                    continue
                vals = val if isinstance(val, list) else [val]
                for v in vals:
                    if isinstance(v, ast.AST):
                        st_nodes.extend(ast.walk(v))
            for n in st_nodes:
                if hasattr(n, "lineno"):
                    n.lineno = new                 # type: ignore[attr-defined]
                    n.end_lineno = new             # type: ignore[attr-defined]
            for fld in ("body", "orelse", "finalbody"):
                blk = getattr(st, fld, None)
                if isinstance(blk, list) and blk and isinstance(blk[0],
                                                                ast.stmt):
                    visit_block(blk)
            for h in getattr(st, "handlers", []) or []:
                counter[0] += 1
                h.orig_lineno = getattr(h, "orig_lineno", h.lineno)
                h.lineno = counter[0]
                visit_block(h.body)
            for cse in getattr(st, "cases", []) or []:
                visit_block(cse.body)
    visit_block(getattr(fn, "body", []))


def inline_new_helpers(trees: list[ast.Module]) -> list[str]:
    """Undo "extract function": a function that is *not* in the pinned table,
    is called at exactly one place in the package, as a whole statement
    (``h(..)`` / ``x = h(..)`` / ``return h(..)``), is not a generator, has no
    nested definitions and returns only through one trailing ``return`` (or
    not at all) is substituted into its caller: parameters and locals get
    fresh names, the trailing return becomes the assignment / return of the
    call statement.  Rules that describe the body of an anchored function
    then see that body whether or not a part of it was moved into a helper.
    Anything else is left alone."""
    try:
        pinned = set(json.loads(PINNED_FUNCS_FILE.read_text()))
    except FileNotFoundError:
        return []
    done: list[str] = []
    for _round in range(16):
        defs: dict[str, list[tuple[ast.Module, Optional[ast.ClassDef],
                                   ast.FunctionDef]]] = {}
        for tree in trees:
            for st in tree.body:
                if isinstance(st, ast.FunctionDef):
                    defs.setdefault(st.name, []).append((tree, None, st))
                elif isinstance(st, ast.ClassDef):
                    for sub in st.body:
                        if isinstance(sub, ast.FunctionDef):
                            defs.setdefault(sub.name, []).append(
                                (tree, st, sub))
        progress = False
        for name, lst in defs.items():
            if len(lst) != 1:
                continue
            tree, cls, f = lst[0]
            key = _def_key(cls.name if cls else None, name)
            if key in pinned or name.startswith("__") or f.decorator_list:
                continue
            if any(isinstance(n, (ast.Yield, ast.YieldFrom, ast.Await,
                                  ast.Global, ast.Nonlocal, ast.Lambda))
                   for n in ast.walk(f)) or any(
                    isinstance(n, (ast.FunctionDef, ast.ClassDef))
                    for n in ast.walk(f) if n is not f):
                continue
            a = f.args
            if a.vararg or a.kwarg or a.posonlyargs or a.kwonlyargs:
                continue
            body = list(f.body)
            if body and isinstance(body[0], ast.Expr) and isinstance(
                    body[0].value, ast.Constant) and isinstance(
                    body[0].value.value, str):
                body = body[1:]
            rets = [n for st in body for n in ast.walk(st)
                    if isinstance(n, ast.Return)]
            tail = body[-1] if body and isinstance(body[-1], ast.Return) \
                else None
            if any(r is not tail for r in rets):
                continue
            # the single call site
            sites = []
            for t2 in trees:
                for n in ast.walk(t2):
                    if isinstance(n, ast.Call) and call_name(n) == name:
                        sites.append((t2, n))
                    elif isinstance(n, ast.Name) and n.id == name and not \
                            isinstance(n.ctx, ast.Store):
                        pass
            refs = sum(1 for t2 in trees for n in ast.walk(t2)
                       if (isinstance(n, ast.Name) and n.id == name)
                       or (isinstance(n, ast.Attribute) and n.attr == name))
            if len(sites) != 1 or refs != 1:
                continue
            t2, call = sites[0]
            if any(isinstance(x, ast.Starred) for x in call.args) or any(
                    k.arg is None for k in call.keywords):
                continue
            is_method = cls is not None
            if is_method and not (isinstance(call.func, ast.Attribute)
                                  and isinstance(call.func.value, ast.Name)
                                  and call.func.value.id == "self"):
                continue
            if not is_method and not isinstance(call.func, ast.Name):
                continue
            # locate the statement and block that hold the call
            holder = None
            for n in ast.walk(t2):
                for fld in ("body", "orelse", "finalbody"):
                    blk = getattr(n, fld, None)
                    if isinstance(blk, list):
                        for i, st in enumerate(blk):
                            if isinstance(st, (ast.Expr, ast.Assign,
                                               ast.AnnAssign, ast.Return)) \
                                    and getattr(st, "value", None) is call:
                                holder = (blk, i, st)
            if holder is None:
                continue
            blk, i, st = holder
            params = [x.arg for x in a.args]
            actuals: dict[str, ast.expr] = {}
            pos = list(call.args)
            if is_method:
                actuals[params[0]] = ast.Name(id="self", ctx=ast.Load())
                rest = params[1:]
            else:
                rest = params
            if len(pos) > len(rest):
                continue
            for pn, av in zip(rest, pos):
                actuals[pn] = av
            for k in call.keywords:
                actuals[k.arg] = k.value  # type: ignore[index]
            defaults = dict(zip(params[len(params) - len(a.defaults):],
                                a.defaults))
            for pn in params:
                if pn not in actuals and pn in defaults:
                    actuals[pn] = defaults[pn]
            if set(actuals) != set(params):
                continue
            import copy as _copy
            locs = {n.id for x in body for n in ast.walk(x)
                    if isinstance(n, ast.Name) and isinstance(n.ctx,
                                                              ast.Store)}
            # the function that holds the call site
            encl = None
            for n in ast.walk(t2):
                if isinstance(n, (ast.FunctionDef, ast.AsyncFunctionDef)) \
                        and any(x is call for x in ast.walk(n)):
                    encl = n          # innermost wins (walk is top-down)
            caller_names = {n.id for n in ast.walk(encl)
                            if isinstance(n, ast.Name)
                            and not any(n is y for y in ast.walk(st))} \
                if encl is not None else set()
            # returned names that land in a target of the same name need no
            # renaming (the usual shape of an extracted block)
            ret_names: list[Optional[str]] = []
            tgt_names: list[Optional[str]] = []
            if tail is not None and tail.value is not None and isinstance(
                    st, ast.Assign) and len(st.targets) == 1:
                rv, tv = tail.value, st.targets[0]
                rl = list(rv.elts) if isinstance(rv, ast.Tuple) else [rv]
                tl = list(tv.elts) if isinstance(tv, (ast.Tuple, ast.List)) \
                    else [tv]
                if len(rl) == len(tl):
                    ret_names = [x.id if isinstance(x, ast.Name) else None
                                 for x in rl]
                    tgt_names = [x.id if isinstance(x, ast.Name) else None
                                 for x in tl]
            same = {r for r, t in zip(ret_names, tgt_names)
                    if r is not None and r == t}
            direct = {pn: av.id for pn, av in actuals.items()
                      if isinstance(av, ast.Name) and pn not in locs}
            ren = {}
            for v in locs | (set(params) - set(direct)):
                if v in caller_names and v not in same:
                    ren[v] = f"{name}__{v}"
                elif v in params and v not in direct and v in same:
                    ren[v] = v
                else:
                    ren[v] = v
            new_stmts: list[ast.stmt] = []
            for pn in params:
                if pn in direct:
                    continue
                if isinstance(actuals[pn], ast.Name) and \
                        actuals[pn].id == ren[pn]:
                    continue
                new_stmts.append(ast.Assign(
                    targets=[ast.Name(id=ren[pn], ctx=ast.Store())],
                    value=actuals[pn], lineno=st.lineno, col_offset=0))
            inl = [_copy.deepcopy(x) for x in body]
            for x in inl:
                for n in ast.walk(x):
                    if isinstance(n, ast.Name):
                        if n.id in direct:
                            n.id = direct[n.id]
                        elif n.id in ren:
                            n.id = ren[n.id]
            if tail is not None:
                last = inl.pop()
                val = last.value if last.value is not None else \
                    ast.Constant(value=None)
                if isinstance(st, ast.Return):
                    inl.append(ast.Return(value=val))
                elif isinstance(st, ast.Expr):
                    inl.append(ast.Expr(value=val))
                elif ret_names and len(ret_names) == len(tgt_names):
                    vl = list(val.elts) if isinstance(val, ast.Tuple) \
                        else [val]
                    tv = st.targets[0]      # type: ignore[attr-defined]
                    tl = list(tv.elts) if isinstance(tv, (ast.Tuple,
                                                          ast.List)) else [tv]
                    pairs = [(t, v) for t, v in zip(tl, vl)
                             if not (isinstance(t, ast.Name) and isinstance(
                                 v, ast.Name) and t.id == v.id)]
                    for t, v in pairs:
                        inl.append(ast.Assign(targets=[t], value=v))
                else:
                    new = _copy.copy(st)
                    new.value = val
                    inl.append(new)
            else:
                if isinstance(st, ast.Return):
                    inl.append(ast.Return(value=ast.Constant(value=None)))
                elif not isinstance(st, ast.Expr):
                    new = _copy.copy(st)
                    new.value = ast.Constant(value=None)
                    inl.append(new)
            for x in new_stmts + inl:
                ast.copy_location(x, st)
                for n in ast.walk(x):
                    if not hasattr(n, "lineno"):
                        n.lineno = st.lineno        # type: ignore[attr-defined]
                        n.col_offset = 0            # type: ignore[attr-defined]
            blk[i:i + 1] = new_stmts + inl
            owner = cls.body if cls is not None else tree.body
            owner.remove(f)
            for t3 in trees:
                ast.fix_missing_locations(t3)
            if encl is not None:
                _renumber(encl)
            done.append(key)
            progress = True
            break       # definitions changed: recompute
        if not progress:
            break
    return done


def canonical_statements(trees: list[ast.Module]) -> dict[str, int]:
    """Statement-level normal forms (each an equivalence):

    * ``x = x <op> e``  ->  ``x <op>= e``       (x a plain name; + - *)
    * ``x = a if c else b``  ->  ``if c: x = a`` / ``else: x = b``
      (also ``return a if c else b``)
    * ``xs = []`` directly followed by ``for t in it: [if c:] xs.append(e)``
      (nothing else in the loop, ``xs`` not read by it / c / e)
      ->  ``xs = [e for t in it if c]``
    """
    n = {"aug": 0, "ifexp": 0, "comp": 0}

    def blocks(tree: ast.AST) -> Iterator[list[ast.stmt]]:
        for node in ast.walk(tree):
            for fld in ("body", "orelse", "finalbody"):
                blk = getattr(node, fld, None)
                if isinstance(blk, list) and blk and isinstance(
                        blk[0], ast.stmt):
                    yield blk
            if isinstance(node, ast.Try):
                for h in node.handlers:
                    yield h.body

    def mentions(e: ast.AST, name: str) -> bool:
        return any(isinstance(x, ast.Name) and x.id == name
                   for x in ast.walk(e))
    for tree in trees:
        for blk in list(blocks(tree)):
            i = 0
            while i < len(blk):
                st = blk[i]
                # --- x = x op e
                if isinstance(st, ast.Assign) and len(st.targets) == 1 \
                        and isinstance(st.targets[0], ast.Name) \
                        and isinstance(st.value, ast.BinOp) and isinstance(
                            st.value.op, (ast.Add, ast.Sub, ast.Mult)) \
                        and isinstance(st.value.left, ast.Name) \
                        and st.value.left.id == st.targets[0].id:
                    new = ast.AugAssign(
                        target=ast.Name(id=st.targets[0].id, ctx=ast.Store()),
                        op=st.value.op, value=st.value.right)
                    blk[i] = ast.copy_location(new, st)
                    ast.fix_missing_locations(blk[i])
                    n["aug"] += 1
                # --- x = a if c else b
                elif isinstance(st, ast.Assign) and len(st.targets) == 1 \
                        and isinstance(st.targets[0], ast.Name) \
                        and isinstance(st.value, ast.IfExp):
                    v = st.value
                    t1 = ast.Assign(targets=[ast.Name(id=st.targets[0].id,
                                                      ctx=ast.Store())],
                                    value=v.body)
                    t2 = ast.Assign(targets=[ast.Name(id=st.targets[0].id,
                                                      ctx=ast.Store())],
                                    value=v.orelse)
                    new_if = ast.If(test=v.test, body=[t1], orelse=[t2])
                    for x in (new_if, t1, t2):
                        ast.copy_location(x, st)
                    ast.fix_missing_locations(new_if)
                    blk[i] = new_if
                    n["ifexp"] += 1
                # --- if c: x = a / else: x = b ; return x  ->  two returns
                st = blk[i]
                if isinstance(st, ast.If) and len(st.body) == 1 and len(
                        st.orelse) == 1 and i + 1 < len(blk) and isinstance(
                        blk[i + 1], ast.Return) and isinstance(
                        blk[i + 1].value, ast.Name):
                    a1, a2, rv = st.body[0], st.orelse[0], blk[i + 1].value.id
                    if all(isinstance(a, ast.Assign) and len(a.targets) == 1
                           and isinstance(a.targets[0], ast.Name)
                           and a.targets[0].id == rv for a in (a1, a2)):
                        r1 = ast.copy_location(ast.Return(value=a1.value), a1)
                        r2 = ast.copy_location(ast.Return(value=a2.value), a2)
                        st.body, st.orelse = [r1], [r2]
                        del blk[i + 1]
                        n["ifexp"] += 1
                # --- return a if c else b
                if isinstance(st, ast.Return) and isinstance(
                        st.value, ast.IfExp):
                    v = st.value
                    r1 = ast.Return(value=v.body)
                    r2 = ast.Return(value=v.orelse)
                    new_if = ast.If(test=v.test, body=[r1], orelse=[r2])
                    for x in (new_if, r1, r2):
                        ast.copy_location(x, st)
                    ast.fix_missing_locations(new_if)
                    blk[i] = new_if
                    n["ifexp"] += 1
                # --- xs = []; for ..: xs.append(e)
                elif i + 1 < len(blk) and isinstance(blk[i + 1], ast.For) \
                        and not blk[i + 1].orelse:
                    tgt = None
                    if isinstance(st, ast.Assign) and len(st.targets) == 1 \
                            and isinstance(st.targets[0], ast.Name):
                        tgt = st.targets[0].id
                    elif isinstance(st, ast.AnnAssign) and isinstance(
                            st.target, ast.Name):
                        tgt = st.target.id
                    val = getattr(st, "value", None)
                    loop = blk[i + 1]
                    is_set = isinstance(val, ast.Call) and isinstance(
                        val.func, ast.Name) and val.func.id == "set" \
                        and not val.args and not val.keywords
                    is_list = isinstance(val, ast.List) and not val.elts

                    def unguard(body: list[ast.stmt],
                                g: ast.comprehension) -> Optional[ast.stmt]:
                        # ``if c: continue`` clauses in front of the single
                        # remaining statement are filters ``not c``
                        body = list(body)
                        while len(body) > 1 and isinstance(body[0], ast.If) \
                                and not body[0].orelse and len(
                                    body[0].body) == 1 and isinstance(
                                    body[0].body[0], ast.Continue):
                            g.ifs.append(ast.UnaryOp(op=ast.Not(),
                                                     operand=body[0].test))
                            body = body[1:]
                        return body[0] if len(body) == 1 else None
                    if tgt and (is_list or is_set) and loop.body:
                        # a chain of nested ``for`` / ``if`` (no else) that
                        # ends in ``tgt.append(e)``
                        gens: list[ast.comprehension] = [ast.comprehension(
                            target=loop.target, iter=loop.iter, ifs=[],
                            is_async=0)]
                        inner: Optional[ast.stmt] = unguard(loop.body,
                                                            gens[-1])
                        while inner is not None:
                            if isinstance(inner, ast.If) and not inner.orelse \
                                    and len(inner.body) == 1:
                                gens[-1].ifs.append(inner.test)
                                inner = inner.body[0]
                            elif isinstance(inner, ast.For) and not \
                                    inner.orelse and inner.body:
                                gens.append(ast.comprehension(
                                    target=inner.target, iter=inner.iter,
                                    ifs=[], is_async=0))
                                inner = unguard(inner.body, gens[-1])
                            else:
                                break
                        parts = [x for g in gens for x in [g.iter] + g.ifs]
                        if isinstance(inner, ast.Expr) and isinstance(
                                inner.value, ast.Call) and isinstance(
                                inner.value.func, ast.Attribute) \
                                and inner.value.func.attr == (
                                    "append" if is_list else "add") \
                                and isinstance(inner.value.func.value,
                                               ast.Name) \
                                and inner.value.func.value.id == tgt \
                                and len(inner.value.args) == 1 \
                                and not inner.value.keywords \
                                and not mentions(inner.value.args[0], tgt) \
                                and not any(mentions(c, tgt) for c in parts):
                            comp = (ast.ListComp if is_list else
                                    ast.SetComp)(elt=inner.value.args[0],
                                                 generators=gens)
                            new = ast.Assign(
                                targets=[ast.Name(id=tgt, ctx=ast.Store())],
                                value=comp)
                            ast.copy_location(new, st)
                            ast.fix_missing_locations(new)
                            blk[i:i + 2] = [new]
                            n["comp"] += 1
                i += 1
    return n


def positionalise_calls(trees: list[ast.Module]) -> int:
    """Normal form for calls of package functions: keyword arguments that
    continue the positional prefix are turned into positional arguments
    (``f(a, y=b)`` with ``def f(x, y, z=0)`` becomes ``f(a, b)``), so that a
    rule reading "the first argument" sees the same thing whichever way the
    call is spelled.  Only for callees whose simple name is defined exactly
    once in the package, without ``*args`` / ``**kwargs`` on either side."""
    defs: dict[str, list[tuple[Optional[str], ast.FunctionDef]]] = {}
    classes: dict[str, list[ast.ClassDef]] = {}
    for tree in trees:
        for cls, f in _iter_defs(tree):
            defs.setdefault(f.name, []).append((cls, f))
        for st in tree.body:
            if isinstance(st, ast.ClassDef):
                classes.setdefault(st.name, []).append(st)
    changed = 0
    for tree in trees:
        for n in ast.walk(tree):
            if not isinstance(n, ast.Call) or not n.keywords:
                continue
            if any(isinstance(a, ast.Starred) for a in n.args) or any(
                    k.arg is None for k in n.keywords):
                continue
            name = call_name(n)
            if name is None:
                continue
            target: Optional[ast.FunctionDef] = None
            skip = 0
            if name in classes and len(classes[name]) == 1 and isinstance(
                    n.func, ast.Name):
                inits = [f for c, f in defs.get("__init__", [])
                         if c == name]
                if len(inits) == 1:
                    target, skip = inits[0], 1
            elif len(defs.get(name, [])) == 1 and name not in classes:
                cls, f = defs[name][0]
                static = any((dotted(d) or "") in ("staticmethod",)
                             for d in f.decorator_list)
                if cls is None and isinstance(n.func, ast.Name):
                    target, skip = f, 0
                elif cls is not None and isinstance(n.func, ast.Attribute):
                    target, skip = f, (0 if static else 1)
            if target is None:
                continue
            a = target.args
            if a.vararg or a.kwarg or a.posonlyargs:
                continue
            params = [x.arg for x in a.args][skip:]
            pos = len(n.args)
            kws = {k.arg: k for k in n.keywords}
            moved = []
            while pos < len(params) and params[pos] in kws:
                moved.append(kws.pop(params[pos]))
                pos += 1
            if moved:
                n.args = list(n.args) + [k.value for k in moved]
                n.keywords = [k for k in n.keywords if k not in moved]
                changed += 1
    return changed


class Index:
    """Parsed view of ``<root>/tel2puml``."""

    def __init__(self, root: Path | str = DEFAULT_ROOT) -> None:
        self.root = Path(root)
        self.pkg_dir = self.root / PACKAGE
        if not self.pkg_dir.is_dir():
            raise AnalysisError(f"package directory {self.pkg_dir} not found")
        self.modules: dict[str, ModuleInfo] = {}
        self.functions: dict[str, FuncInfo] = {}
        self.classes: dict[str, list[ClassInfo]] = {}
        self.by_simple_name: dict[str, list[FuncInfo]] = {}
        self._parse_all()
        self._link_classes()
        self.parent_maps: dict[int, dict[ast.AST, ast.AST]] = {}

    # -- building ---------------------------------------------------------
    def _parse_all(self) -> None:
        pkg_flags: dict[str, bool] = {}
        for path in sorted(self.pkg_dir.rglob("*.py")):
            rel = path.relative_to(self.root)
            parts = list(rel.with_suffix("").parts)
            if parts[-1] == "__init__":
                parts = parts[:-1]
            modname = ".".join(parts)
            src = path.read_text(encoding="utf-8")
            try:
                tree = ast.parse(src, filename=str(path))
            except SyntaxError as exc:
                raise AnalysisError(f"cannot parse {rel}: {exc}") from exc
            mod = ModuleInfo(
                name=modname, path=path, relpath=str(rel), src=src, tree=tree,
                digest=hashlib.sha256(src.encode()).hexdigest()[:16],
            )
            self.modules[modname] = mod
            pkg_flags[modname] = path.name == "__init__.py"
        self.normalised_functions = normalise_function_names(
            [m.tree for m in self.modules.values()])
        self.inlined_helpers = inline_new_helpers(
            [m.tree for m in self.modules.values()])
        self.canonical_statements = canonical_statements(
            [m.tree for m in self.modules.values()])
        self.normalised_params = normalise_params(
            [m.tree for m in self.modules.values()])
        self.positionalised_calls = positionalise_calls(
            [m.tree for m in self.modules.values()])
        for modname, mod in self.modules.items():
            self._index_module(mod, is_pkg=pkg_flags[modname])

    def _index_module(self, mod: ModuleInfo, is_pkg: bool) -> None:
        pkg_parts = mod.name.split(".") if is_pkg else mod.name.split(".")[:-1]
        for st in ast.walk(mod.tree):
            if isinstance(st, ast.ImportFrom):
                if st.level:
                    base = pkg_parts[: len(pkg_parts) - (st.level - 1)]
                    target = ".".join(base + ([st.module] if st.module else []))
                else:
                    target = st.module or ""
                for al in st.names:
                    mod.imports[al.asname or al.name] = (target, al.name)
            elif isinstance(st, ast.Import):
                for al in st.names:
                    mod.imports[al.asname or al.name.split(".")[0]] = (
                        al.name if al.asname else al.name.split(".")[0], None)
        for st in mod.tree.body:
            if isinstance(st, (ast.FunctionDef, ast.AsyncFunctionDef)):
                self._add_func(mod, st, None)
            elif isinstance(st, ast.ClassDef):
                ci = ClassInfo(
                    name=st.name, module=mod, node=st,
                    base_names=[dotted(b) or unparse(b) for b in st.bases],
                )
                mod.classes[st.name] = ci
                self.classes.setdefault(st.name, []).append(ci)
                for sub in st.body:
                    if isinstance(sub, (ast.FunctionDef, ast.AsyncFunctionDef)):
                        self._add_func(mod, sub, ci)
            elif isinstance(st, (ast.Assign, ast.AnnAssign)):
                targets = st.targets if isinstance(st, ast.Assign) else [st.target]
                for t in targets:
                    if isinstance(t, ast.Name):
                        mod.assigns.setdefault(t.id, []).append(st)

    def _add_func(self, mod: ModuleInfo, node: ast.FunctionDef,
                  cls: Optional[ClassInfo]) -> None:
        decos = tuple(dotted(d) or unparse(d) for d in node.decorator_list)
        q = f"{mod.name}:{cls.name + '.' if cls else ''}{node.name}"
        fi = FuncInfo(node.name, q, mod, node, cls, decos)
        if cls is not None:
            cls.methods.setdefault(node.name, []).append(fi)
            # property getter and setter share a name -> keep both
            key = q + ("#setter" if fi.is_property_setter else "")
            fi.qualname = key
            self.functions[key] = fi
        else:
            mod.functions[node.name] = fi
            self.functions[q] = fi
        self.by_simple_name.setdefault(node.name, []).append(fi)

    def _link_classes(self) -> None:
        for clss in self.classes.values():
            for ci in clss:
                for b in ci.base_names:
                    target = self.resolve_class(ci.module, b.split(".")[-1])
                    if target is not None and target is not ci:
                        ci.bases.append(target)
                        target.subclasses.append(ci)

    # -- lookups ------------------------------------------------------------
    def resolve_class(self, mod: ModuleInfo, name: str) -> Optional[ClassInfo]:
        if name in mod.classes:
            return mod.classes[name]
        if name in mod.imports:
            target, attr = mod.imports[name]
            got = self._follow_import(target, attr or name, set())
            if isinstance(got, ClassInfo):
                return got
        cands = self.classes.get(name, [])
        return cands[0] if len(cands) == 1 else None

    def _follow_import(self, target: str, attr: str, seen: set[tuple[str, str]]
                       ) -> Any:
        if (target, attr) in seen:
            return None
        seen.add((target, attr))
        m = self.modules.get(target)
        if m is None:
            return None
        if attr in m.functions:
            return m.functions[attr]
        if attr in m.classes:
            return m.classes[attr]
        if attr in m.imports:  # re-export through __init__
            t2, a2 = m.imports[attr]
            return self._follow_import(t2, a2 or attr, seen)
        if f"{target}.{attr}" in self.modules:
            return self.modules[f"{target}.{attr}"]
        return None

    def resolve_name(self, mod: ModuleInfo, name: str) -> Any:
        """A module-level name -> FuncInfo | ClassInfo | ModuleInfo | None."""
        if name in mod.functions:
            return mod.functions[name]
        if name in mod.classes:
            return mod.classes[name]
        if name in mod.imports:
            target, attr = mod.imports[name]
            if attr is None:
                return self.modules.get(target)
            return self._follow_import(target, attr, set())
        return None

    def module(self, suffix: str) -> ModuleInfo:
        """Module by dotted-name suffix ("sql_dataholder")."""
        hits = [m for n, m in self.modules.items()
                if n == suffix or n.endswith("." + suffix)]
        if len(hits) != 1:
            raise AnalysisError(
                f"anchor module '{suffix}' resolves to {len(hits)} modules")
        return hits[0]

    def func(self, spec: str, *, optional: bool = False) -> Optional[FuncInfo]:
        """Anchor resolution.  ``spec`` is "func", "Class.func",
        "module_suffix:func" or "module_suffix:Class.func".  Resolution is by
        qualified name with fallback to the unique simple name, so moving a
        function between modules is not an alarm; a name that resolves to
        nothing (or ambiguously) is an AnalysisError."""
        setter = spec.endswith("#setter")
        if setter:
            spec = spec[: -len("#setter")]
        modpart, _, rest = spec.rpartition(":")
        clsname, _, fname = rest.rpartition(".")
        cands = [f for f in self.by_simple_name.get(fname, [])
                 if f.is_property_setter == setter]
        if clsname:
            cands = [f for f in cands if f.cls is not None
                     and f.cls.name == clsname]
        else:
            top = [f for f in cands if f.cls is None]
            cands = top or cands
        if modpart and len(cands) > 1:
            narrowed = [f for f in cands if f.module.name == modpart
                        or f.module.name.endswith("." + modpart)]
            cands = narrowed or cands
        if len(cands) == 1:
            return cands[0]
        if optional and not cands:
            return None
        raise AnalysisError(
            f"anchor '{spec}' resolves to {len(cands)} definitions"
            + (": " + ", ".join(c.qualname for c in cands) if cands else ""))

    def cls(self, name: str) -> ClassInfo:
        cands = self.classes.get(name, [])
        if len(cands) != 1:
            raise AnalysisError(
                f"anchor class '{name}' resolves to {len(cands)} definitions")
        return cands[0]

    def all_functions(self) -> list[FuncInfo]:
        return list(self.functions.values())

    def parents(self, fi: FuncInfo) -> dict[ast.AST, ast.AST]:
        key = id(fi.node)
        if key not in self.parent_maps:
            pm: dict[ast.AST, ast.AST] = {}
            for n in ast.walk(fi.node):
                for c in ast.iter_child_nodes(n):
                    pm[c] = n
            self.parent_maps[key] = pm
        return self.parent_maps[key]

    def stats(self) -> dict[str, int]:
        return {
            "modules": len(self.modules),
            "functions": len(self.functions),
            "classes": sum(len(v) for v in self.classes.values()),
            "lines": sum(m.src.count("\n") + 1 for m in self.modules.values()),
        }


# --------------------------------------------------------------------------
# obligations / report
# --------------------------------------------------------------------------

@dataclass
class Obligation:
    rule: str
    instance: str
    ok: bool
    file: str = ""
    line: int = 0
    func: str = ""
    stmt: str = ""
    detail: str = ""
    path: list[str] = field(default_factory=list)

    @property
    def key(self) -> str:
        """Identity of a finding: rule + construct, never a line number."""
        return f"{self.rule}|{self.func}|{self.instance}"

    def to_json(self) -> dict[str, Any]:
        d = {
            "rule": self.rule, "instance": self.instance,
            "verdict": "holds" if self.ok else "VIOLATED",
            "where": f"{self.file}:{self.line}" if self.file else "",
            "function": self.func, "statement": self.stmt,
            "detail": self.detail,
        }
        if self.path:
            d["path"] = self.path
        return d


class Report:
    """Collects obligations of one property check."""

    def __init__(self, prop: str, index: Index) -> None:
        self.prop = prop
        self.index = index
        self.obligations: list[Obligation] = []
        self.notes: list[str] = []
        self.analysed: dict[str, Any] = {}
        self.rules_text: dict[str, str] = {}
        self.minima: dict[str, int] = {}
        self.funcs_seen: set[str] = set()

    def rule(self, rule: str, text: str, minimum: int = 1) -> None:
        """Declare a rule, what it decides and the hand-confirmed minimum
        number of instances (vacuity guard)."""
        self.rules_text[rule] = text
        self.minima[rule] = minimum

    def seen(self, *funcs: FuncInfo | None) -> None:
        for f in funcs:
            if f is not None:
                self.funcs_seen.add(f.qualname)

    def ob(self, rule: str, instance: str, ok: bool, *,
           fi: FuncInfo | None = None, node: ast.AST | None = None,
           detail: str = "", path: Iterable[str] = ()) -> bool:
        if fi is not None:
            self.funcs_seen.add(fi.qualname)
        self.obligations.append(Obligation(
            rule=rule, instance=instance, ok=bool(ok),
            file=fi.file if fi else "",
            line=getattr(node, "orig_lineno", None) or getattr(
                node, "lineno", 0) or (fi.node.lineno if fi else 0),
            func=fi.qualname if fi else "",
            stmt=norm_stmt(node) if node is not None else "",
            detail=detail, path=list(path),
        ))
        return bool(ok)

    def note(self, text: str) -> None:
        self.notes.append(text)

    def check_minima(self) -> None:
        counts: dict[str, int] = {}
        for o in self.obligations:
            counts[o.rule] = counts.get(o.rule, 0) + 1
        violated = {o.rule for o in self.obligations if not o.ok}
        for rule, minimum in self.minima.items():
            if rule in violated:
                continue  # a reported violation may cut the rule short
            if counts.get(rule, 0) < minimum:
                raise AnalysisError(
                    f"rule {rule} matched {counts.get(rule, 0)} instance(s), "
                    f"fewer than the {minimum} confirmed by hand on the "
                    "pinned tree (vacuity guard)")

    @property
    def violations(self) -> list[Obligation]:
        return [o for o in self.obligations if not o.ok]


def load_known_findings() -> dict[str, Any]:
    p = VERIF_DIR / "known_findings.json"
    if not p.exists():
        return {"findings": [], "fixed": []}
    return json.loads(p.read_text())


def anchor(fn: Callable[[], Any], what: str) -> Any:
    try:
        return fn()
    except (KeyError, IndexError, StopIteration) as exc:
        raise AnalysisError(f"anchor {what} not found: {exc!r}") from exc


def now() -> float:
    return time.monotonic()


def eprint(*a: Any) -> None:
    print(*a, file=sys.stderr)
