"""C13 -- field-mapping extraction: the skip / validation clause only."""
from __future__ import annotations

import ast

from ..core import FuncInfo, AnalysisError, Report, call_name, dotted, unparse
from ..ctx import Ctx
from .util import cguards, enclosing, strip_not

EXPLANATION = (
    "Only the second sentence of C13 is decided ('records that cannot form "
    "a valid span are skipped without affecting the others'), through its "
    "structural necessary conditions: R13.1 the span constructor runs "
    "inside a try that sits inside the innermost per-record loop, with a "
    "handler for the validation error that neither raises, returns nor "
    "breaks; R13.2 the three field tables agree (OTelEvent fields = "
    "OTelFieldMapping fields = keys of to_field_mapping(), each key K bound "
    "to self.K); R13.3 exactly one of field_mapping/jq_query and of "
    "filepath/dirpath (validators raise in both directions); R13.4 the "
    "file iteration skeleton of the data source visits every file once and "
    "ends with StopIteration; R13.5 in one-JSON-per-line mode every line is "
    "decoded and yielded. Agreement of the generated jq program with the "
    "documented flattening (first sentence) is NOT decided: it is a "
    "translation-correctness claim over a program assembled at run time and "
    "needs a reference interpreter and execution."
    " Added: R13.4/R13.5 file iteration and per-line mode; R13.6 a yielded span is built from the current record; R13.7 no rewind / re-open between two yields.")
NOT_DECIDED = ["agreement of the generated jq program with the documented "
               "path semantics (C13, first sentence)"]
ASSUMPTIONS: list[str] = []

VALIDATION_NAMES = {"ValidationError", "Exception", "ValueError", ""}


def check(rep: Report, ctx: Ctx) -> None:
    r1311(rep, ctx)
    rep.rule("R13.1", "per-record skip", 3)
    fi = ctx.func("JSONDataSource.parse_json_stream")
    ctors = [c for c in ast.walk(fi.node) if isinstance(c, ast.Call)
             and call_name(c) == "OTelEvent"]
    if len(ctors) != 1:
        raise AnalysisError(f"{fi.qualname}: expected one OTelEvent(...) "
                            f"construction, found {len(ctors)}")
    c = ctors[0]
    tries = enclosing(fi.node, c, (ast.Try,))
    loops = enclosing(fi.node, c, (ast.For, ast.While))
    in_body = bool(tries) and any(x is c for st in tries[-1].body
                                  for x in ast.walk(st))
    rep.ob("R13.1", "span construction is guarded by a try", in_body,
           fi=fi, node=c,
           detail=("OTelEvent(**record) inside try" if in_body else
                   "OTelEvent(**record) is not inside a try body: one "
                   "invalid record aborts the file and all later records"))
    if not in_body:
        return
    t = tries[-1]
    per_record = bool(loops) and any(x is t for x in ast.walk(loops[-1])) \
        and not any(isinstance(x, (ast.For, ast.While))
                    for st in t.body for x in ast.walk(st))
    rep.ob("R13.1", "the try is per record (inside the innermost loop)",
           per_record, fi=fi, node=t,
           detail="the try statement is lexically inside the loop over "
                  "records and contains no loop itself" if per_record else
                  "the try wraps a loop: the first invalid record ends the "
                  "iteration over the remaining records")
    hs = []
    for h in t.handlers:
        names = {""} if h.type is None else {
            (dotted(e) or "").split(".")[-1]
            for e in (h.type.elts if isinstance(h.type, ast.Tuple)
                      else [h.type])}
        hs.append((h, names))
    val = [(h, n) for h, n in hs if n & VALIDATION_NAMES]
    if not val:
        rep.ob("R13.1", "a handler catches the validation error", False,
               fi=fi, node=t, detail=f"handlers: {[sorted(n) for _, n in hs]}")
    for h, n in val:
        escapes = [x for st in h.body for x in ast.walk(st)
                   if isinstance(x, (ast.Raise, ast.Return, ast.Break))]
        rep.ob("R13.1", f"handler ({', '.join(sorted(n)) or 'bare'}) skips "
               "the record and continues", not escapes, fi=fi,
               node=escapes[0] if escapes else h,
               detail=("handler body neither raises, returns nor breaks"
                       if not escapes else
                       f"'{unparse(escapes[0])[:40]}' in the handler ends "
                       "the stream at the first invalid record"))
    if t.finalbody and any(isinstance(x, (ast.Return, ast.Break, ast.Raise))
                           for st in t.finalbody for x in ast.walk(st)):
        rep.ob("R13.1", "finally does not end the stream", False, fi=fi,
               node=t, detail="return/break/raise in finally")
    # the record comes from the per-document generator, documents from the
    # file reader
    defs = ctx.defs(fi)
    src = loops[-1].iter if loops else None
    ok = isinstance(src, ast.Call) and call_name(src) == \
        "generate_records_from_compiled_jq"
    rep.ob("R13.1", "records come from the jq generator for each document",
           ok and len(loops) >= 2, fi=fi, node=loops[-1] if loops else fi.node,
           detail="for data in jsons: for record in "
                  "generate_records_from_compiled_jq(data, ...)")

    # ---- R13.6 ---------------------------------------------------------------
    rep.rule("R13.6", "a yielded span is the one built from the current "
             "record", 1)
    cfg = ctx.cfg(fi)
    ys = [y for y in ast.walk(fi.node) if isinstance(y, ast.Yield)]
    rec_loop = loops[-1] if loops else None
    for y in ys:
        v = y.value
        if v is c or (isinstance(v, ast.Call) and v is c):
            rep.ob("R13.6", "the constructed span is yielded directly", True,
                   fi=fi, node=y, detail="yield OTelEvent(**record)")
            continue
        if isinstance(v, ast.Name) and rec_loop is not None:
            binds = [b for b in ctx.defs(fi).of(v.id)
                     if any(x is b.stmt for x in ast.walk(rec_loop))
                     and cfg.has(b.stmt)]
            yn = cfg.container(y)
            ok = bool(binds) and yn is not None and cfg.every_path_defines(
                cfg.node(rec_loop), yn, [cfg.node(b.stmt) for b in binds])
            rep.ob("R13.6", f"'{v.id}' is (re)bound in every iteration "
                   "before it is yielded", ok, fi=fi, node=y,
                   detail=(f"{len(binds)} binding(s) of '{v.id}' inside the "
                           "record loop"
                           + ("" if ok else "; a path from the loop head to "
                              "the yield (through the validation handler) "
                              "carries the value of an earlier record: an "
                              "invalid record re-emits the previous span")))
        else:
            raise AnalysisError(f"{fi.qualname}: yield of "
                                f"'{unparse(v)[:40]}' outside vocabulary")

    # ---- R13.10 --------------------------------------------------------------
    rep.rule("R13.10", "the span is built from the record the jq program "
             "produced, untouched (absent values stay null, present values - "
             "an empty string included - stay what they are)", 3)
    star = [k.value for k in c.keywords if k.arg is None]
    src_ok, how = False, f"OTelEvent({unparse(c)[10:60]})"
    tgt = rec_loop.target if isinstance(rec_loop, ast.For) else None
    if len(star) == 1 and not c.args and len(c.keywords) == 1 and \
            isinstance(tgt, ast.Name):
        v = ctx.reach(fi).resolve(star[0], at=c)
        src_ok = isinstance(v, ast.Name) and v.id == tgt.id and len(
            [b for b in ctx.defs(fi).of(tgt.id)]) == 1
        how = (f"OTelEvent(**{unparse(star[0])}) with '{unparse(v)[:40]}' "
               f"bound by the record loop")
    rep.ob("R13.10", "the constructor receives the loop's record itself",
           src_ok, fi=fi, node=c, detail=how + ("" if src_ok else
           " -- the record is rebuilt / filtered / re-bound between the jq "
           "program and the span model"))
    from .effspec import mutated_locals
    mut = mutated_locals(fi, star[0]) if star else []
    if isinstance(tgt, ast.Name):
        mut += [m for m in mutated_locals(fi, tgt) if m not in mut]
        # del record[k] / record.pop(k) / setdefault are mutators as well
        for st in ast.walk(fi.node):
            if isinstance(st, ast.Delete) and any(
                    isinstance(t_, ast.Subscript) and isinstance(
                        t_.value, ast.Name) and t_.value.id == tgt.id
                    for t_ in st.targets):
                mut.append((tgt.id, st))
    rep.ob("R13.10", "the record is not modified in place", not mut, fi=fi,
           node=mut[0][1] if mut else c,
           detail=("; ".join(f"'{unparse(m)[:60]}'" for _, m in mut)
                   + " changes what the jq program extracted before the "
                   "span is built") if mut else
           "no item store / mutator call / del on the record")

    gen = ctx.func("generate_records_from_compiled_jq")
    rep.funcs_seen.add(gen.qualname)
    gl = [l for l in ast.walk(gen.node) if isinstance(l, ast.For)]
    gy = [y for y in ast.walk(gen.node)
          if isinstance(y, (ast.Yield, ast.YieldFrom))]
    g_ok = len(gl) == 1 and isinstance(gl[0].target, ast.Name) and bool(gy)
    if g_ok:
        it = ctx.defs(gen).resolve_deep(gl[0].iter)
        g_ok = any(isinstance(x, ast.Call) and call_name(x) == "input_value"
                   and x.args and isinstance(x.args[0], ast.Name)
                   and x.args[0].id == gen.params()[0]
                   for x in ast.walk(it)) and all(
            isinstance(y.value, ast.Name) and y.value.id == gl[0].target.id
            for y in gy) and not mutated_locals(gen, gl[0].target) and not \
            any(isinstance(x, (ast.Break, ast.Return)) for x in
                ast.walk(gl[0]))
    rep.ob("R13.10", "the record generator hands out every output of the jq "
           "program as it is (a list output element by element)", g_ok,
           fi=gen, node=gl[0] if gl else gen.node,
           detail="for record in iter(compiled_jq.input_value(input_data)): "
                  "yield from record / yield record")

    # ---- R13.2 ---------------------------------------------------------------
    rep.rule("R13.2", "the three field tables agree", 4)
    ev = ctx.index.cls("OTelEvent")
    fm = ctx.index.cls("OTelFieldMapping")
    ev_f = [n for n, _ in ev.fields()]
    fm_f = [n for n, _ in fm.fields()]
    rep.ob("R13.2", "OTelEvent fields = OTelFieldMapping fields",
           set(ev_f) == set(fm_f), detail=f"OTelEvent {ev_f}; mapping {fm_f}")
    rep.obligations[-1].func = fm.qualname
    rep.obligations[-1].file = fm.module.relpath
    # "invalid records are skipped" makes the event model the definition of
    # a valid record: fields present and of the declared types.  A validator
    # that rejects (or rewrites) beyond that silently drops (changes) spans
    # the documented extraction yields - every ValidationError is skipped
    # without a trace
    from .util import model_rejects, model_rewrites
    probs = model_rejects(ctx, "OTelEvent") + model_rewrites(ctx, "OTelEvent")
    rep.ob("R13.2", "a span is valid when its fields are present and typed: "
           "the event model neither rejects nor rewrites beyond that",
           not probs, detail="; ".join(p[1] for p in probs)[:300] or
           "no validator, no transforming option on OTelEvent")
    rep.obligations[-1].func = ev.qualname
    rep.obligations[-1].file = ev.module.relpath
    rep.obligations[-1].line = probs[0][0].lineno if probs else \
        ev.node.lineno
    tfm = ctx.func("OTelFieldMapping.to_field_mapping")
    keys: dict[str, str] = {}
    for n in ast.walk(tfm.node):
        if isinstance(n, ast.Dict):
            for k, v in zip(n.keys, n.values):
                if isinstance(k, ast.Constant):
                    keys[k.value] = unparse(v)
        if isinstance(n, ast.Assign) and isinstance(
                n.targets[0], ast.Subscript) and isinstance(
                n.targets[0].slice, ast.Constant):
            keys[n.targets[0].slice.value] = unparse(n.value)
    rep.ob("R13.2", "to_field_mapping() has exactly the mapping's fields",
           set(keys) == set(fm_f), fi=tfm, node=tfm.node,
           detail=f"keys {sorted(keys)}")
    crossed = {k: v for k, v in keys.items() if v != f"self.{k}"}
    rep.ob("R13.2", "each key K is bound to self.K", not crossed, fi=tfm,
           node=tfm.node, detail=f"crossed: {crossed}" if crossed else
           "every key takes the field of the same name")

    # ---- R13.3 ---------------------------------------------------------------
    rep.rule("R13.3", "exactly-one-of validators", 4)
    cfgc = ctx.index.cls("JSONDataSourceConfig")
    for a, b in (("field_mapping", "jq_query"), ("filepath", "dirpath")):
        neither = both = None
        for ms in cfgc.methods.values():
            for m in ms:
                if not any("model_validator" in d for d in m.decorators):
                    continue
                for i in ast.walk(m.node):
                    if isinstance(i, ast.If) and any(
                            isinstance(x, ast.Raise) for x in i.body):
                        t = unparse(i.test)
                        if f"self.{a} is None" in t and \
                                f"self.{b} is None" in t and " and " in t:
                            neither = (m, i)
                        if f"self.{a} is not None" in t and \
                                f"self.{b} is not None" in t and " and " in t:
                            both = (m, i)
        rep.ob("R13.3", f"neither {a} nor {b} is rejected",
               neither is not None, fi=neither[0] if neither else None,
               node=neither[1] if neither else None,
               detail="validator raises when both are None")
        rep.ob("R13.3", f"both {a} and {b} is rejected", both is not None,
               fi=both[0] if both else None, node=both[1] if both else None,
               detail="validator raises when both are set")
        for o in rep.obligations[-2:]:
            if not o.func:
                o.func, o.file = cfgc.qualname, cfgc.module.relpath

    # ---- R13.4 ---------------------------------------------------------------
    rep.rule("R13.4", "file iteration skeleton", 2)
    nx = ctx.func("JSONDataSource.__next__")
    hs = [h for h in ast.walk(nx.node) if isinstance(h, ast.ExceptHandler)
          and (dotted(h.type) or "") == "StopIteration"]
    ok = False
    if len(hs) == 1:
        inc = [x for st in hs[0].body for x in ast.walk(st)
               if isinstance(x, ast.AugAssign) and isinstance(x.op, ast.Add)
               and unparse(x.target) == "self.current_file_index"
               and unparse(x.value) == "1"]
        reset = [x for st in hs[0].body for x in ast.walk(st)
                 if isinstance(x, ast.Assign)
                 and unparse(x.targets[0]) == "self.current_parser"
                 and unparse(x.value) == "None"]
        ok = len(inc) == 1 and len(reset) == 1
    rep.ob("R13.4", "an exhausted file advances to the next file exactly "
           "once", ok, fi=nx, node=hs[0] if hs else nx.node,
           detail="except StopIteration: current_file_index += 1; "
                  "current_parser = None")
    mk = [c for c in ast.walk(nx.node) if isinstance(c, ast.Call)
          and call_name(c) == "parse_json_stream"]
    ok = len(mk) == 1 and unparse(ctx.reach(nx).resolve(
        mk[0].args[0], at=mk[0])) == \
        "self.file_list[self.current_file_index]"
    rep.ob("R13.4", "the parser is created for the current file", ok, fi=nx,
           node=mk[0] if mk else nx.node,
           detail=unparse(mk[0])[:90] if mk else "<missing>")

    # ---- R13.5 ---------------------------------------------------------------
    rep.rule("R13.5", "one-JSON-per-line mode decodes every line", 1)
    gj = ctx.func("get_jsons_from_file")
    loops = [l for l in ast.walk(gj.node) if isinstance(l, ast.For)
             and isinstance(l.iter, ast.Name) and l.iter.id == gj.params()[0]]
    ok = False
    if len(loops) == 1:
        ys = [y for y in ast.walk(loops[0]) if isinstance(y, ast.Yield)]
        ok = len(ys) == 1 and isinstance(ys[0].value, ast.Call) \
            and call_name(ys[0].value) == "loads" \
            and unparse(ys[0].value.args[0]) == unparse(loops[0].target) \
            and not enclosing(loops[0], ys[0], (ast.If,))
        g = enclosing(gj.node, loops[0], (ast.If,))
        ok = ok and len(g) == 1 and unparse(g[0].test) == "json_per_line"
    rep.ob("R13.5", "for line in file: yield json.loads(line)", ok, fi=gj,
           node=loops[0] if loops else gj.node,
           detail="under `if json_per_line`, unconditionally per line")
    r137(rep, ctx)
    r138(rep, ctx)
    r139(rep, ctx)


def r137(rep: Report, ctx: Ctx) -> None:
    """A document that has produced records is never read again."""
    rep.rule("R13.7", "the input stream is consumed monotonically: no rewind "
             "or re-open between two yields of a reader", 1)
    for name in ("get_jsons_from_file", "JSONDataSource.parse_json_stream"):
        fi = ctx.func(name)
        rep.seen(fi)
        cfg = ctx.cfg(fi)
        ynodes, rewinds = [], []
        for nd in cfg.stmt_nodes():
            st = nd.stmt
            if st is None or isinstance(st, (ast.FunctionDef, ast.ClassDef)):
                continue
            from ..cfg import _header_parts
            for part in _header_parts(st):
                for x in ast.walk(part):
                    if isinstance(x, (ast.Yield, ast.YieldFrom)):
                        ynodes.append(nd.id)
                    if isinstance(x, ast.Call) and isinstance(
                            x.func, ast.Attribute) and x.func.attr in (
                            "seek", "rewind"):
                        rewinds.append((nd.id, x))
                    if isinstance(x, ast.Call) and dotted(x.func) in (
                            "open", "io.open", "codecs.open"):
                        rewinds.append((nd.id, x))
        bad = []
        for nid, call in rewinds:
            before = any(nid in cfg.reachable(y) and y != nid for y in ynodes)
            after = any(y in cfg.reachable(nid) for y in ynodes)
            if before and after:
                bad.append(call)
        # opening the file once, before anything was yielded, is the normal
        # way to obtain the stream: only a rewind *between* yields counts
        rep.ob("R13.7", f"{fi.name}: no rewind between yields", not bad,
               fi=fi, node=bad[0] if bad else fi.node,
               detail=(f"'{unparse(bad[0])}' can run after a document was "
                       "yielded and before another one is: documents "
                       "already delivered are parsed and delivered again"
                       if bad else
                       f"{len(ynodes)} yield site(s), {len(rewinds)} "
                       "seek/open call(s), none between two yields"))


def r138(rep: Report, ctx: Ctx) -> None:
    """Priority fall-backs and '_' joins: every alternative of a field spec
    gets a jq variable of its own, bound from that alternative's own paths.
    (The text of the generated program is pinned by the suite; what is not
    pinned is that *every* alternative contributes, whatever else the spec
    contains.)"""
    rep.rule("R13.8", "every alternative of a field spec binds a jq variable "
             "of its own from its own key path / key value / value path", 3)
    fi = ctx.func("get_jq_for_field_spec")
    cfg, defs = ctx.cfg(fi), ctx.defs(fi)
    inner = [l for l in ast.walk(fi.node) if isinstance(l, ast.For)
             and enclosing(fi.node, l, (ast.For,))
             and isinstance(l.target, ast.Tuple)]
    if len(inner) != 1:
        raise AnalysisError(f"{fi.qualname}: alternative loop not found")
    loop = inner[0]
    outer = enclosing(fi.node, loop, (ast.For,))[0]
    idx = {t.elts[0].id for t in (outer.target, loop.target)
           if isinstance(t, ast.Tuple) and isinstance(t.elts[0], ast.Name)}
    tvars = [e.id for e in loop.target.elts[1:] if isinstance(e, ast.Name)]
    apps = [c for c in ast.walk(loop) if isinstance(c, ast.Call)
            and call_name(c) == "append" and c.args]
    rep.ob("R13.8", "one variable is registered per alternative",
           len(apps) == 1 and not cguards(ctx, fi, apps[0]), fi=fi,
           node=apps[0] if apps else loop,
           detail=f"{len(apps)} append(s) in the alternative loop, "
                  "unconditional")
    if len(apps) != 1:
        return
    a = apps[0].args[0]
    var = a.id if isinstance(a, ast.Name) else None
    vb = [b for b in defs.of(var or "") if any(x is b.stmt
                                              for x in ast.walk(loop))]
    own = bool(vb) and all(
        isinstance(b.value, ast.JoinedStr) and idx <= {
            n.id for n in ast.walk(b.value) if isinstance(n, ast.Name)}
        for b in vb)
    rep.ob("R13.8", "the registered variable is this alternative's own",
           own, fi=fi, node=apps[0],
           detail=f"append({unparse(a)}) with '{var}' = "
                  f"{[unparse(b.value)[:40] for b in vb]} (must be built "
                  f"from the two position indices {sorted(idx)})")
    # every iteration that registers the variable also binds it in the query
    binds = []
    for st in ast.walk(loop):
        if isinstance(st, ast.AugAssign) and cfg.has(st) and var and any(
                isinstance(n, ast.Name) and n.id == var
                for n in ast.walk(st.value)):
            binds.append(st)
    an = cfg.container(apps[0])
    ok = bool(binds) and an is not None and cfg.every_path_passes(
        an, cfg.node(loop), [cfg.node(b) for b in binds])
    rep.ob("R13.8", "... and binds it in the generated query on every path",
           ok, fi=fi, node=apps[0],
           detail=(f"{len(binds)} `jq_query += ... as {{{var}}}` "
                   "statement(s); " + ("every path from the registration to "
                                       "the next alternative passes one"
                                       if ok else
                                       "some path reaches the next "
                                       "alternative without binding the "
                                       "variable (the alternative is "
                                       "answered from another one's "
                                       "value)")))
    for b in binds:
        used = {n.id for n in ast.walk(b.value) if isinstance(n, ast.Name)}
        gs = cguards(ctx, fi, b)
        keyed = any(g[0] == "cmp" and g[2] == "IsNot" and g[3] == "None"
                    for g in gs)
        need = set(tvars) if keyed else set(tvars[:1])
        # split_on_array etc. derive from key_path: follow one definition
        derived = set()
        for u in list(used):
            for bb in defs.of(u):
                if bb.value is not None:
                    derived |= {n.id for n in ast.walk(bb.value)
                                if isinstance(n, ast.Name)}
        rep.ob("R13.8", "the binding reads the alternative's own paths",
               need <= (used | derived), fi=fi, node=b,
               detail=f"needs {sorted(need)}, reads "
                      f"{sorted((used | derived) & set(tvars))}")


def r139(rep: Report, ctx: Ctx) -> None:
    """Mapping lists arrive through pydantic as *one-shot iterators* when the
    annotation is ``Iterable[..]``.  A normaliser that walks such a parameter
    twice sees it empty the second time: every fall-back group of the mapping
    silently normalises to ``()``."""
    rep.rule("R13.9", "a parameter annotated Iterable / Iterator is "
             "traversed at most once (or materialised first) in the mapping "
             "normalisers", 2)
    mod = ctx.index.module("json_config")
    CONSUMERS = {"tuple", "list", "set", "frozenset", "sorted", "iter",
                 "any", "all", "sum", "max", "min", "zip", "enumerate",
                 "map", "filter", "dict", "next"}
    checked = 0
    funcs = list(mod.functions.values()) + [
        m for c in mod.classes.values() for ms in c.methods.values()
        for m in ms]
    for fi in funcs:
        defs = ctx.defs(fi)
        cfg = ctx.cfg(fi)
        for a in fi.node.args.args + fi.node.args.kwonlyargs:
            ann = unparse(a.annotation) if a.annotation is not None else ""
            if not ("Iterable" in ann or "Iterator" in ann
                    or "Generator" in ann):
                continue
            name = a.arg
            if len(defs.of(name)) != 1:
                continue        # re-bound (e.g. materialised): not tracked
            sites = []
            pm = ctx.index.parents(fi)
            for n in ast.walk(fi.node):
                if not (isinstance(n, ast.Name) and n.id == name
                        and isinstance(n.ctx, ast.Load)):
                    continue
                par = pm.get(n)
                trav = (isinstance(par, (ast.For, ast.comprehension))
                        and par.iter is n) or (
                    isinstance(par, ast.Call) and n in par.args and (
                        dotted(par.func) or "").split(".")[-1] in CONSUMERS) \
                    or isinstance(par, ast.Starred)
                if trav:
                    nid = cfg.container(n)
                    if nid is not None:
                        sites.append((nid, n))
            twice = [(s1, s2) for i, (s1, _) in enumerate(sites)
                     for (s2, _) in sites[i + 1:]
                     if s2 in cfg.reachable(s1) or s1 in cfg.reachable(s2)]
            checked += 1
            rep.ob("R13.9", f"{fi.short}({name}: {ann[:30]})", not twice,
                   fi=fi, node=sites[-1][1] if sites else fi.node,
                   detail=(f"{len(sites)} traversal(s) of '{name}'"
                           + ("" if not twice else " on one path: an "
                              "iterator handed in by the config loader is "
                              "exhausted by the first traversal, the second "
                              "sees nothing")))
    if checked < 2:
        raise AnalysisError("json_config: no Iterable-annotated parameters "
                            "found")


# --------------------------------------------------------------------------
_SEQ = {"Sequence", "Iterable", "list", "tuple", "Iterator", "Collection",
        "List", "Tuple", "set", "frozenset", "Set", "MutableSequence"}


def _union_members(a: ast.AST) -> list[ast.AST]:
    if isinstance(a, ast.BinOp) and isinstance(a.op, ast.BitOr):
        return _union_members(a.left) + _union_members(a.right)
    if isinstance(a, ast.Subscript) and isinstance(a.value, ast.Name) \
            and a.value.id in ("Union", "Optional"):
        sl = a.slice
        els = sl.elts if isinstance(sl, ast.Tuple) else [sl]
        out = []
        for e in els:
            out += _union_members(e)
        return out
    if isinstance(a, ast.Constant) and isinstance(a.value, str):
        try:
            return _union_members(ast.parse(a.value, mode="eval").body)
        except SyntaxError:
            return [a]
    return [a]


def str_or_sequence_params(fi: FuncInfo) -> list[str]:
    """Parameters whose annotation admits a bare ``str`` AND a sequence."""
    out = []
    for arg in fi.node.args.args + fi.node.args.kwonlyargs:
        if arg.annotation is None:
            continue
        ms = _union_members(arg.annotation)
        has_str = any(isinstance(m, ast.Name) and m.id == "str" for m in ms)
        has_seq = any(isinstance(m, ast.Subscript) and isinstance(
            m.value, ast.Name) and m.value.id in _SEQ for m in ms) or any(
            isinstance(m, ast.Name) and m.id in _SEQ for m in ms)
        if has_str and has_seq:
            out.append(arg.arg)
    return out


def _is_str_test(t: ast.AST, name: str) -> bool:
    return isinstance(t, ast.Call) and call_name(t) == "isinstance" and \
        len(t.args) == 2 and isinstance(t.args[0], ast.Name) and \
        t.args[0].id == name and "str" in {
            n.id for n in ast.walk(t.args[1]) if isinstance(n, ast.Name)}


def r1311(rep: Report, ctx: Ctx) -> None:
    """The documented mapping forms allow a bare string wherever a list of
    alternatives is allowed (`key_paths: a.b`, `key_value: service.name`).
    A string is a sequence of its characters: a normaliser that traverses
    the value before it has dealt with the string case turns `service.name`
    into the alternatives 's', 'e', 'r', ... - every validation still
    passes and every record loses the field (seed C13-z).  Rule, for every
    parameter of the mapping normalisers whose annotation admits both `str`
    and a sequence: each traversal of the parameter (for / comprehension /
    zip / enumerate / iter / tuple / list / len / subscript) happens where
    the value cannot be a string any more - after `if isinstance(p, str):
    p = [p]`, in the else-arm of that test, or behind a guard clause that
    leaves for strings."""
    rep.rule("R13.11", "a mapping value that may be a bare string is not "
             "traversed as a sequence of characters", 4)
    n = 0
    for fi in ctx.index.all_functions():
        if "json_data_source" not in fi.module.relpath:
            continue
        for p in str_or_sequence_params(fi):
            rep.funcs_seen.add(fi.qualname)
            cfg = ctx.cfg(fi)
            uses: list[ast.AST] = []
            for x in ast.walk(fi.node):
                its: list[ast.AST] = []
                if isinstance(x, ast.For):
                    its = [x.iter]
                elif isinstance(x, ast.comprehension):
                    its = [x.iter]
                elif isinstance(x, ast.Call) and call_name(x) in (
                        "zip", "enumerate", "iter", "tuple", "list", "len",
                        "set", "sorted", "reversed", "map", "filter"):
                    its = list(x.args)
                elif isinstance(x, ast.Subscript):
                    its = [x.value]
                elif isinstance(x, ast.Starred):
                    its = [x.value]
                for it in its:
                    if isinstance(it, ast.Name) and it.id == p:
                        uses.append(x if not isinstance(
                            x, ast.comprehension) else it)
            # wraps: `if isinstance(p, str): p = <not p>` statements
            wraps = [st for st in ast.walk(fi.node) if isinstance(st, ast.If)
                     and _is_str_test(st.test, p) and any(
                         isinstance(a, ast.Assign) and any(
                             isinstance(t, ast.Name) and t.id == p
                             for t in a.targets) for a in st.body)
                     and not st.orelse]
            bad = []
            for u in uses:
                nid = cfg.node(u) if cfg.has(u) else cfg.container(u)
                if nid is None:
                    raise AnalysisError(f"{fi.qualname}: no CFG node for a "
                                        f"traversal of '{p}'")
                guarded = False
                for t, sense in cfg.controlling(nid):
                    core, pos = strip_not(t)
                    # `not isinstance(p, str)` holding == the test failing
                    if _is_str_test(core, p) and (sense != pos):
                        guarded = True
                wrapped = any(cfg.has(w) and cfg.dominates(cfg.node(w), nid)
                              and cfg.node(w) != nid for w in wraps)
                if not (guarded or wrapped):
                    bad.append(u)
            n += 1
            rep.ob("R13.11", f"{fi.short}({p}): traversed only where it is "
                   "not a string", not bad, fi=fi,
                   node=bad[0] if bad else fi.node,
                   detail=(f"{len(uses)} traversal(s), each behind the "
                           "string case" if not bad else
                           f"'{unparse(bad[0])[:60]}' runs although '{p}' "
                           "may still be a bare string: its characters "
                           "become the alternatives"))
    if n == 0:
        raise AnalysisError("no str-or-sequence parameter found in the "
                            "mapping normalisers")
