"""Table-driven effect obligations (see effspec.py) for the loop machinery
that the pinned test suite never executes (its test modules need the janus
package): what the loop node, the carved body and the rewired parent must
carry.  Every entry is a necessary condition of C07 ("complete, non-overlapping
nesting") and of C01 / C05 through it: evidence that is not copied is a
branch that is never drawn or a job that is rejected."""
from __future__ import annotations

import ast

from ..core import Report
from ..ctx import Ctx
from .effspec import before, effects, expect, only

LOOP_TYPES = "{each(P:loop.loop_events).event_type for..}"
NEW_LOOP = "LoopEvent(get_new_loop_event_type_from_graph(P:parent_graph)," \
           "P:sub_graph)"
OUTSIDE = "get_event_lists_to_add_from_event_not_within_loop"

# function -> list of (what, kind, name, recv, args, must, may, why)
TABLE: dict[str, list[tuple]] = {
    # ---- the loop node's own evidence
    "create_loop_event": [
        ("the loop node's predecessor sets come from the loop's start "
         "events", "call", "update_loop_event_in_event_sets", "",
         ("P:loop.start_events", NEW_LOOP, LOOP_TYPES), [], [], ""),
        ("the loop node's successor sets come from the loop's end AND break "
         "events", "call", "update_loop_event_out_event_sets", "",
         ("(P:loop.end_events BitOr P:loop.break_events)", NEW_LOOP,
          LOOP_TYPES), [], [],
         "exits through a break would have no successor set on the loop "
         "node: the events after a break are never drawn"),
        ("the loop node that received the evidence is the one returned",
         "ret", "", "", (NEW_LOOP,), [], [], ""),
    ],
    "update_loop_event_in_event_sets": [
        ("every outside predecessor set reaches the loop node", "call",
         "update_in_event_sets", "P:loop_event",
         ("each(get_loop_in_event_lists_not_within_loop(P:start_events,"
          "P:loop_event_types))",), [], [], ""),
    ],
    "update_loop_event_out_event_sets": [
        ("every outside successor set reaches the loop node", "call",
         "update_event_sets", "P:loop_event",
         ("each(get_loop_out_event_lists_not_within_loop(P:end_break_events,"
          "P:loop_event_types))",), [], [], ""),
    ],
    "get_loop_in_event_lists_not_within_loop": [
        ("predecessor sets (in_event_sets) of every start event", "call",
         "extend", "[]",
         (f"{OUTSIDE}(each(P:start_events).in_event_sets,"
          "P:loop_event_types)",), [], [], ""),
    ],
    "get_loop_out_event_lists_not_within_loop": [
        ("successor sets (event_sets) of every end / break event", "call",
         "extend", "[]",
         (f"{OUTSIDE}(each(P:end_break_events).event_sets,"
          "P:loop_event_types)",), [], [], ""),
    ],
    OUTSIDE: [
        ("exactly the sets that name no event of the loop, with "
         "multiplicities", "yield", "", "",
         ("each(P:event_sets).to_list()",),
         [("truth", "P:loop_event_types.intersection(each(P:event_sets)."
           "to_list())", "0")], [], ""),
    ],
    # ---- carving the body
    "remove_loop_edges": [
        ("exits of the end events to outside the loop are cut", "call",
         "remove_event_edges_and_event_sets", "",
         ("{EventEdge(*each(P:graph.out_edges(P:loop.end_events))) for.. "
          "if (each(P:graph.out_edges(P:loop.end_events))[1] NotIn "
          "P:loop.loop_events)}", "P:graph"), [], [], ""),
        ("everything after a break event is cut", "call",
         "remove_event_edges_and_event_sets", "",
         ("{EventEdge(*each(P:graph.out_edges(P:loop.break_events))) "
          "for..}", "P:graph"), [], [], ""),
        ("the loop-back edges are cut", "call",
         "remove_event_edges_and_event_sets", "",
         ("P:loop.edges_to_remove", "P:graph"), [], [], ""),
    ],
    "add_start_and_end_events_to_graph": [
        ("the dummy start is wired", "call", "add_start_event_to_graph", "",
         ("P:start_event", "P:loop", "P:graph"), [], [], ""),
        ("the dummy end is wired with the recorded exit fan-out", "call",
         "add_end_event_to_graph", "",
         ("P:end_event", "P:loop", "P:graph", "P:end_event_to_event_lists"),
         [], [], ""),
    ],
    "create_sub_graph_of_loop": [
        ("events of the copy that cannot get back into the loop are removed "
         "from the body", "call", "remove_nodes_from", "_G",
         ("_N",), [], [], ""),
    ],
    "create_end_event_to_event_lists_mapping": [
        ("for every end event: its successor sets with the outside "
         "successors replaced by the dummy end", "store", "",
         "{}[each(P:end_events)]",
         ("get_event_lists_with_loop_events(each(P:end_events).event_sets,"
          "{each(get_outnodes_not_in_set({each(P:end_events)},"
          "P:loop.loop_events,P:graph)).event_type for..},DUMMY_END_EVENT)",),
         [], [], ""),
    ],
}


_G = "deepcopy((P:loop,P:graph))[1]"
_L = "deepcopy((P:loop,P:graph))[0]"
_N = f"set(identify_nodes_without_path_back_to_chosen_nodes(set({_G}.nodes)," \
     f"{_L}.loop_events,{_G}))"


def _abbr(s: str) -> str:
    return s.replace("_N", _N).replace("_G", _G).replace("_L", _L)


def check_table(rep: Report, ctx: Ctx, rule: str,
                funcs: list[str]) -> None:
    from .effspec import check_table as _ct
    _ct(rep, ctx, rule, TABLE, funcs, _abbr)
