#!/usr/bin/env bash
# tools/try_seed.sh <patch.diff> [PROP ...]
# Applies a seeded change to /repo, runs the quick checks (all claimed
# properties, or the ones given), prints one line per check, and reverts.
set -u
patch="$1"; shift
props="${*:-C01 C04 C05 C07 C08 C09 C10 C11 C12 C13 C14 C15 C16}"
cd /verif
if ! git -C /repo diff --quiet; then echo "refusing: /repo has local changes"; exit 3; fi
git -C /repo apply "$patch" || { echo "patch does not apply"; exit 3; }
trap 'git -C /repo checkout -- . ' EXIT
ev=$(mktemp -d)
for p in $props; do
  out=$(./check "$p" --tier quick --evidence-dir "$ev" 2>&1); rc=$?
  echo "$p rc=$rc $(echo "$out" | grep -E '^  VIOLATED|ANALYSIS-ERROR' | head -3 | cut -c1-220 | tr '\n' '|')"
done
rm -rf "$ev"
