#!/usr/bin/env bash
# tools/seed_in.sh <PROP> <wave>   e.g. C16 c
# Confirms /tmp/seed/<PROP>_<wave> as seed <PROP>-<wave>, then runs every
# quick check against it.
p="$1"; w="$2"
cd /verif
tools/confirm_seed.sh /tmp/seed/${p}_${w} ${p}-${w} 2>&1 | grep -v "WARNING conda" | grep -E "^rc=|baseline passing|CONFIRMED|NOT CONFIRMED|does not apply"
[ -f /verif/seeded/${p}-${w}/patch.diff ] || exit 1
tools/try_seed.sh /verif/seeded/${p}-${w}/patch.diff 2>&1 | grep -v "WARNING conda" | grep -E "rc=[12]" || echo "   (no check fired)"
