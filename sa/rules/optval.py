"""Three-point abstract domain for an ``Optional[str]`` value: None, the
empty string, a non-empty string.  Expressions and branch tests over one
*subject* expression are evaluated on the three representatives by a small
interpreter over a whitelisted vocabulary (nothing of the repository is
executed); anything outside the vocabulary is an AnalysisError, never a
guess."""
from __future__ import annotations

import ast
from typing import Any

from ..core import AnalysisError, unparse

POINTS: tuple[Any, ...] = (None, "", "s")
NAMES = {None: "None", "": "''", "s": "'<id>'"}


class Raises(Exception):
    """The expression raises for this point (e.g. ``len(None)``)."""


def ev(e: ast.AST, subj: str, v: Any) -> Any:
    if unparse(e) == subj:
        return v
    if isinstance(e, ast.Constant):
        return e.value
    if isinstance(e, ast.BoolOp):
        r: Any = None
        for x in e.values:
            r = ev(x, subj, v)
            if isinstance(e.op, ast.Or) and r:
                return r
            if isinstance(e.op, ast.And) and not r:
                return r
        return r
    if isinstance(e, ast.UnaryOp) and isinstance(e.op, ast.Not):
        return not ev(e.operand, subj, v)
    if isinstance(e, ast.IfExp):
        return ev(e.body if ev(e.test, subj, v) else e.orelse, subj, v)
    if isinstance(e, (ast.Tuple, ast.List, ast.Set)):
        return [ev(x, subj, v) for x in e.elts]
    if isinstance(e, ast.Compare) and len(e.ops) == 1:
        l, r = ev(e.left, subj, v), ev(e.comparators[0], subj, v)
        op = e.ops[0]
        if isinstance(op, ast.Is):
            return l is r
        if isinstance(op, ast.IsNot):
            return l is not r
        if isinstance(op, ast.Eq):
            return l == r
        if isinstance(op, ast.NotEq):
            return l != r
        if isinstance(op, (ast.In, ast.NotIn)) and isinstance(r, list):
            return (l in r) == isinstance(op, ast.In)
        if isinstance(op, (ast.Gt, ast.GtE, ast.Lt, ast.LtE)) and \
                isinstance(l, int) and isinstance(r, int):
            return {ast.Gt: l > r, ast.GtE: l >= r, ast.Lt: l < r,
                    ast.LtE: l <= r}[type(op)]
    if isinstance(e, ast.Call) and not e.keywords:
        f = e.func
        if isinstance(f, ast.Name) and len(e.args) == 1:
            a = ev(e.args[0], subj, v)
            if f.id == "bool":
                return bool(a)
            if f.id == "len":
                if a is None:
                    raise Raises("len(None)")
                return len(a)
            if f.id == "str":
                return str(a)
            if f.id == "isinstance":
                pass
        if isinstance(f, ast.Attribute) and f.attr in ("strip", "lstrip",
                                                        "rstrip") \
                and not e.args:
            a = ev(f.value, subj, v)
            if a is None:
                raise Raises("None.strip()")
            return a
    raise AnalysisError(f"optional-string domain: '{unparse(e)[:60]}' is "
                        "outside the interpreter's vocabulary")


def table(e: ast.AST, subj: str) -> tuple[Any, ...]:
    """Value of ``e`` at each of the three points ('!' where it raises)."""
    out = []
    for v in POINTS:
        try:
            out.append(ev(e, subj, v))
        except Raises:
            out.append("!")
    return tuple(out)


def holds(tests: list[tuple[ast.AST, bool]], subj: str, v: Any) -> bool:
    """Conjunction of (test, sense) pairs at point ``v``."""
    for t, sense in tests:
        if bool(ev(t, subj, v)) != sense:
            return False
    return True


def show(vals: tuple[Any, ...]) -> str:
    return ", ".join(f"{NAMES[p]} -> {v!r}" for p, v in zip(POINTS, vals))
