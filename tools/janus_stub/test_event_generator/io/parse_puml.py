class EventData:
    pass


def get_unparsed_job_defs(*args, **kwargs):
    raise NotImplementedError("janus is not installed (stub)")


def parse_raw_job_def_lines(*args, **kwargs):
    raise NotImplementedError("janus is not installed (stub)")
