"""Harness for D8 triage.

usage: h.py [--fix] [--quiet] "A B A B Y" "A X X2 Y" ...
A job is either a linear sequence "A B C" or a DAG "a:A b:B<a c:C<a d:D<b,c"
(id:TYPE<prev,prev).  --fix monkeypatches the candidate fix in.
"""
import os
import sys
import uuid
import itertools
import signal

_cnt = itertools.count()


def _uuid4():
    return uuid.UUID(int=next(_cnt) + (1 << 100))


uuid.uuid4 = _uuid4

import tel2puml.utils as U  # noqa: E402
import tel2puml.loop_detection.calculate_updated_graph as CUG  # noqa: E402
import tel2puml.loop_detection.detect_loops as DL  # noqa: E402
from tel2puml.loop_detection.loop_types import EventEdge  # noqa: E402
from tel2puml.pv_to_puml.pv_to_puml import pv_to_puml_string  # noqa: E402

VIOLATIONS = []


def fixed_remove(nodes, loop_nodes, graph):
    unreachable = set(
        U.identify_nodes_without_path_back_to_chosen_nodes(
            set(nodes), loop_nodes, graph
        )
    )
    CUG.remove_event_sets_mirroring_removed_edges(
        set(EventEdge(*e) for e in graph.out_edges(unreachable))
    )
    graph.remove_nodes_from(unreachable)


def check_graph(graph, where):
    for node in graph.nodes:
        preds = {p.event_type for p in graph.predecessors(node)}
        succs = {s.event_type for s in graph.successors(node)}
        for es in node.in_event_sets:
            bad = set(es.to_frozenset()) - preds
            if bad:
                VIOLATIONS.append(
                    (where, node.event_type, "in", sorted(es.to_list()),
                     sorted(bad))
                )
        for es in node.event_sets:
            bad = set(es.to_frozenset()) - succs
            if bad:
                VIOLATIONS.append(
                    (where, node.event_type, "out", sorted(es.to_list()),
                     sorted(bad))
                )


_orig_calc = DL.calculate_updated_graph_with_loop_event


def _wrapped_calc(loop, loop_event, graph):
    g = _orig_calc(loop, loop_event, graph)
    check_graph(g, "after_calc:" + loop_event.event_type)
    return g


DL.calculate_updated_graph_with_loop_event = _wrapped_calc


def set_fix(on):
    CUG.remove_nodes_without_path_back_to_loop = (
        fixed_remove if on else U.remove_nodes_without_path_back_to_loop
    )


def parse_job(jid, spec, name="J"):
    toks = spec.split()
    evs = []
    if any(":" in t for t in toks):
        for i, t in enumerate(toks):
            ident, rest = t.split(":")
            if "<" in rest:
                typ, prevs = rest.split("<")
                prevs = [f"{jid}-{p}" for p in prevs.split(",")]
            else:
                typ, prevs = rest, []
            evs.append(dict(
                jobId=jid, jobName=name, eventId=f"{jid}-{ident}",
                eventType=typ,
                timestamp=f"2024-01-01T00:{i // 60:02d}:{i % 60:02d}.000000Z",
                applicationName="app", previousEventIds=prevs))
    else:
        prev = None
        for i, t in enumerate(toks):
            eid = f"{jid}-{i}"
            evs.append(dict(
                jobId=jid, jobName=name, eventId=eid, eventType=t,
                timestamp=f"2024-01-01T00:{i // 60:02d}:{i % 60:02d}.000000Z",
                applicationName="app",
                previousEventIds=[prev] if prev else []))
            prev = eid
    return evs


class Timeout(Exception):
    pass


def _alarm(*a):
    raise Timeout()


def run(specs, fix=False, timeout=20):
    global _cnt
    _cnt = itertools.count()
    VIOLATIONS.clear()
    set_fix(fix)
    stream = [parse_job(f"j{k}", s) for k, s in enumerate(specs)]
    signal.signal(signal.SIGALRM, _alarm)
    signal.alarm(timeout)
    try:
        out = pv_to_puml_string(stream)
        return ("ok", out, list(VIOLATIONS))
    except Timeout:
        return ("timeout", "", list(VIOLATIONS))
    except BaseException as e:  # noqa
        import traceback
        tb = traceback.extract_tb(e.__traceback__)[-1]
        return ("exc", f"{type(e).__name__}: {e} @ {tb.filename.split('/')[-1]}:{tb.lineno} {tb.name}", list(VIOLATIONS))
    finally:
        signal.alarm(0)


if __name__ == "__main__":
    args = sys.argv[1:]
    fix = "--fix" in args
    quiet = "--quiet" in args
    both = "--both" in args
    specs = [a for a in args if not a.startswith("--")]
    if both:
        r0 = run(specs, False)
        r1 = run(specs, True)
        print("ORIG", r0[0], "viol", r0[2])
        print(r0[1])
        print("FIX ", r1[0], "viol", r1[2])
        print("SAME" if r0[:2] == r1[:2] else r1[1])
    else:
        st, out, viol = run(specs, fix)
        print(st, "violations:", viol)
        if not quiet:
            print(out)
