"""E2 -- per-function statement CFG, dominators, must-pass-through.

Nodes are statements (for compound statements: the header -- the test of an
``if``/``while``, the iterator of a ``for``, the items of a ``with``, the
subject of a ``match``; ``try`` has a marker node).  Three synthetic nodes:
ENTRY, EXIT (normal return / fall off the end) and RAISE (explicit ``raise``
not caught in the function).

Exceptional control flow is modelled for explicit ``raise`` and for every
statement inside a ``try`` body (edge to each handler).  Implicit exceptions
outside a ``try`` leave the function and are irrelevant to rules about
normally-returning paths.  ``finally`` bodies are placed on the normal
continuation and on the exceptional exit of the try statement.
"""
from __future__ import annotations

import ast
from dataclasses import dataclass, field
from typing import Iterable, Optional

ENTRY, EXIT, RAISE = 0, 1, 2


@dataclass
class Node:
    id: int
    stmt: Optional[ast.AST]
    label: str


@dataclass
class _Ctx:
    breaks: list[set[int]] = field(default_factory=list)
    continues: list[int] = field(default_factory=list)
    handlers: list[list[int]] = field(default_factory=list)


class CFG:
    def __init__(self, func: ast.FunctionDef) -> None:
        self.func = func
        self.nodes: list[Node] = [
            Node(ENTRY, None, "ENTRY"), Node(EXIT, None, "EXIT"),
            Node(RAISE, None, "RAISE")]
        self.succ: dict[int, set[int]] = {0: set(), 1: set(), 2: set()}
        self.pred: dict[int, set[int]] = {0: set(), 1: set(), 2: set()}
        self.of_stmt: dict[int, int] = {}       # id(ast stmt) -> node id
        self.cond_edges: dict[tuple[int, int], tuple[ast.AST, bool]] = {}
        self.exc_edges: set[tuple[int, int]] = set()
        self.enclosing: dict[int, list[ast.AST]] = {}  # node -> stmt stack
        self._stack: list[ast.AST] = []
        ctx = _Ctx()
        outs = self._block(func.body, {ENTRY}, ctx)
        for o in outs:
            self._edge(o, EXIT)
        self._dom: Optional[dict[int, set[int]]] = None
        self._pdom: Optional[dict[int, set[int]]] = None

    # -- construction ---------------------------------------------------------
    def _new(self, stmt: ast.AST, label: str) -> int:
        nid = len(self.nodes)
        self.nodes.append(Node(nid, stmt, label))
        self.succ[nid] = set()
        self.pred[nid] = set()
        self.of_stmt.setdefault(id(stmt), nid)
        self.enclosing[nid] = list(self._stack)
        return nid

    def _edge(self, a: int, b: int) -> None:
        self.succ[a].add(b)
        self.pred[b].add(a)

    def _link(self, preds: Iterable[int], nid: int) -> None:
        for p in preds:
            self._edge(p, nid)

    def _may_raise_to(self, nid: int, ctx: _Ctx) -> None:
        if ctx.handlers:
            for h in ctx.handlers[-1]:
                self._edge(nid, h)
                self.exc_edges.add((nid, h))

    def _block(self, stmts: list[ast.stmt], preds: set[int], ctx: _Ctx
               ) -> set[int]:
        cur = set(preds)
        for st in stmts:
            cur = self._stmt(st, cur, ctx)
        return cur

    def _stmt(self, st: ast.stmt, preds: set[int], ctx: _Ctx) -> set[int]:
        if isinstance(st, ast.If):
            n = self._new(st, "if")
            self._link(preds, n)
            self._may_raise_to(n, ctx)
            self._stack.append(st)
            t_entry_marker = len(self.nodes)
            t_out = self._block(st.body, {n}, ctx)
            self._tag_branch(n, t_entry_marker, st.test, True)
            f_entry_marker = len(self.nodes)
            if st.orelse:
                f_out = self._block(st.orelse, {n}, ctx)
                self._tag_branch(n, f_entry_marker, st.test, False)
            else:
                # synthetic node for the implicit empty else-arm, so that the
                # fall-through edge carries the negated test (guard clauses:
                # ``if not c: continue`` makes what follows conditional on c)
                e = self._new(ast.Pass(), "else")
                self._edge(n, e)
                self.cond_edges[(n, e)] = (st.test, False)
                f_out = {e}
            self._stack.pop()
            return t_out | f_out
        if isinstance(st, (ast.For, ast.AsyncFor, ast.While)):
            n = self._new(st, "loop")
            self._link(preds, n)
            self._may_raise_to(n, ctx)
            ctx.breaks.append(set())
            ctx.continues.append(n)
            self._stack.append(st)
            body_out = self._block(st.body, {n}, ctx)
            self._stack.pop()
            self._link(body_out, n)
            ctx.continues.pop()
            brk = ctx.breaks.pop()
            infinite = (isinstance(st, ast.While)
                        and isinstance(st.test, ast.Constant)
                        and bool(st.test.value))
            normal_exit: set[int] = set() if infinite else {n}
            if st.orelse:
                normal_exit = self._block(st.orelse, normal_exit, ctx)
            return normal_exit | brk
        if isinstance(st, (ast.With, ast.AsyncWith)):
            n = self._new(st, "with")
            self._link(preds, n)
            self._may_raise_to(n, ctx)
            self._stack.append(st)
            out = self._block(st.body, {n}, ctx)
            self._stack.pop()
            return out
        if isinstance(st, ast.Try) or st.__class__.__name__ == "TryStar":
            n = self._new(st, "try")
            self._link(preds, n)
            handler_entries: list[int] = []
            for h in st.handlers:
                hn = self._new(h, "except")
                handler_entries.append(hn)
            self._edge(n, n)  # placeholder removed below
            self.succ[n].discard(n)
            self.pred[n].discard(n)
            ctx.handlers.append(handler_entries)
            self._stack.append(st)
            first_body = len(self.nodes)
            body_out = self._block(st.body, {n}, ctx)
            last_body = len(self.nodes)
            ctx.handlers.pop()
            # any statement of the body may raise into each handler
            for h in handler_entries:
                self._edge(n, h)
                self.exc_edges.add((n, h))
                for b in range(first_body, last_body):
                    if b not in handler_entries:
                        self._edge(b, h)
                        self.exc_edges.add((b, h))
            else_out = (self._block(st.orelse, body_out, ctx)
                        if st.orelse else body_out)
            outs = set(else_out)
            for h, hn in zip(st.handlers, handler_entries):
                self._stack.append(h)
                outs |= self._block(h.body, {hn}, ctx)
                self._stack.pop()
            self._stack.pop()
            if st.finalbody:
                outs = self._block(st.finalbody, outs, ctx)
            return outs
        if isinstance(st, ast.Match):
            n = self._new(st, "match")
            self._link(preds, n)
            outs: set[int] = set()
            exhaustive = False
            self._stack.append(st)
            for case in st.cases:
                outs |= self._block(case.body, {n}, ctx)
                if isinstance(case.pattern, ast.MatchAs) \
                        and case.pattern.pattern is None and case.guard is None:
                    exhaustive = True
            self._stack.pop()
            if not exhaustive:
                outs.add(n)
            return outs
        if isinstance(st, ast.Return):
            n = self._new(st, "return")
            self._link(preds, n)
            self._may_raise_to(n, ctx)
            self._edge(n, EXIT)
            return set()
        if isinstance(st, ast.Raise):
            n = self._new(st, "raise")
            self._link(preds, n)
            if ctx.handlers:
                for h in ctx.handlers[-1]:
                    self._edge(n, h)
            else:
                self._edge(n, RAISE)
            return set()
        if isinstance(st, ast.Break):
            n = self._new(st, "break")
            self._link(preds, n)
            if ctx.breaks:
                ctx.breaks[-1].add(n)
            return set()
        if isinstance(st, ast.Continue):
            n = self._new(st, "continue")
            self._link(preds, n)
            if ctx.continues:
                self._edge(n, ctx.continues[-1])
            return set()
        # simple statement (incl. nested def/class: one node)
        n = self._new(st, "stmt")
        self._link(preds, n)
        self._may_raise_to(n, ctx)
        return {n}

    def _tag_branch(self, test_node: int, first_new: int, test: ast.AST,
                    sense: bool) -> None:
        for s in self.succ[test_node]:
            if s >= first_new and (test_node, s) not in self.cond_edges:
                self.cond_edges[(test_node, s)] = (test, sense)

    # -- queries ------------------------------------------------------------
    def node(self, stmt: ast.AST) -> int:
        return self.of_stmt[id(stmt)]

    def has(self, stmt: ast.AST) -> bool:
        return id(stmt) in self.of_stmt

    def stmt_nodes(self) -> list[Node]:
        return self.nodes[3:]

    def container(self, sub: ast.AST) -> Optional[int]:
        """CFG node of the statement that contains the expression ``sub``
        (the innermost statement header that owns it)."""
        best: Optional[int] = None
        for nd in self.nodes[3:]:
            st = nd.stmt
            for part in _header_parts(st):
                for x in ast.walk(part):
                    if x is sub:
                        best = nd.id
            if best is not None:
                return best
        return None

    def reachable(self, src: int, blocked: Iterable[int] = (),
                  forward: bool = True) -> set[int]:
        blk = set(blocked)
        out: set[int] = set()
        todo = [src]
        adj = self.succ if forward else self.pred
        while todo:
            x = todo.pop()
            if x in out or (x in blk and x != src):
                continue
            out.add(x)
            todo.extend(adj[x])
        return out

    def every_path_passes(self, src: int, dst: int, through: Iterable[int]
                          ) -> bool:
        """True iff every path src -> dst contains a node of ``through``
        (vacuously true when dst is unreachable from src)."""
        th = set(through)
        if src in th or dst in th:
            return True
        return dst not in self.reachable(src, th)

    def every_path_defines(self, src: int, dst: int, defs: Iterable[int]
                           ) -> bool:
        """Like every_path_passes, but a definition statement that is left
        through an *exceptional* edge has not taken effect: such edges are
        still followed out of a definition node."""
        dn = set(defs)
        if dst in dn:
            return True
        seen: set[int] = set()
        todo = [src]
        while todo:
            x = todo.pop()
            if x in seen:
                continue
            seen.add(x)
            if x == dst:
                return False
            for y in self.succ[x]:
                if x in dn and x != src and (x, y) not in self.exc_edges:
                    continue
                todo.append(y)
        return True

    def dominators(self) -> dict[int, set[int]]:
        if self._dom is None:
            self._dom = _dominators(self.succ, self.pred, ENTRY,
                                    len(self.nodes))
        return self._dom

    def postdominators(self) -> dict[int, set[int]]:
        """Post-dominators w.r.t. the normal EXIT."""
        if self._pdom is None:
            self._pdom = _dominators(self.pred, self.succ, EXIT,
                                     len(self.nodes))
        return self._pdom

    def dominates(self, a: int, b: int) -> bool:
        return a in self.dominators().get(b, set())

    def postdominates(self, a: int, b: int) -> bool:
        return a in self.postdominators().get(b, set())

    def controlling(self, nid: int) -> list[tuple[ast.AST, bool]]:
        """Branch tests (with sense) that hold whenever control reaches the
        node: conditional edges ``u -> v`` whose target ``v`` dominates the
        node.  Unlike the lexical ``path_condition`` this sees guard clauses
        (``if not c: return`` / ``continue`` / ``raise``).  Outermost
        first."""
        dom = self.dominators()
        out = []
        for (u, v), (test, sense) in self.cond_edges.items():
            # v is entered only through this edge (other predecessors are
            # back edges of a loop headed by v)
            if v in dom.get(nid, set()) and all(
                    p == u or v in dom.get(p, set()) for p in self.pred[v]):
                out.append((len(dom.get(v, set())), test, sense))
        out.sort(key=lambda t: t[0])
        return [(t, s) for _, t, s in out]

    def path_condition(self, nid: int) -> list[tuple[ast.AST, bool]]:
        """Branch tests (with sense) of the ``if`` statements lexically
        enclosing the node -- the syntactic path condition."""
        out: list[tuple[ast.AST, bool]] = []
        target = self.nodes[nid].stmt
        for enc in self.enclosing.get(nid, []):
            if isinstance(enc, ast.If):
                in_body = any(target is x or _contains(x, target)
                              for x in enc.body)
                out.append((enc.test, in_body))
        return out


def _contains(tree: ast.AST, target: Optional[ast.AST]) -> bool:
    return any(x is target for x in ast.walk(tree))


def _header_parts(st: Optional[ast.AST]) -> list[ast.AST]:
    if st is None:
        return []
    if isinstance(st, (ast.If, ast.While)):
        return [st.test]
    if isinstance(st, (ast.For, ast.AsyncFor)):
        return [st.target, st.iter]
    if isinstance(st, (ast.With, ast.AsyncWith)):
        return list(st.items)
    if isinstance(st, ast.Try):
        return []
    if isinstance(st, ast.ExceptHandler):
        return [st.type] if st.type is not None else []
    if isinstance(st, ast.Match):
        return [st.subject]
    if isinstance(st, (ast.FunctionDef, ast.AsyncFunctionDef, ast.ClassDef)):
        return []
    return [st]


def _dominators(succ: dict[int, set[int]], pred: dict[int, set[int]],
                entry: int, n: int) -> dict[int, set[int]]:
    # nodes reachable from entry
    reach: set[int] = set()
    todo = [entry]
    while todo:
        x = todo.pop()
        if x in reach:
            continue
        reach.add(x)
        todo.extend(succ[x])
    dom: dict[int, set[int]] = {x: set(reach) for x in reach}
    dom[entry] = {entry}
    changed = True
    order = sorted(reach)
    while changed:
        changed = False
        for x in order:
            if x == entry:
                continue
            ps = [dom[p] for p in pred[x] if p in reach]
            new = set.intersection(*ps) if ps else set()
            new = new | {x}
            if new != dom[x]:
                dom[x] = new
                changed = True
    return dom


def toplevel_stmt_of(func: ast.FunctionDef, sub: ast.AST) -> Optional[ast.stmt]:
    """The top-level statement of ``func`` whose subtree contains ``sub``."""
    for st in func.body:
        if st is sub or _contains(st, sub):
            return st
    return None
