#!/usr/bin/env bash
# tools/confirm_seed.sh <worktree> <seed-id>
# Confirms a seeded change in its scratch worktree: demo passes without the
# patch, fails with it, pinned suite unchanged with it.  On success copies
# patch.diff, the demonstration and meta.json to /verif/seeded/<seed-id>/.
set -u
wt="$1"; id="$2"
cd "$wt" || exit 3
patch="$wt/_seed/patch.diff"
cmd=$(/venv/bin/python -c "import json,sys; print(json.load(open('$wt/_seed/meta.json'))['how_to_run_demo'])")
git checkout -q -- tel2puml
echo "== demo WITHOUT the change"; ( eval "$cmd" ) >/tmp/confirm_$id.orig.log 2>&1; rc0=$?; echo "rc=$rc0"
git apply "$patch" || { echo "patch does not apply"; exit 3; }
echo "== demo WITH the change"; ( eval "$cmd" ) >/tmp/confirm_$id.mut.log 2>&1; rc1=$?; echo "rc=$rc1"
echo "== pinned suite WITH the change"
/venv/bin/python -m pytest -ra -q -p no:cacheprovider --timeout=900 --continue-on-collection-errors --junitxml=/tmp/confirm_$id.xml >/tmp/confirm_$id.pytest.log 2>&1
/venv/bin/python - /tmp/confirm_$id.xml <<'PY'
import json, sys, xml.etree.ElementTree as ET
b = json.load(open('/root/.vp/BASELINE.json'))
res = {}
for tc in ET.parse(sys.argv[1]).iter('testcase'):
    res[f"{tc.get('classname')}::{tc.get('name')}"] = not any(
        c.tag in ('failure', 'error', 'skipped') for c in tc)
missing = [n for n in b['stable_pass'] if not res.get(n)]
print(f"baseline passing with the change: {len(b['stable_pass'])-len(missing)}/{len(b['stable_pass'])} missing={missing}")
sys.exit(1 if missing else 0)
PY
rc2=$?
tail -1 /tmp/confirm_$id.pytest.log
if [ $rc0 -eq 0 ] && [ $rc1 -ne 0 ] && [ $rc2 -eq 0 ]; then
  mkdir -p /verif/seeded/$id
  cp "$patch" /verif/seeded/$id/patch.diff
  for f in "$wt"/_seed/*; do case "$f" in *patch.diff) ;; *) cp -r "$f" /verif/seeded/$id/ ;; esac; done
  echo "CONFIRMED -> /verif/seeded/$id"
else
  echo "NOT CONFIRMED (orig rc=$rc0, mutated rc=$rc1, suite rc=$rc2)"; exit 1
fi
rm -f /tmp/confirm_$id.*
