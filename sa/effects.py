"""E4 -- effect channels: who produces a marking, who consumes it, and local
receiver-class inference good enough to keep same-named attributes of
different classes apart.

A *marking* is a fact one phase records on an object for a later phase.
Sites are discovered on the current tree by AST patterns (never a frozen
list of functions):

* ``enum:<Enum>.<MEMBER>``   producer: the member passed to a call
  (``x.update_event_types(PUMLEvent.M)``) or placed in a value stored into an
  attribute (``x.event_types = (*y, PUMLEvent.M)``) outside a constructor
  default; consumer: ``PUMLEvent.M in <expr>`` tests.
* ``flag:<attr>``            producer: the constant ``True`` stored through a
  subscript / attribute of ``<x>.<attr>`` (``x.is_loop_kill_path[i] = True``);
  consumer: any other read of ``.<attr>``.
* ``attr:<Class>.<attr>``    producer: a store to ``<x>.<attr>`` outside the
  class's own ``__init__``/property setter, or a mutating container call on
  it outside ``__init__``; consumer: reads of ``<x>.<attr>`` -- the receiver
  class decided by :func:`recv_class`.
* ``inst:<Class>``           producer: ``Class(...)`` constructions;
  consumer: ``isinstance(x, Class)`` tests.
"""
from __future__ import annotations

import ast
from dataclasses import dataclass, field
from typing import Iterable, Optional

from .callgraph import CallGraph
from .core import ClassInfo, FuncInfo, Index, dotted, unparse

MUTATING_CONTAINER_CALLS = {
    "add", "update", "discard", "remove", "clear", "pop", "append", "extend",
    "insert", "difference_update", "intersection_update",
    "symmetric_difference_update", "setdefault", "popitem", "sort",
    "reverse",
}
NX_MUTATORS = {
    "add_edge", "add_edges_from", "add_node", "add_nodes_from", "remove_node",
    "remove_nodes_from", "remove_edge", "remove_edges_from", "clear",
    "add_puml_node", "add_puml_edge",
}


@dataclass
class Site:
    fi: FuncInfo
    node: ast.AST
    what: str


@dataclass
class Channel:
    name: str
    producers: list[Site] = field(default_factory=list)
    consumers: list[Site] = field(default_factory=list)

    def producer_funcs(self) -> set[str]:
        return {s.fi.qualname for s in self.producers}

    def consumer_funcs(self) -> set[str]:
        return {s.fi.qualname for s in self.consumers}


# --------------------------------------------------------------------------
# receiver class inference
# --------------------------------------------------------------------------

class TypeInfer:
    def __init__(self, index: Index) -> None:
        self.index = index
        self._decl: dict[str, list[ClassInfo]] = {}
        for clss in index.classes.values():
            for c in clss:
                for a in self._declared_attrs(c):
                    self._decl.setdefault(a, []).append(c)

    @staticmethod
    def _declared_attrs(c: ClassInfo) -> set[str]:
        out: set[str] = set()
        for ms in c.methods.values():
            for m in ms:
                if m.is_property_getter:
                    out.add(m.name)
                if m.name == "__init__":
                    for n in ast.walk(m.node):
                        if isinstance(n, ast.Attribute) and isinstance(
                                n.ctx, ast.Store) and isinstance(
                                n.value, ast.Name) and n.value.id == "self":
                            out.add(n.attr)
        for name, _ in c.fields():
            out.add(name)
        return out

    def declaring(self, attr: str) -> list[ClassInfo]:
        return self._decl.get(attr, [])

    def _ann(self, fi: FuncInfo, ann: Optional[ast.AST], elem: bool = False
             ) -> Optional[ClassInfo]:
        """Class named by an annotation; with ``elem`` the element class of
        a container annotation."""
        if ann is None:
            return None
        if isinstance(ann, ast.Constant) and isinstance(ann.value, str):
            try:
                ann = ast.parse(ann.value, mode="eval").body
            except SyntaxError:
                return None
        if isinstance(ann, ast.Subscript):
            base = (dotted(ann.value) or "").split(".")[-1]
            if base in ("Optional",):
                return self._ann(fi, ann.slice, elem)
            if base in ("list", "set", "Iterable", "Sequence", "frozenset",
                        "Generator", "Iterator", "DiGraph", "List", "Set"):
                if not elem:
                    return None
                inner = ann.slice
                if isinstance(inner, ast.Tuple) and inner.elts:
                    inner = inner.elts[0]
                return self._ann(fi, inner, False)
            return None
        if isinstance(ann, ast.BinOp) and isinstance(ann.op, ast.BitOr):
            a = self._ann(fi, ann.left, elem)
            b = self._ann(fi, ann.right, elem)
            if a and b:
                # a union of a class and its subclass: the subclass adds
                # attributes; report the common base
                if a in b.mro():
                    return a
                if b in a.mro():
                    return b
                return None
            return a or b
        if elem:
            return None
        if isinstance(ann, ast.Name):
            return self.index.resolve_class(fi.module, ann.id)
        if isinstance(ann, ast.Attribute):
            return self.index.resolve_class(fi.module, ann.attr)
        return None

    def recv_class(self, fi: FuncInfo, expr: ast.AST, attr: str,
                   at: Optional[ast.AST] = None) -> Optional[ClassInfo]:
        """Class of the object ``expr`` whose attribute ``attr`` is
        accessed, among the classes that declare ``attr``."""
        decl = self.declaring(attr)
        if not decl:
            return None

        def pick(c: Optional[ClassInfo]) -> Optional[ClassInfo]:
            if c is None:
                return None
            for d in decl:
                if d in c.mro():
                    return d
            # attr declared on a subclass of the static type
            subs = [d for d in decl if c in d.mro()]
            return subs[0] if len(subs) == 1 else None

        if isinstance(expr, ast.Name):
            if expr.id == "self" and fi.cls is not None:
                return pick(fi.cls)
            # isinstance narrowing on the path to the access
            if at is not None:
                c = self._narrowed(fi, expr.id, at)
                if c is not None:
                    return pick(c) or None
            c = self._name_class(fi, expr.id, set())
            got = pick(c)
            if got is not None:
                return got
        if isinstance(expr, ast.Call) and isinstance(expr.func, ast.Name):
            got = self.index.resolve_name(fi.module, expr.func.id)
            if isinstance(got, ClassInfo):
                return pick(got)
        # fallback: the only declaring class visible in this module
        vis = [d for d in decl if d.module is fi.module
               or any(self.index.resolve_class(fi.module, n) is d
                      for n in fi.module.imports)]
        if len(vis) == 1:
            return vis[0]
        if fi.cls is not None:
            own = [d for d in decl if d.module is fi.module]
            if len(own) == 1:
                return own[0]
        return None

    def _narrowed(self, fi: FuncInfo, name: str, at: ast.AST
                  ) -> Optional[ClassInfo]:
        pm = self.index.parents(fi)
        cur: Optional[ast.AST] = at
        while cur is not None and cur is not fi.node:
            par = pm.get(cur)
            tests: list[ast.AST] = []
            if isinstance(par, ast.If) and cur in par.body:
                tests.append(par.test)
            if isinstance(par, (ast.ListComp, ast.SetComp, ast.GeneratorExp,
                                ast.DictComp)):
                for g in par.generators:
                    tests.extend(g.ifs)
            if isinstance(par, ast.BoolOp) and isinstance(par.op, ast.And):
                i = par.values.index(cur) if cur in par.values else 0
                tests.extend(par.values[:i])
            if isinstance(par, ast.IfExp) and cur is par.body:
                tests.append(par.test)
            for t in tests:
                for c in ast.walk(t):
                    if isinstance(c, ast.Call) and dotted(c.func) == \
                            "isinstance" and len(c.args) == 2 and isinstance(
                            c.args[0], ast.Name) and c.args[0].id == name \
                            and isinstance(c.args[1], ast.Name):
                        k = self.index.resolve_class(fi.module, c.args[1].id)
                        if k is not None:
                            return k
            cur = par
        return None

    def _name_class(self, fi: FuncInfo, name: str, seen: set[str]
                    ) -> Optional[ClassInfo]:
        if name in seen:
            return None
        seen = seen | {name}
        a = fi.node.args
        for p in a.posonlyargs + a.args + a.kwonlyargs:
            if p.arg == name:
                return self._ann(fi, p.annotation)
        for n in ast.walk(fi.node):
            if isinstance(n, ast.AnnAssign) and isinstance(n.target, ast.Name) \
                    and n.target.id == name:
                c = self._ann(fi, n.annotation)
                if c is not None:
                    return c
            if isinstance(n, ast.Assign) and any(
                    isinstance(t, ast.Name) and t.id == name
                    for t in n.targets) and isinstance(n.value, ast.Call) \
                    and isinstance(n.value.func, ast.Name):
                got = self.index.resolve_name(fi.module, n.value.func.id)
                if isinstance(got, ClassInfo):
                    return got
            if isinstance(n, (ast.For, ast.comprehension)):
                tgt, it = n.target, n.iter
                c = self._loop_elem(fi, tgt, it, name, seen)
                if c is not None:
                    return c
        return None

    def _loop_elem(self, fi: FuncInfo, tgt: ast.AST, it: ast.AST, name: str,
                   seen: set[str]) -> Optional[ClassInfo]:
        idx: Optional[int] = None
        if isinstance(tgt, ast.Name) and tgt.id == name:
            idx = -1
        elif isinstance(tgt, ast.Tuple):
            for i, e in enumerate(tgt.elts):
                if isinstance(e, ast.Name) and e.id == name:
                    idx = i
        if idx is None:
            return None
        if isinstance(it, ast.Name):
            # element type from the iterable's annotation or defining
            # comprehension
            ann = self._name_annotation(fi, it.id)
            if ann is not None:
                c = self._elem_of(fi, ann, idx)
                if c is not None:
                    return c
            for n in ast.walk(fi.node):
                if isinstance(n, ast.Assign) and any(
                        isinstance(t, ast.Name) and t.id == it.id
                        for t in n.targets) and isinstance(
                        n.value, (ast.ListComp, ast.SetComp)) and idx == -1:
                    comp = n.value
                    if isinstance(comp.elt, ast.Name):
                        for g in comp.generators:
                            for t in g.ifs:
                                for c in ast.walk(t):
                                    if isinstance(c, ast.Call) and dotted(
                                            c.func) == "isinstance" and len(
                                            c.args) == 2 and isinstance(
                                            c.args[0], ast.Name) \
                                            and c.args[0].id == comp.elt.id \
                                            and isinstance(c.args[1], ast.Name):
                                        return self.index.resolve_class(
                                            fi.module, c.args[1].id)
        if isinstance(it, ast.Attribute) and it.attr in ("nodes",) \
                and isinstance(it.value, ast.Name):
            ann = self._name_annotation(fi, it.value.id)
            if ann is not None:
                return self._ann(fi, ann, elem=True)
        return None

    def _name_annotation(self, fi: FuncInfo, name: str) -> Optional[ast.AST]:
        a = fi.node.args
        for p in a.posonlyargs + a.args + a.kwonlyargs:
            if p.arg == name:
                return p.annotation
        for n in ast.walk(fi.node):
            if isinstance(n, ast.AnnAssign) and isinstance(n.target, ast.Name) \
                    and n.target.id == name:
                return n.annotation
        return None

    def _elem_of(self, fi: FuncInfo, ann: ast.AST, idx: int
                 ) -> Optional[ClassInfo]:
        if isinstance(ann, ast.Constant) and isinstance(ann.value, str):
            try:
                ann = ast.parse(ann.value, mode="eval").body
            except SyntaxError:
                return None
        if not isinstance(ann, ast.Subscript):
            return None
        inner = ann.slice
        if idx == -1:
            return self._ann(fi, inner)
        if isinstance(inner, ast.Subscript) and (dotted(inner.value) or ""
                                                 ).split(".")[-1] == "tuple":
            elts = inner.slice.elts if isinstance(inner.slice, ast.Tuple) \
                else []
            if idx < len(elts):
                return self._ann(fi, elts[idx])
        return None


# --------------------------------------------------------------------------
# channel discovery
# --------------------------------------------------------------------------

def enum_channels(index: Index, enum_name: str) -> dict[str, Channel]:
    out: dict[str, Channel] = {}
    for fi in index.all_functions():
        pm = index.parents(fi)
        for n in ast.walk(fi.node):
            if not (isinstance(n, ast.Attribute) and isinstance(
                    n.value, ast.Name) and n.value.id == enum_name):
                continue
            ch = out.setdefault(n.attr, Channel(f"enum:{enum_name}.{n.attr}"))
            par = pm.get(n)
            if isinstance(par, ast.Compare) and par.left is n and any(
                    isinstance(o, (ast.In, ast.NotIn)) for o in par.ops):
                ch.consumers.append(Site(fi, par, unparse(par)[:70]))
                continue
            # producer: passed to a call / stored into an attribute
            cur: ast.AST = n
            role = None
            while cur is not fi.node:
                p = pm.get(cur)
                if p is None:
                    break
                if isinstance(p, ast.Call) and cur in p.args:
                    role = ("call", p)
                    break
                if isinstance(p, ast.Assign) and any(
                        isinstance(t, ast.Attribute) for t in p.targets):
                    role = ("store", p)
                    break
                if isinstance(p, (ast.Tuple, ast.List, ast.Set, ast.Starred)):
                    cur = p
                    continue
                break
            if role is not None:
                kind, node = role
                # constructor defaults are not phase markings
                if fi.name == "__init__" or (
                        kind == "call" and (dotted(node.func) or ""
                                            ).split(".")[-1] in ("zip",)):
                    continue
                ch.producers.append(Site(fi, node, unparse(node)[:70]))
    return out


def flag_channel(index: Index, attr: str) -> Channel:
    ch = Channel(f"flag:{attr}")
    for fi in index.all_functions():
        pm = index.parents(fi)
        for n in ast.walk(fi.node):
            if not (isinstance(n, ast.Attribute) and n.attr == attr):
                continue
            par = pm.get(n)
            if isinstance(par, ast.Subscript) and isinstance(
                    par.ctx, ast.Store):
                st = pm.get(par)
                if isinstance(st, ast.Assign) and isinstance(
                        st.value, ast.Constant) and st.value.value is True:
                    ch.producers.append(Site(fi, st, unparse(st)[:70]))
                    continue
                if isinstance(st, ast.Assign):
                    # derived flag (e.g. from all_paths_are_loop_kill()):
                    # re-packaging, neither producer nor consumer
                    continue
            if isinstance(n.ctx, ast.Load):
                # structural re-packaging (x.flag.append(False)) is neither
                # a producer nor a consumer
                if isinstance(par, ast.Attribute) and par.attr in \
                        MUTATING_CONTAINER_CALLS and isinstance(
                        pm.get(par), ast.Call):
                    continue
                ch.consumers.append(Site(fi, n, unparse(par)[:70]
                                         if par is not None else attr))
    prod_funcs = ch.producer_funcs()
    ch.consumers = [c for c in ch.consumers
                    if c.fi.qualname not in prod_funcs]
    return ch


def attr_channel(index: Index, ti: TypeInfer, cls: ClassInfo, attr: str
                 ) -> Channel:
    ch = Channel(f"attr:{cls.name}.{attr}")
    family = set(cls.mro()) | set(cls.all_subclasses())
    for fi in index.all_functions():
        pm = index.parents(fi)
        for n in ast.walk(fi.node):
            if not (isinstance(n, ast.Attribute) and n.attr == attr):
                continue
            rc = ti.recv_class(fi, n.value, attr, at=n)
            if rc is None or rc not in family:
                continue
            own_init = fi.cls in family and fi.name in ("__init__",)
            own_prop = fi.cls in family and fi.name == attr
            par = pm.get(n)
            if isinstance(n.ctx, ast.Store):
                if not (own_init or own_prop):
                    ch.producers.append(Site(fi, par or n, unparse(par)[:70]))
                continue
            if isinstance(par, ast.Attribute) and par.attr in \
                    MUTATING_CONTAINER_CALLS and isinstance(
                    pm.get(par), ast.Call):
                if not own_init:
                    ch.producers.append(
                        Site(fi, pm.get(par), unparse(pm.get(par))[:70]))
                continue
            if not own_prop:
                ch.consumers.append(Site(fi, n, unparse(par)[:70]
                                         if par is not None else attr))
    return ch


def inst_channel(index: Index, cls: ClassInfo) -> Channel:
    ch = Channel(f"inst:{cls.name}")
    for fi in index.all_functions():
        for n in ast.walk(fi.node):
            if isinstance(n, ast.Call) and isinstance(n.func, ast.Name):
                if n.func.id == cls.name and index.resolve_class(
                        fi.module, n.func.id) is cls:
                    ch.producers.append(Site(fi, n, unparse(n)[:70]))
                elif n.func.id == "isinstance" and len(n.args) == 2 \
                        and isinstance(n.args[1], ast.Name) \
                        and n.args[1].id == cls.name:
                    ch.consumers.append(Site(fi, n, unparse(n)[:70]))
    return ch


# --------------------------------------------------------------------------
# mutation summaries
# --------------------------------------------------------------------------

def primary_mutators(index: Index, state_attrs: set[str]) -> dict[str, str]:
    """Functions that directly write one of ``state_attrs`` on an object or
    mutate a networkx graph structure: qualname -> what."""
    out: dict[str, str] = {}
    for fi in index.all_functions():
        pm = index.parents(fi)
        for n in ast.walk(fi.node):
            if isinstance(n, ast.Attribute) and n.attr in state_attrs:
                par = pm.get(n)
                if isinstance(n.ctx, ast.Store) and fi.name != "__init__":
                    out[fi.qualname] = f"writes .{n.attr}"
                elif isinstance(par, ast.Attribute) and par.attr in \
                        MUTATING_CONTAINER_CALLS and isinstance(
                        pm.get(par), ast.Call) and fi.name != "__init__":
                    out[fi.qualname] = f"mutates .{n.attr}"
            if isinstance(n, ast.Call) and isinstance(n.func, ast.Attribute) \
                    and n.func.attr in NX_MUTATORS and n.func.attr != "clear":
                out.setdefault(fi.qualname, f"graph.{n.func.attr}()")
    return out


def mutating_closure(cg: CallGraph, primary: Iterable[str]) -> set[str]:
    """Functions from which a primary mutator is reachable."""
    out = set(primary)
    todo = list(out)
    while todo:
        q = todo.pop()
        for c in cg.redges.get(q, ()):
            if c not in out:
                out.add(c)
                todo.append(c)
    return out
