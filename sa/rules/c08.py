"""C08 -- call trees are sequenced exactly as the sequencing rules specify."""
from __future__ import annotations

import ast
from typing import Optional

from ..core import AnalysisError, FuncInfo, Report, call_name, dotted, unparse
from ..ctx import Ctx
from ..dataflow import Defs, find_calls
from .util import (actual, arm_where, calls_in, canon_test, cguards,
                   const_index,
                   effective, enclosing, forwards, guards_of, in_body, is_param, kw,
                   loopvar_over, strip_not, truthiness_of)

EXPLANATION = (
    "Structural rules over tel2puml/otel_to_pv/sequence_otel.py (ast, "
    "def-use chains, loop-carried accumulator classification, emptiness "
    "lattice on list-of-lists, parameter forwarding along the call chain). "
    "Decides: R8.1 the overlap-chain decision compares the next group's "
    "earliest start with a loop-carried maximum over the end timestamps of "
    "every member already placed; R8.2 no possibly-empty group reaches the "
    "sorter that indexes group[0]; R8.3 exactly one PV event per span with "
    "each field taken from the documented source; R8.4 the post-order "
    "linking skeleton (previous ids of a group = ids live before the group; "
    "rebinding after the whole group; parent entry written last); R8.5 both "
    "sorts key on start_timestamp and the async path sorts before chaining; "
    "R8.6 rename applies the mapped type when a listed child type is "
    "present, only for events whose own type is a key; R8.7 the sequencing "
    "options are forwarded unchanged from the config to the recursion. "
    "These are necessary conditions of the documented sequencing rules; the "
    "rules do not execute the sequencer."
    " Added: R8.8 prior-information grouping; R8.9 the end time is rendered as the UTC instant it denotes (shared with C16); R8.10 every well-formed trace of a stream is sequenced (per-trace skip, no stale re-yield).")
NOT_DECIDED = ["tie handling for equal start times (excluded by the "
               "quantifier)", "exactness of the timestamp string (C16)"]
ASSUMPTIONS = ["sibling start times are distinct (property quantifier)"]


def check(rep: Report, ctx: Ctx) -> None:
    r81(rep, ctx)
    r82(rep, ctx)
    r83(rep, ctx)
    r84(rep, ctx)
    r85(rep, ctx)
    r86(rep, ctx)
    r87(rep, ctx)
    r88(rep, ctx)
    r89(rep, ctx)
    r810(rep, ctx)


# --------------------------------------------------------------------------
def _derives_attr(defs: Defs, e: ast.AST, attr: str) -> bool:
    return attr in defs.attr_origins(e)


def _is_max_call(e: ast.AST) -> bool:
    return isinstance(e, ast.Call) and dotted(e.func) == "max"


def _aggregates_all_members(defs: Defs, e: ast.AST, attr: str,
                            coll_ok=None) -> Optional[str]:
    """``max(x.attr for x in COLL)`` / ``max([..])`` / ``max(map(..))``:
    returns the text of COLL when ``e`` is a maximum of ``attr`` over every
    member of a collection, else None."""
    e = defs.resolve(e)
    if not _is_max_call(e) or len(e.args) != 1:
        return None
    g = defs.resolve(e.args[0])
    if isinstance(g, (ast.GeneratorExp, ast.ListComp, ast.SetComp)) \
            and len(g.generators) == 1 and not g.generators[0].ifs:
        gen = g.generators[0]
        if isinstance(gen.target, ast.Name) and isinstance(
                g.elt, ast.Attribute) and g.elt.attr == attr \
                and isinstance(g.elt.value, ast.Name) \
                and g.elt.value.id == gen.target.id:
            return unparse(gen.iter)
    return None


def r81(rep: Report, ctx: Ctx) -> None:
    rep.rule("R8.1", "overlap chains: the new-chain/extend decision compares "
             "the next group's earliest start with a loop-carried maximum of "
             "end timestamps over every member already placed", 3)
    fi = ctx.func("sequence_groups_of_otel_events_asynchronously")
    defs = ctx.defs(fi)
    # the decision: inside a `for` over the ordered groups one statement
    # appends the group as a new chain and another extends the current
    # chain; the branch test that separates them (CFG control dependence, so
    # if/else and guard clause + continue are the same decision)
    decision = None
    cfg = ctx.cfg(fi)
    for loop in [n for n in ast.walk(fi.node) if isinstance(n, ast.For)]:
        if not isinstance(loop.target, ast.Name):
            continue
        lv = loop.target.id
        new_st, ext_st = [], []
        for st in ast.walk(loop):
            if isinstance(st, ast.Expr) and isinstance(st.value, ast.Call) \
                    and isinstance(st.value.func, ast.Attribute):
                c = st.value
                if c.func.attr == "append" and len(c.args) == 1 and \
                        isinstance(c.args[0], ast.Name) and c.args[0].id == lv:
                    new_st.append(st)
                elif c.func.attr == "extend" and len(c.args) == 1 and \
                        isinstance(c.args[0], ast.Name) and c.args[0].id == lv:
                    ext_st.append(st)
            elif isinstance(st, ast.AugAssign) and isinstance(
                    st.op, ast.Add) and isinstance(st.value, ast.Name) \
                    and st.value.id == lv and isinstance(st.target,
                                                         ast.Subscript):
                ext_st.append(st)
        if len(new_st) != 1 or len(ext_st) != 1:
            continue
        cn = cfg.controlling(cfg.node(new_st[0]))
        ce = cfg.controlling(cfg.node(ext_st[0]))
        for test, sense in cn:
            if any(t2 is test and s2 != sense for t2, s2 in ce):
                holder = ast.If(test=test, body=[], orelse=[])
                ast.copy_location(holder, test)
                decision = (loop, lv, holder, "new" if sense else "extend")
    if decision is None:
        raise AnalysisError(
            f"{fi.qualname}: the chain decision (a branch that appends a "
            "new chain or extends the current one inside the loop over the "
            "ordered groups) was not found")
    loop, lv, ifst, first_arm = decision
    test = defs.resolve_deep(ifst.test)
    if isinstance(test, ast.UnaryOp) and isinstance(test.op, ast.Not):
        test = test.operand
    if not (isinstance(test, ast.Compare) and len(test.ops) == 1):
        raise AnalysisError(f"{fi.qualname}: chain decision test "
                            f"'{unparse(ifst.test)}' is not a comparison")
    orig = defs.resolve(ifst.test)
    if isinstance(orig, ast.UnaryOp) and isinstance(orig.op, ast.Not):
        orig = defs.resolve(orig.operand)
    sides_o = [orig.left, orig.comparators[0]] if isinstance(
        orig, ast.Compare) else [None, None]
    sides = [test.left, test.comparators[0]]
    start_side = [i for i, s in enumerate(sides)
                  if "start_timestamp" in {a.attr for a in ast.walk(s)
                                           if isinstance(a, ast.Attribute)}]
    if len(start_side) != 1:
        raise AnalysisError(f"{fi.qualname}: cannot tell the start side of "
                            f"'{unparse(test)}'")
    si = start_side[0]
    start_e, other_e = sides[si], sides[1 - si]
    other_o = sides_o[1 - si]
    # (a) the start is the earliest start of the *next* group: loopvar[0]
    ok_start = any(isinstance(n, ast.Subscript) and isinstance(n.value, ast.Name)
                   and n.value.id == lv and unparse(n.slice) == "0"
                   for n in ast.walk(start_e)) or \
        _aggregates_all_members(defs, _MinAsMax(start_e), "start_timestamp")
    rep.ob("R8.1", "start side is the next group's earliest start", bool(ok_start),
           fi=fi, node=ifst,
           detail=f"start side of the decision: '{unparse(start_e)}' "
                  f"(loop variable '{lv}' sorted by start, element 0)")
    # (b) the other side is a running maximum over all placed members
    verdict, why = _running_max(defs, fi, loop, lv, other_o, other_e, cfg)
    rep.ob("R8.1", "end side is the running maximum of the chain", verdict,
           fi=fi, node=ifst, detail=why)
    # (c) direction: new chain iff max_end < next_start
    op = test.ops[0]
    if si == 1:   # other OP start
        new_if_true = isinstance(op, (ast.Lt,))
        new_if_false = isinstance(op, (ast.GtE,))
    else:         # start OP other
        new_if_true = isinstance(op, (ast.Gt,))
        new_if_false = isinstance(op, (ast.LtE,))
    negated = isinstance(ifst.test, ast.UnaryOp)
    if negated:
        new_if_true, new_if_false = new_if_false, new_if_true
    dir_ok = (first_arm == "new" and new_if_true) or \
             (first_arm == "extend" and new_if_false)
    rep.ob("R8.1", "a new chain is opened iff running end < next start",
           dir_ok, fi=fi, node=ifst,
           detail=f"test '{unparse(ifst.test)}' selects the "
                  f"'{first_arm}' arm when true; windows that touch or "
                  "overlap must extend the current chain")


class _MinAsMax(ast.AST):  # sentinel: never matches the max idiom
    def __init__(self, e: ast.AST) -> None:
        self.e = e


def _running_max(defs: Defs, fi: FuncInfo, loop: ast.For, lv: str,
                 orig: Optional[ast.AST], resolved: ast.AST, cfg=None
                 ) -> tuple[bool, str]:
    # alternative idiom: max over every member of the current chain
    coll = _aggregates_all_members(defs, resolved, "end_timestamp")
    if coll is not None:
        if "[-1]" in coll.replace(" ", ""):
            return True, (f"end side recomputes max(end_timestamp) over the "
                          f"current chain '{coll}'")
    acc = orig if isinstance(orig, ast.Name) else None
    if acc is None:
        return False, (
            f"end side '{unparse(resolved)}' is not a loop-carried "
            "accumulator: it reads the end of one element (the most recently "
            "appended span) instead of the latest end seen in the chain, so "
            "a long span followed by shorter ones (A[0,100] B[10,20] "
            "C[30,40]) is split")
    name = acc.id
    inside = [b for b in defs.of(name)
              if any(x is b.stmt for x in ast.walk(loop))]
    outside = [b for b in defs.of(name) if b not in inside]
    if not inside:
        return False, (f"'{name}' is never updated inside the loop: it is "
                       "not a running value")
    if not outside:
        return False, f"'{name}' has no initial value before the loop"
    problems = []
    for b in inside:
        v = b.value
        if b.kind == "aug":
            problems.append(f"'{unparse(b.stmt)}' is not a max-update")
            continue
        if not (_is_max_call(v) and any(
                isinstance(a, ast.Name) and a.id == name for a in v.args)):
            problems.append(f"update '{unparse(b.stmt)}' is not of the form "
                            f"{name} = max({name}, ...)")
            continue
        others = [a for a in v.args
                  if not (isinstance(a, ast.Name) and a.id == name)]
        for o in others:
            if not _covers_all_members(defs, o, lv, loop, b.stmt):
                problems.append(
                    f"update '{unparse(b.stmt)}' takes the end of a single "
                    f"element of '{lv}', not of every member of the group")
    for b in outside:
        if b.value is None or "end_timestamp" not in {
                a.attr for a in ast.walk(defs.resolve_deep(b.value))
                if isinstance(a, ast.Attribute)}:
            problems.append(f"initial value '{unparse(b.stmt)}' does not "
                            "derive from end_timestamp")
        elif _aggregates_all_members(defs, b.value, "end_timestamp") is None:
            problems.append(
                f"initial value '{unparse(b.stmt)}' takes the end of a "
                "single element of the first group, not its latest end")
    # the update must be executed on every iteration that places a group
    if cfg is not None and loop.body:
        upd = {cfg.node(b.stmt) for b in inside if cfg.has(b.stmt)}
        if not cfg.every_path_passes(cfg.node(loop.body[0]), cfg.node(loop),
                                     upd):
            problems.append(
                f"'{name}' is not updated on every iteration: some path "
                "through the loop body places a group and returns to the "
                "loop header without the max-update (the chain's end stays "
                "frozen, later overlapping siblings are put in sequence)")
    else:
        for b in inside:
            encl = enclosing(loop, b.stmt, (ast.If,))
            if encl:
                problems.append(f"update '{unparse(b.stmt)}' is conditional")
    if problems:
        return False, "; ".join(problems)
    return True, (f"'{name}' is initialised from the first group's latest "
                  f"end and updated as max({name}, every member's "
                  "end_timestamp) on each iteration")


def _covers_all_members(defs: Defs, e: ast.AST, lv: str, loop: ast.For,
                        stmt: ast.AST) -> bool:
    coll = _aggregates_all_members(defs, e, "end_timestamp")
    if coll is not None and coll == lv:
        return True
    # per-member inner loop: for m in <lv>: acc = max(acc, m.end_timestamp)
    inner = [l for l in enclosing(loop, stmt, (ast.For,)) if l is not loop]
    for l in inner:
        if isinstance(l.iter, ast.Name) and l.iter.id == lv and isinstance(
                l.target, ast.Name) and isinstance(e, ast.Attribute) \
                and e.attr == "end_timestamp" and isinstance(
                    e.value, ast.Name) and e.value.id == l.target.id:
            return True
    return False


# --------------------------------------------------------------------------
def r82(rep: Report, ctx: Ctx) -> None:
    rep.rule("R8.2", "no possibly-empty group reaches the sorter that "
             "indexes group[0]", 2)
    consumer = ctx.func("order_groups_by_start_timestamp")
    producer = ctx.func("group_events_using_async_information")
    # is the obligation armed?  consumer indexes element 0 of a group
    idx0 = [n for n in ast.walk(consumer.node)
            if isinstance(n, ast.Subscript) and unparse(n.slice) == "0"]
    filters = [c for c in ast.walk(consumer.node)
               if isinstance(c, ast.comprehension) and c.ifs]
    if not idx0 or filters:
        rep.ob("R8.2", "consumer tolerates empty groups", True, fi=consumer,
               node=consumer.node,
               detail="the sorter no longer indexes group[0] unguarded; "
                      "producer obligation not armed")
        rep.ob("R8.2", "producer", True, fi=producer, node=producer.node,
               detail="not armed")
        return
    rep.ob("R8.2", "consumer indexes group[0]", True, fi=consumer,
           node=idx0[0], detail="obligation armed: every group handed to "
           "the sorter must be non-empty")
    defs = ctx.defs(producer)
    rets = [n for n in ast.walk(producer.node)
            if isinstance(n, ast.Return) and n.value is not None]
    for ret in rets:
        bad = _maybe_empty_groups(defs, producer, ret.value, set())
        rep.ob("R8.2", f"returned groups non-empty: {unparse(ret.value)[:40]}",
               not bad, fi=producer, node=ret,
               detail=("; ".join(bad) if bad else
                       "every list placed in the returned list is a "
                       "non-empty literal or filtered by truthiness"))


def _maybe_empty_groups(defs: Defs, fi: FuncInfo, e: ast.AST,
                        seen: set[str]) -> list[str]:
    """Reasons why the list-of-lists ``e`` may contain an empty list."""
    if isinstance(e, ast.List):
        out = []
        for el in e.elts:
            if isinstance(el, ast.List) and not el.elts:
                out.append("literal empty group")
            elif isinstance(el, ast.Starred):
                out += _maybe_empty_groups(defs, fi, el.value, seen)
        return out
    if isinstance(e, ast.BinOp) and isinstance(e.op, ast.Add):
        return _maybe_empty_groups(defs, fi, e.left, seen) + \
            _maybe_empty_groups(defs, fi, e.right, seen)
    if isinstance(e, ast.Call) and dotted(e.func) in ("list", "sorted") \
            and e.args:
        return _maybe_empty_groups(defs, fi, e.args[0], seen)
    if isinstance(e, ast.Call) and isinstance(e.func, ast.Attribute) \
            and e.func.attr == "values" and isinstance(e.func.value, ast.Name):
        return _dict_values_maybe_empty(defs, fi, e.func.value.id)
    if isinstance(e, (ast.ListComp, ast.GeneratorExp)) and len(
            e.generators) == 1:
        g = e.generators[0]
        if isinstance(e.elt, ast.Name) and isinstance(g.target, ast.Name) \
                and e.elt.id == g.target.id:
            if any(truthiness_of(t, e.elt.id) for t in g.ifs):
                return []
            return _maybe_empty_groups(defs, fi, g.iter, seen)
        if isinstance(e.elt, ast.List) and e.elt.elts:
            return []
        if isinstance(e.elt, ast.Call) and dotted(e.elt.func) in (
                "list", "sorted") and e.elt.args and isinstance(
                e.elt.args[0], ast.Name) and isinstance(g.target, ast.Name) \
                and e.elt.args[0].id == g.target.id:
            if any(truthiness_of(t, g.target.id) for t in g.ifs):
                return []
            return _maybe_empty_groups(defs, fi, g.iter, seen)
    if isinstance(e, ast.Name):
        if e.id in seen:
            return []
        seen = seen | {e.id}
        out = []
        bs = defs.of(e.id)
        if not bs:
            raise AnalysisError(f"{fi.qualname}: unbound name {e.id}")
        for b in bs:
            if b.kind == "param":
                continue
            if b.value is not None and b.kind in ("assign",):
                out += _maybe_empty_groups(defs, fi, b.value, seen)
            elif b.kind == "aug":
                out += _maybe_empty_groups(defs, fi, b.value, seen)
        # elements appended / extended to the name
        for c in ast.walk(fi.node):
            if isinstance(c, ast.Call) and isinstance(c.func, ast.Attribute) \
                    and isinstance(c.func.value, ast.Name) \
                    and c.func.value.id == e.id and c.args:
                if c.func.attr == "append":
                    a = c.args[0]
                    if isinstance(a, ast.List):
                        if not a.elts:
                            out.append(f"{e.id}.append([])")
                    else:
                        out += _maybe_empty_groups(
                            defs, fi, ast.List(elts=[ast.Starred(value=ast.List(
                                elts=[]))]), seen) if False else []
                        if not isinstance(a, ast.List):
                            out += _group_expr_maybe_empty(defs, fi, a)
                elif c.func.attr == "extend":
                    out += _maybe_empty_groups(defs, fi, c.args[0], seen)
        return out
    if isinstance(e, ast.IfExp):
        return _maybe_empty_groups(defs, fi, e.body, seen) + \
            _maybe_empty_groups(defs, fi, e.orelse, seen)
    raise AnalysisError(
        f"{fi.qualname}: group construction '{unparse(e)[:80]}' is outside "
        "the emptiness lattice's vocabulary")


def _group_expr_maybe_empty(defs: Defs, fi: FuncInfo, a: ast.AST) -> list[str]:
    """Is a single group expression possibly empty?"""
    if isinstance(a, ast.List):
        return [] if a.elts else ["empty literal"]
    if isinstance(a, ast.Name):
        bs = [b for b in defs.of(a.id) if b.value is not None]
        if bs and all(isinstance(b.value, ast.List) and b.value.elts
                      for b in bs):
            return []
    raise AnalysisError(f"{fi.qualname}: cannot bound emptiness of group "
                        f"'{unparse(a)}'")


def _dict_values_maybe_empty(defs: Defs, fi: FuncInfo, d: str) -> list[str]:
    bs = [b for b in defs.of(d) if b.value is not None]
    reasons: list[str] = []
    for b in bs:
        v = b.value
        if isinstance(v, ast.DictComp):
            if isinstance(v.value, ast.List) and not v.value.elts:
                reasons.append(
                    f"'{d}' is pre-populated with an empty list for every "
                    f"key of '{unparse(v.generators[0].iter)}' and all of "
                    f"{d}.values() is returned: a configured group none of "
                    "whose child types occurs under this parent stays empty")
            elif isinstance(v.value, ast.List):
                pass
            else:
                raise AnalysisError(f"{fi.qualname}: dict '{d}' values "
                                    "outside vocabulary")
        elif isinstance(v, ast.Dict) and not v.keys:
            pass
        elif isinstance(v, ast.Call) and dotted(v.func) in (
                "defaultdict", "collections.defaultdict", "dict") and (
                not v.args or dotted(v.args[0]) == "list"):
            pass
        else:
            raise AnalysisError(f"{fi.qualname}: dict '{d}' built by "
                                f"'{unparse(v)[:60]}' outside vocabulary")
    # writes D[k] = [] must be followed by an append in the same block
    for n in ast.walk(fi.node):
        if isinstance(n, ast.Assign):
            for t in n.targets:
                if isinstance(t, ast.Subscript) and isinstance(
                        t.value, ast.Name) and t.value.id == d:
                    if isinstance(n.value, ast.List) and not n.value.elts:
                        if not _append_follows(fi.node, n, d):
                            reasons.append(
                                f"'{unparse(n)}' creates an empty group "
                                "that is not filled on the same path")
    return reasons


def _append_follows(fn: ast.AST, assign: ast.Assign, d: str) -> bool:
    """After ``D[k] = []`` (possibly under ``if k not in D``) an
    unconditional ``D[k].append(..)`` follows in the enclosing block."""
    parents: dict[ast.AST, ast.AST] = {}
    for n in ast.walk(fn):
        for c in ast.iter_child_nodes(n):
            parents[c] = n
    cur: ast.AST = assign
    for _ in range(3):
        par = parents.get(cur)
        if par is None:
            return False
        for fld in ("body", "orelse"):
            blk = getattr(par, fld, None)
            if isinstance(blk, list) and cur in blk:
                for st in blk[blk.index(cur) + 1:]:
                    for c in ast.walk(st):
                        if isinstance(c, ast.Call) and isinstance(
                                c.func, ast.Attribute) and c.func.attr in (
                                "append", "extend") and isinstance(
                                c.func.value, ast.Subscript) and isinstance(
                                c.func.value.value, ast.Name) and \
                                c.func.value.value.id == d and not isinstance(
                                st, ast.If):
                            return True
        cur = par
    return False


# --------------------------------------------------------------------------
PV_FIELDS = {
    "jobId": "job_id", "eventType": "event_type", "jobName": "job_name",
    "applicationName": "application_name",
}


def r83(rep: Report, ctx: Ctx) -> None:
    rep.rule("R8.3", "one PV event per span, each field from the documented "
             "source", 9)
    fi = ctx.func("sequence_otel_event_job")
    defs = ctx.defs(fi)
    yields = [n for n in ast.walk(fi.node) if isinstance(n, (ast.Yield,
                                                               ast.YieldFrom))]
    rep.ob("R8.3", "exactly one yield", len(yields) == 1, fi=fi,
           node=yields[0] if yields else fi.node,
           detail=f"{len(yields)} yield expression(s) in the per-job emitter")
    if len(yields) != 1 or not isinstance(yields[0], ast.Yield):
        return
    y = yields[0]
    loops = enclosing(fi.node, y, (ast.For,))
    conds = enclosing(fi.node, y, (ast.If, ast.Try, ast.While))
    map_param = fi.params()[0]
    loop_ok = len(loops) == 1 and not conds
    it = loops[0].iter if loops else None
    over_items = (isinstance(it, ast.Call) and isinstance(it.func, ast.Attribute)
                  and it.func.attr in ("items", "values")
                  and isinstance(it.func.value, ast.Name)
                  and it.func.value.id == map_param
                  and defs.only_param(map_param))
    rep.ob("R8.3", "unconditional yield in one loop over the whole span map",
           loop_ok and over_items, fi=fi, node=loops[0] if loops else y,
           detail=f"loops={len(loops)} guards={len(conds)} "
                  f"iterates '{unparse(it) if it is not None else ''}' "
                  f"(must be {map_param}.items()/values() with no filter: "
                  "every span yields exactly one PV event)")
    if not (loop_ok and over_items):
        return
    loop = loops[0]
    if it.func.attr == "items" and isinstance(loop.target, ast.Tuple):
        key_v = loop.target.elts[0].id  # type: ignore[attr-defined]
        ev_v = loop.target.elts[1].id   # type: ignore[attr-defined]
    else:
        key_v, ev_v = None, loop.target.id  # type: ignore[attr-defined]
    call = ctx.reach(fi).resolve(y.value, at=y) if y.value is not None \
        else None
    if not (isinstance(call, ast.Call) and call_name(call) in ("PVEvent",
                                                              "dict")):
        if isinstance(call, ast.Dict):
            kws = {k.value: v for k, v in zip(call.keys, call.values)
                   if isinstance(k, ast.Constant)}
        else:
            raise AnalysisError(f"{fi.qualname}: yielded value "
                                f"'{unparse(call)[:60]}' is not a PVEvent")
    else:
        kws = {k.arg: k.value for k in call.keywords if k.arg}
    reach = ctx.reach(fi)
    kws = {k: reach.resolve(v, at=y) for k, v in kws.items()}
    for f, src in PV_FIELDS.items():
        v = kws.get(f)
        ok = v is not None and isinstance(v, ast.Attribute) and v.attr == src \
            and isinstance(v.value, ast.Name) and v.value.id == ev_v
        rep.ob("R8.3", f"{f} <- span.{src}", ok, fi=fi, node=y,
               detail=f"{f} = {unparse(v) if v is not None else '<missing>'}")
    v = kws.get("eventId")
    ok = v is not None and ((isinstance(v, ast.Name) and v.id == key_v) or (
        isinstance(v, ast.Attribute) and v.attr == "event_id"
        and isinstance(v.value, ast.Name) and v.value.id == ev_v))
    rep.ob("R8.3", "eventId <- span id", ok, fi=fi, node=y,
           detail=f"eventId = {unparse(v) if v is not None else '<missing>'}")
    v = kws.get("timestamp")
    conv = ctx.func("unix_nano_to_pv_string")
    v = defs.resolve(v) if v is not None else None
    targ = actual(v, conv, conv.params()[0]) if isinstance(v, ast.Call) \
        and call_name(v) == conv.name else None
    targ = defs.resolve(targ) if targ is not None else None
    ok = (isinstance(targ, ast.Attribute)
          and targ.attr == "end_timestamp"
          and isinstance(targ.value, ast.Name)
          and targ.value.id == ev_v)
    rep.ob("R8.3", "timestamp <- pv string of span.end_timestamp", ok, fi=fi,
           node=y, detail=f"timestamp = "
           f"{unparse(v) if v is not None else '<missing>'}")
    v = kws.get("previousEventIds")
    anc = ctx.func("sequence_otel_event_ancestors")
    ok = False
    if isinstance(v, ast.Subscript) and isinstance(v.value, ast.Name):
        src = defs.resolve(v.value)
        key = v.slice
        key_ok = (isinstance(key, ast.Name) and key.id == key_v) or (
            isinstance(key, ast.Attribute) and key.attr == "event_id"
            and isinstance(key.value, ast.Name) and key.value.id == ev_v)
        ok = isinstance(src, ast.Call) and call_name(src) == anc.name \
            and key_ok
    rep.ob("R8.3", "previousEventIds <- ancestor map at the same id", ok,
           fi=fi, node=y, detail=f"previousEventIds = "
           f"{unparse(v) if v is not None else '<missing>'}")


# --------------------------------------------------------------------------
def r84(rep: Report, ctx: Ctx) -> None:
    rep.rule("R8.4", "post-order linking skeleton of the recursion", 6)
    fi = ctx.func("sequence_otel_event_ancestors")
    defs = ctx.defs(fi)
    rec = calls_in(ctx, fi, fi)
    rep.ob("R8.4", "one recursive call", len(rec) == 1, fi=fi,
           node=rec[0] if rec else fi.node,
           detail=f"{len(rec)} recursive call site(s)")
    if len(rec) != 1:
        return
    call = rec[0]
    loops = enclosing(fi.node, call, (ast.For,))
    ok_nest = len(loops) == 2 and isinstance(loops[1].iter, ast.Name) \
        and isinstance(loops[0].target, ast.Name) \
        and loops[1].iter.id == loops[0].target.id
    rep.ob("R8.4", "recursion runs for each member of each group", ok_nest,
           fi=fi, node=loops[0] if loops else call,
           detail="for group in groups: for member in group: recurse(member)")
    if not ok_nest:
        return
    outer, inner = loops
    member = inner.target.id if isinstance(inner.target, ast.Name) else "?"
    a_event = actual(call, fi, "event")
    rep.ob("R8.4", "recursion argument is the group member",
           isinstance(a_event, ast.Name) and a_event.id == member, fi=fi,
           node=call, detail=f"event = {unparse(a_event)}")
    prev_p = "previous_event_ids"
    a_prev = actual(call, fi, prev_p)
    is_prev = isinstance(a_prev, ast.Name) and a_prev.id == prev_p
    rep.ob("R8.4", "members receive the ids live before their group", is_prev,
           fi=fi, node=call,
           detail=f"previous_event_ids = {unparse(a_prev)} (every member of "
                  "a group must link to the same predecessors)")
    # rebinding of previous: inside outer loop, after inner loop, not in inner
    rebinds = [b for b in defs.of(prev_p) if b.kind != "param"]
    in_inner = [b for b in rebinds
                if any(x is b.stmt for x in ast.walk(inner))]
    after_inner = [b for b in rebinds if b.stmt in outer.body
                   and outer.body.index(b.stmt) > outer.body.index(inner)]
    before_loop = [b for b in rebinds
                   if not any(x is b.stmt for x in ast.walk(outer))]
    ok = not in_inner and len(after_inner) == 1
    rep.ob("R8.4", "previous ids are rebound once, after the whole group",
           ok, fi=fi, node=(in_inner[0].stmt if in_inner else
                            after_inner[0].stmt if after_inner else outer),
           detail=f"rebindings inside the member loop: {len(in_inner)}, "
                  f"after it: {len(after_inner)}")
    if after_inner:
        v = after_inner[0].value
        grp = outer.target.id  # type: ignore[attr-defined]
        ok = isinstance(v, (ast.ListComp,)) and len(v.generators) == 1 \
            and isinstance(v.generators[0].iter, ast.Name) \
            and v.generators[0].iter.id == grp and not v.generators[0].ifs \
            and isinstance(v.elt, ast.Attribute) and v.elt.attr == "event_id"
        rep.ob("R8.4", "new previous ids = ids of every member of the group",
               ok, fi=fi, node=after_inner[0].stmt,
               detail=f"{prev_p} = {unparse(v)}")
    for b in before_loop:
        parents = enclosing(fi.node, b.stmt, (ast.If,))
        guard_ok = len(parents) == 1 and unparse(parents[0].test) == \
            f"{prev_p} is None"
        rep.ob("R8.4", "default of previous ids only replaces None", guard_ok,
               fi=fi, node=b.stmt, detail=f"'{unparse(b.stmt)}' under "
               f"'{unparse(parents[0].test) if parents else 'no guard'}'")
    # own entry written after the loop from the then-current previous
    own = [n for n in fi.node.body if isinstance(n, ast.Assign)
           and isinstance(n.targets[0], ast.Subscript)
           and unparse(n.targets[0].slice).endswith("event_id")]
    ok = len(own) == 1 and fi.node.body.index(own[0]) > fi.node.body.index(
        outer) if outer in fi.node.body and own else False
    ok = ok and isinstance(own[0].value, ast.Name) and own[0].value.id == prev_p \
        and unparse(own[0].targets[0].slice) == "event.event_id"
    rep.ob("R8.4", "parent's entry = last group's ids, written after the "
           "children", ok, fi=fi, node=own[0] if own else outer,
           detail=f"{unparse(own[0]) if own else '<missing>'}")
    # the result of the recursion is merged into the returned map
    ret = [n for n in fi.node.body if isinstance(n, ast.Return)]
    res = own[0].targets[0].value.id if own and isinstance(
        own[0].targets[0].value, ast.Name) else None
    par = enclosing(fi.node, call, (ast.Call,))
    merged = any(isinstance(p, ast.Call) and isinstance(p.func, ast.Attribute)
                 and p.func.attr == "update" and isinstance(
                     p.func.value, ast.Name) and p.func.value.id == res
                 for p in par)
    if not merged:
        # result bound to a name first:  r = recurse(..); res.update(r)
        rreach = ctx.reach(fi)
        for u in ast.walk(inner):
            if isinstance(u, ast.Call) and isinstance(u.func, ast.Attribute) \
                    and u.func.attr == "update" and isinstance(
                        u.func.value, ast.Name) and u.func.value.id == res \
                    and u.args and rreach.resolve(u.args[0], at=u) is call:
                merged = True
        # or merged by item assignment / dict union
        for u in ast.walk(inner):
            if isinstance(u, ast.AugAssign) and isinstance(u.op, ast.BitOr) \
                    and isinstance(u.target, ast.Name) \
                    and u.target.id == res and rreach.resolve(
                        u.value, at=u) is call:
                merged = True
    rep.ob("R8.4", "descendants' links are merged into the returned map",
           merged and bool(ret) and isinstance(ret[-1].value, ast.Name)
           and ret[-1].value.id == res, fi=fi, node=call,
           detail=f"result map '{res}' updated with each recursive result "
                  "and returned")
    # children come from child_event_ids through the span map
    grp_fn = ctx.func("group_events_using_async_information")
    g_calls = calls_in(ctx, fi, grp_fn)
    ok = bool(g_calls)
    for gc in g_calls:
        a = actual(gc, grp_fn, "events")
        src = ctx.reach(fi).resolve(a, at=gc) if a is not None else None
        ok = ok and isinstance(src, ast.ListComp) and "child_event_ids" in {
            x.attr for x in ast.walk(src) if isinstance(x, ast.Attribute)} \
            and not src.generators[0].ifs
    rep.ob("R8.4", "children = every id in child_event_ids", ok, fi=fi,
           node=g_calls[0] if g_calls else fi.node,
           detail="the grouped list is built from event.child_event_ids "
                  "with no filter")


# --------------------------------------------------------------------------
def r85(rep: Report, ctx: Ctx) -> None:
    rep.rule("R8.5", "ordering keys: both sorts key on start_timestamp "
             "ascending; the async path sorts before chaining; the sync/"
             "async switch selects the right sequencer", 5)
    fi = ctx.func("order_groups_by_start_timestamp")
    sorts = [c for c in ast.walk(fi.node) if isinstance(c, ast.Call)
             and (dotted(c.func) == "sorted" or call_name(c) == "sort")]
    rep.ob("R8.5", "two sorts (within groups, between groups)",
           len(sorts) >= 2, fi=fi, node=fi.node,
           detail=f"{len(sorts)} sort call(s)")
    for s in sorts:
        key = kw(s, "key")
        rev = kw(s, "reverse")
        attrs = {a.attr for a in ast.walk(key)
                 if isinstance(a, ast.Attribute)} if key is not None else set()
        ok = "start_timestamp" in attrs and "end_timestamp" not in attrs \
            and (rev is None or (isinstance(rev, ast.Constant)
                                 and rev.value is False))
        rep.ob("R8.5", f"sort key {unparse(key)[:50]}", ok, fi=fi, node=s,
               detail="key must be start_timestamp, ascending")
    # the between-groups sort must see groups already sorted inside (it keys
    # on element 0 = the group's earliest member)
    fdefs = ctx.defs(fi)
    outer = [s for s in sorts if kw(s, "key") is not None and any(
        isinstance(n, ast.Subscript) for n in ast.walk(kw(s, "key")))]
    inner = [s for s in sorts if s not in outer]
    if outer and inner:
        src = fdefs.resolve_deep(outer[0].args[0]) if outer[0].args else None
        text = unparse(src) if src is not None else ""
        ok = any(unparse(i) in text for i in inner)
        rep.ob("R8.5", "groups are ordered by their earliest member (inner "
               "sort feeds the outer sort)", ok, fi=fi, node=outer[0],
               detail=(f"outer sort input: {text[:90]}"
                       + ("" if ok else " -- element 0 of an unsorted group "
                          "is whichever member was listed first, not the "
                          "earliest")))
    asy = ctx.func("sequence_groups_of_otel_events_asynchronously")
    defs = ctx.defs(asy)
    loops = [n for n in ast.walk(asy.node) if isinstance(n, ast.For)]
    ok = False
    for l in loops:
        src = l.iter.value if isinstance(l.iter, ast.Subscript) else l.iter
        r = defs.resolve(src)
        if isinstance(r, ast.Call) and call_name(r) == fi.name:
            ok = True
    rep.ob("R8.5", "async path chains over the start-ordered groups", ok,
           fi=asy, node=loops[0] if loops else asy.node,
           detail="the chaining loop iterates the result of "
                  f"{fi.name}(groups)")
    anc = ctx.func("sequence_otel_event_ancestors")
    areach = ctx.reach(anc)
    flag = "async_flag"
    sw = [n for n in ast.walk(anc.node) if isinstance(n, ast.If)
          and strip_not(n.test)[0].__class__ is ast.Name
          and strip_not(n.test)[0].id == flag]   # type: ignore[attr-defined]
    ok = False
    if len(sw) == 1:
        on = arm_where(sw[0], ("truth", flag, "1")) or []
        off = arm_where(sw[0], ("truth", flag, "0")) or []
        t = {call_name(c) for st in on for c in ast.walk(st)
             if isinstance(c, ast.Call)}
        f = {call_name(c) for st in off for c in ast.walk(st)
             if isinstance(c, ast.Call)}
        ok = asy.name in t and fi.name in f and asy.name not in f
    rep.ob("R8.5", "async_flag selects chaining, otherwise plain ordering",
           ok, fi=anc, node=sw[0] if sw else anc.node,
           detail="if async_flag: async sequencing else order by start")
    # both sequencers work on the prior-information groups of *all* children
    grp = ctx.func("group_events_using_async_information")
    for seqr in (asy, fi):
        for c in calls_in(ctx, anc, seqr):
            a = actual(c, seqr, seqr.params()[0])
            src = areach.resolve(a, at=c) if a is not None else None
            ok = isinstance(src, ast.Call) and call_name(src) == grp.name
            rep.ob("R8.5", f"{seqr.name} receives the prior-information "
                   "groups", ok, fi=anc, node=c,
                   detail=f"groups = {unparse(src)[:90]}"
                          + ("" if ok else " -- siblings mapped to one group "
                             "are no longer kept together on this arm"))
    # the between-groups key is the group's first (earliest) member
    for srt in outer:
        key = kw(srt, "key")
        idx = [const_index(n) for n in ast.walk(key)
               if isinstance(n, ast.Subscript)] if key is not None else []
        ok = idx == [0]
        rep.ob("R8.5", "groups are keyed by their first member", ok, fi=fi,
               node=srt, detail=f"key {unparse(key)[:60]} indexes {idx}")
    # the chaining starts a chain with the first group and visits the rest
    first = [b for b in defs.of(_chain_name(asy)) if b.value is not None]
    init_kind = "other"
    if len(first) == 1 and isinstance(first[0].value, ast.List):
        el = first[0].value.elts
        if not el:
            init_kind = "empty"
        elif len(el) == 1 and const_index(el[0]) == 0:
            init_kind = "first"
    loop_kind = "other"
    chain_loops = [l for l in loops if not enclosing(asy.node, l, (ast.For,))]
    if len(chain_loops) == 1:
        it = chain_loops[0].iter
        if isinstance(it, ast.Subscript) and isinstance(it.slice, ast.Slice):
            sl = it.slice
            if sl.upper is None and sl.step is None and isinstance(
                    sl.lower, ast.Constant) and sl.lower.value == 1:
                loop_kind = "rest"
        elif isinstance(it, ast.Name):
            loop_kind = "all"
    ok = (init_kind, loop_kind) in (("first", "rest"), ("empty", "all"))
    rep.ob("R8.5", "every group is placed exactly once (first chain = first "
           "group and the loop visits the others, or the loop visits all)",
           ok, fi=asy, node=chain_loops[0] if chain_loops else asy.node,
           detail=f"chains start as {[unparse(b.value) for b in first][:2]} "
                  f"({init_kind}); loop over "
                  f"{unparse(chain_loops[0].iter) if chain_loops else '?'} "
                  f"({loop_kind})")
    for ret in [n for n in ast.walk(asy.node) if isinstance(n, ast.Return)]:
        gs = guards_of(asy.node, ret)
        if gs:
            ok = len(gs) == 1 and gs[0][0] == "truth" and gs[0][2] == "0"
            rep.ob("R8.5", "an early return only when there is no group",
                   ok, fi=asy, node=ret,
                   detail=f"'{unparse(ret)}' under "
                          f"{[' '.join(g) for g in gs]}")


def _chain_name(asy: FuncInfo) -> str:
    """Name of the list of chains: the name the function returns last."""
    rets = [n for n in asy.node.body if isinstance(n, ast.Return)
            and isinstance(n.value, ast.Name)]
    if not rets:
        raise AnalysisError(f"{asy.qualname}: no returned chain list")
    return rets[-1].value.id  # type: ignore[union-attr]


# --------------------------------------------------------------------------
def r86(rep: Report, ctx: Ctx) -> None:
    rep.rule("R8.6", "rename rule", 4)
    one = ctx.func("update_event_type_based_on_children")
    many = ctx.func("update_event_types_based_on_children")
    span_p, job_p, info_p = one.params()[:3]
    oreach = ctx.reach(one)
    assigns = [n for n in ast.walk(one.node) if isinstance(n, ast.Assign)
               and isinstance(n.targets[0], ast.Attribute)
               and n.targets[0].attr == "event_type"]
    val = oreach.resolve(assigns[0].value, at=assigns[0]) if assigns else None
    ok = len(assigns) == 1 and isinstance(val, ast.Attribute) \
        and val.attr == "mapped_event_type" \
        and isinstance(val.value, ast.Name) and val.value.id == info_p \
        and isinstance(assigns[0].targets[0].value, ast.Name) \
        and assigns[0].targets[0].value.id == span_p
    rep.ob("R8.6", "the span's type becomes mapped_event_type", ok, fi=one,
           node=assigns[0] if assigns else one.node,
           detail=unparse(assigns[0]) if assigns else "<missing>")
    if assigns:
        gs = cguards(ctx, one, assigns[0])
        listed = [g for g in gs if g[0] == "cmp" and g[2] == "In"
                  and g[3] == f"{info_p}.child_event_types"]
        child = None
        if listed:
            # left side: <child>.event_type with <child> looked up in the job
            # map by a child id
            try:
                lhs = ast.parse(listed[0][1], mode="eval").body
            except SyntaxError:
                lhs = None
            if isinstance(lhs, ast.Attribute) and lhs.attr == "event_type" \
                    and isinstance(lhs.value, ast.Name):
                child = lhs.value.id
        other = [g for g in gs if g not in listed and g != (
            "cmp", f"{span_p}.child_event_ids", "IsNot", "None")]
        rep.ob("R8.6", "guard: a child's type is listed",
               len(listed) == 1 and child is not None and not other, fi=one,
               node=assigns[0],
               detail=f"conditions on the rename: "
                      f"{[' '.join(g) for g in gs]} (exactly: the type of a "
                      "child is in child_event_types)")
        loops = enclosing(one.node, assigns[0], (ast.For,))
        ok = bool(loops) and isinstance(loops[0].iter, ast.Attribute) \
            and loops[0].iter.attr == "child_event_ids" and isinstance(
                loops[0].iter.value, ast.Name) \
            and loops[0].iter.value.id == span_p
        if ok and child is not None:
            cid = loops[0].target.id if isinstance(loops[0].target,
                                                   ast.Name) else None
            cb = [b for b in ctx.defs(one).of(child) if b.value is not None]
            ok = len(cb) == 1 and unparse(cb[0].value) == f"{job_p}[{cid}]"
        rep.ob("R8.6", "every child id is examined", ok, fi=one,
               node=loops[0] if loops else one.node,
               detail=f"loop over "
               f"'{unparse(loops[0].iter) if loops else ''}', child looked "
               "up in the trace's span map by that id")
    # nothing but "no children" may skip the examination
    for ret in [n for n in ast.walk(one.node) if isinstance(n, ast.Return)]:
        gs = cguards(ctx, one, ret)
        ok = gs in ([("cmp", f"{span_p}.child_event_ids", "Is", "None")],
                    [("truth", f"{span_p}.child_event_ids", "0")])
        rep.ob("R8.6", "an early return only for a span without children",
               ok, fi=one, node=ret,
               detail=f"'{unparse(ret)}' under {[' '.join(g) for g in gs]}")
    cs = calls_in(ctx, many, one)
    ok = False
    if len(cs) == 1:
        gs = cguards(ctx, many, cs[0])
        a = actual(cs[0], one, info_p)
        a = ctx.reach(many).resolve(a, at=cs[0]) if a is not None else None
        sp = actual(cs[0], one, span_p)
        map_p = many.params()[1]
        ok = isinstance(sp, ast.Name) and gs == [
            ("cmp", f"{sp.id}.event_type", "In", map_p)] \
            and a is not None \
            and unparse(a) == f"{map_p}[{sp.id}.event_type]"
        mdefs = ctx.defs(many)
        ok = ok and loopvar_over(
            mdefs, sp, lambda it: isinstance(it, ast.Call) and isinstance(
                it.func, ast.Attribute) and it.func.attr == "values"
            and isinstance(it.func.value, ast.Name)
            and it.func.value.id == many.params()[0])
    rep.ob("R8.6", "applied only to spans whose own type is a key, with "
           "that key's entry", ok, fi=many, node=cs[0] if cs else many.node,
           detail="for span in job.values(): if span.event_type in map: "
                  "update(span, job, map[span.event_type])")
    jobs = ctx.func("sequence_otel_jobs")
    cs = calls_in(ctx, jobs, many)
    seq = calls_in(ctx, jobs, ctx.func("sequence_otel_event_job"))
    ok = len(cs) == 1 and len(seq) == 1
    if ok:
        cfg = ctx.cfg(jobs)
        n_ren, n_seq = cfg.container(cs[0]), cfg.container(seq[0])
        gs = cguards(ctx, jobs, cs[0])
        tmap = jobs.params()[3]
        ok = n_ren is not None and n_seq is not None \
            and n_seq in cfg.reachable(n_ren) \
            and gs in ([("truth", tmap, "1")],
                       [("cmp", tmap, "IsNot", "None")]) \
            and not cguards(ctx, jobs, seq[0])
    rep.ob("R8.6", "rename runs before sequencing whenever a map is given",
           ok, fi=jobs, node=cs[0] if cs else jobs.node,
           detail="update_event_types_based_on_children(job, map) guarded "
                  "only by the map's presence, before the job is sequenced")


# --------------------------------------------------------------------------
def r87(rep: Report, ctx: Ctx) -> None:
    rep.rule("R8.7", "sequencing options forwarded unchanged along "
             "otel_to_pv -> sequence_otel_job_id_streams -> "
             "sequence_otel_jobs -> sequence_otel_event_job -> recursion", 10)
    streams = ctx.func("sequence_otel_job_id_streams")
    jobs = ctx.func("sequence_otel_jobs")
    job = ctx.func("sequence_otel_event_job")
    anc = ctx.func("sequence_otel_event_ancestors")
    forwards(rep, ctx, "R8.7", streams, jobs, {
        "async_flag": "async_flag",
        "event_to_async_group_map": "event_to_async_group_map",
        "event_types_map_information": "event_types_map_information"})
    jdefs = ctx.defs(jobs)
    forwards(rep, ctx, "R8.7", jobs, job, {
        "event_id_to_event_map":
            lambda e: loopvar_over(jdefs, e, is_param(jobs.params()[0])),
        "async_flag": "async_flag",
        "event_to_async_group_map": "event_to_async_group_map"})
    forwards(rep, ctx, "R8.7", job, anc, {
        "event_id_to_event_map": "event_id_to_event_map",
        "async_flag": "async_flag",
        "event_to_async_group_map": "event_to_async_group_map"})
    forwards(rep, ctx, "R8.7", anc, anc, {
        "event_id_to_event_map": "event_id_to_event_map",
        "async_flag": "async_flag",
        "event_to_async_group_map": "event_to_async_group_map"})
    # config -> sequencer
    top = ctx.func("otel_to_pv")
    defs = ctx.defs(top)

    def from_stream(it: ast.AST) -> bool:
        return isinstance(it, ast.Call) and call_name(it) == "stream_data"

    def cfg_attr(attr: str, via_get: bool):
        def pred(e: ast.AST) -> bool:
            e2 = defs.resolve(e)
            if via_get:
                if not (isinstance(e2, ast.Call) and isinstance(
                        e2.func, ast.Attribute) and e2.func.attr == "get"):
                    return False
                key = e2.args[0] if e2.args else None
                # the key is the workflow name the stream is delivered under
                if key is None or not loopvar_over(defs, key, from_stream,
                                                   index=0):
                    return False
                e2 = defs.resolve(e2.func.value)
            if not (isinstance(e2, ast.Attribute) and e2.attr == attr):
                return False
            base = defs.resolve(e2.value)
            return isinstance(base, ast.Attribute) \
                and base.attr == "sequencer"
        return pred
    forwards(rep, ctx, "R8.7", top, streams, {
        "async_flag": cfg_attr("async_flag", False),
        "event_to_async_group_map": cfg_attr("async_event_groups", True),
        "event_types_map_information":
            cfg_attr("event_name_map_information", True)},
        what="options come from config.sequencer, per workflow name")
    # root = the unique span without parent
    root = ctx.func("get_root_event_from_event_id_to_event_map")
    comps = [c for c in ast.walk(root.node) if isinstance(c, ast.comprehension)]
    ok = any(unparse(t) in ("event.parent_event_id is None",)
             or (isinstance(t, ast.Compare) and isinstance(t.ops[0], ast.Is)
                 and isinstance(t.left, ast.Attribute)
                 and t.left.attr == "parent_event_id")
             for c in comps for t in c.ifs)
    rep.ob("R8.7", "root = span whose parent_event_id is None", ok, fi=root,
           node=root.node, detail="root detection filter")


# --------------------------------------------------------------------------
def r88(rep: Report, ctx: Ctx) -> None:
    rep.rule("R8.8", "prior-information grouping: a child whose type is "
             "mapped joins the group its type maps to, every other child is "
             "a group of its own", 3)
    fi = ctx.func("group_events_using_async_information")
    reach = ctx.reach(fi)
    ev_p, map_p = fi.params()[0], fi.params()[1]
    loops = [l for l in ast.walk(fi.node) if isinstance(l, ast.For)
             and isinstance(l.iter, ast.Name) and l.iter.id == ev_p]
    if len(loops) != 1 or not isinstance(loops[0].target, ast.Name):
        raise AnalysisError(f"{fi.qualname}: loop over the children not "
                            "found")
    loop, v = loops[0], loops[0].target.id
    body = effective(loop.body)
    ifs = [i for i in body if isinstance(i, ast.If)]
    mapped = ("cmp", f"{v}.event_type", "In", map_p)
    ok = len(ifs) == 1 and len(body) == 1 and \
        arm_where(ifs[0], mapped) is not None
    rep.ob("R8.8", "membership test on the child's own type", ok, fi=fi,
           node=ifs[0] if ifs else loop,
           detail=f"if {unparse(ifs[0].test) if ifs else '?'} (every child "
                  "is classified by exactly one test of its own type "
                  "against the map)")
    if not ifs or not ok:
        return
    in_arm = arm_where(ifs[0], mapped) or []
    out_arm = arm_where(ifs[0], ("cmp", f"{v}.event_type", "NotIn", map_p)) \
        or []
    apps = [c for st in in_arm for c in ast.walk(st)
            if isinstance(c, ast.Call) and call_name(c) in ("append",)]
    ok = False
    if len(apps) == 1:
        recv = apps[0].func.value
        key = recv.slice if isinstance(recv, ast.Subscript) else None
        if isinstance(recv, ast.Call) and call_name(recv) == "setdefault":
            key = recv.args[0]
        key = reach.resolve_deep(key, at=apps[0]) if key is not None else None
        arg = reach.resolve(apps[0].args[0], at=apps[0])
        ok = key is not None and unparse(key) == \
            f"{map_p}[{v}.event_type]" and unparse(arg) == v
    rep.ob("R8.8", "mapped child joins the group of its mapped id", ok,
           fi=fi, node=apps[0] if apps else ifs[0],
           detail=unparse(apps[0])[:100] if apps else "<missing>")
    other = [c for st in out_arm for c in ast.walk(st)
             if isinstance(c, ast.Call) and call_name(c) == "append"]
    ok = False
    if len(other) == 1:
        arg = reach.resolve(other[0].args[0], at=other[0])
        ok = isinstance(arg, ast.List) and \
            [unparse(e) for e in arg.elts] == [v]
    rep.ob("R8.8", "unmapped child forms a group of its own", ok, fi=fi,
           node=other[0] if other else ifs[0],
           detail=unparse(other[0])[:80] if other else "<missing>")
    # nothing but "no children" may cut the grouping short
    for ret in [n for n in ast.walk(fi.node) if isinstance(n, ast.Return)]:
        gs = guards_of(fi.node, ret)
        if not gs:
            continue
        ok = gs == [("truth", ev_p, "0")] or gs == [
            ("cmp", "0", "Eq", f"len({ev_p})")]
        rep.ob("R8.8", "an early return only for an empty child list", ok,
               fi=fi, node=ret,
               detail=f"'{unparse(ret)}' under {[' '.join(g) for g in gs]}"
                      + ("" if ok else " -- children are dropped from the "
                         "sequence"))
    # the map handed in is the parent's own entry
    anc = ctx.func("sequence_otel_event_ancestors")
    cs = calls_in(ctx, anc, fi)
    a = actual(cs[0], fi, map_p) if cs else None
    defs = ctx.defs(anc)
    ev0, gm = anc.params()[0], "event_to_async_group_map"
    binds = [b for b in defs.of(a.id) if b.value is not None] \
        if isinstance(a, ast.Name) else []
    lookups = [b for b in binds
               if unparse(b.value) == f"{gm}[{ev0}.event_type]"]
    empties = [b for b in binds if isinstance(b.value, ast.Dict)
               and not b.value.keys]
    ok = len(binds) == 2 and len(lookups) == 1 and len(empties) == 1
    if ok:
        has = ("cmp", f"{ev0}.event_type", "In", gm)
        hasnt = ("cmp", f"{ev0}.event_type", "NotIn", gm)
        g1 = guards_of(anc.node, lookups[0].stmt)
        g2 = guards_of(anc.node, empties[0].stmt)
        ok = g1 == [has] and g2 in ([hasnt], [])
    rep.ob("R8.8", "groups come from the parent type's entry (else none)",
           ok, fi=anc, node=cs[0] if cs else anc.node,
           detail=f"{unparse(a)} <- {[unparse(b.value) for b in binds]}; the "
                  "entry is looked up exactly when the parent's type is a "
                  "key of the map")


# --------------------------------------------------------------------------
def r89(rep: Report, ctx: Ctx) -> None:
    """(shared with C16)  Each PV event carries the span's end time: the
    conversion of the nanosecond value to the PV timestamp string must denote
    that instant (UTC, microsecond kept, fixed-width format)."""
    rep.rule("R8.9", "the end time is rendered as the instant it denotes "
             "(ns -> PV timestamp string: R16.3 / R16.4 of C16)", 5)
    from . import c16 as _c16
    sub = Report("C16", ctx.index)
    _c16.check(sub, ctx)
    for o in sub.obligations:
        if o.rule in ("R16.3", "R16.4"):
            o.rule = "R8.9"
            rep.obligations.append(o)
    rep.funcs_seen |= sub.funcs_seen


def r810(rep: Report, ctx: Ctx) -> None:
    """(shared with C12)  "For every trace the emitted PV job contains each
    span exactly once": a broken trace in the stream must not keep the
    well-formed traces after it from being sequenced."""
    rep.rule("R8.10", "every well-formed trace of the stream is sequenced: "
             "a trace that cannot be materialised is skipped on its own", 1)
    from .c12 import per_trace_fresh, per_trace_skip
    per_trace_skip(rep, ctx, "R8.10")
    per_trace_fresh(rep, ctx, "R8.10")
