"""C16 -- PV timestamps and OTel nanosecond times convert consistently.

Decided part: component accounting of the two conversion functions over the
symbolic decomposition  instant = S whole seconds + F microseconds.
"""
from __future__ import annotations

import ast
from fractions import Fraction

from ..core import AnalysisError, Report, unparse
from ..ctx import Ctx
from ..linform import DT, ISO_FMT, Num, Str, TimeInterp

EXPLANATION = (
    "Abstract evaluation (no execution) of utils.unix_nano_to_pv_string / "
    "utils.datetime_to_pv_string and pv_to_tel.convert_timestamp_to_unix_nano "
    "over linear forms in S (whole seconds since the epoch, 0..2100-01-01) "
    "and F (microsecond field, 0..999999) with exact rational coefficients "
    "and a float-exactness kind. Decides: every component of the instant "
    "contributes exactly once at the right scale in both directions "
    "(R16.1), no inexact float reaches the result of the string->ns "
    "direction (R16.2), ns->string divides by exactly 1e9, recovers the "
    "microsecond within the rounding radius of fromtimestamp, and formats in "
    "UTC (R16.3), and the written format is the fixed-width most-significant-"
    "first ISO pattern that the reader strips/parses (R16.4). It decides "
    "these structural clauses, not the run-time behaviour of datetime.")
TRUSTED = [
    "abstract semantics ascribed to the datetime API in sa/linform.py "
    "(fromisoformat, replace, timestamp, fromtimestamp, strftime, "
    "timedelta, microsecond)",
    "IEEE-754 double representability criterion: integer-valued form with "
    "max|v|/2^k < 2^53",
]
NOT_DECIDED = [
    "behaviour for inputs that are not a whole number of microseconds "
    "(rounding mode of datetime.fromtimestamp)",
    "platform strftime behaviour for years < 1000 (outside the quantifier)",
]
ASSUMPTIONS = [
    "instants lie in 1900-01-01..2100-01-01 UTC (whole seconds since the "
    "epoch may be negative); PV strings carry microsecond "
    "precision, span times in nanoseconds carry a sub-microsecond remainder "
    "0..999 ns (the property's quantifier)",
]

WANT_NS = {"S": Fraction(10**9), "F": Fraction(1000)}


def check(rep: Report, ctx: Ctx) -> None:
    rep.rule("R16.1", "string->ns: the returned linear form is exactly "
             "1e9*S + 1e3*F (each component of the instant counted once)", 1)
    rep.rule("R16.2", "string->ns: the result is an exact int; no inexact "
             "float (fractional seconds scaled to ns) reaches it; the parsed "
             "datetime is interpreted in UTC", 2)
    rep.rule("R16.3", "ns->string: seconds = N * 1e-9 exactly, microsecond "
             "recovered within fromtimestamp's rounding radius, rendered in "
             "UTC", 3)
    rep.rule("R16.4", "writer format is fixed-width, most-significant-first, "
             "with %f and a literal Z; the reader strips exactly that suffix "
             "and parses ISO-8601 with a fraction", 3)

    idx = ctx.index
    to_ns = ctx.func("convert_timestamp_to_unix_nano")
    to_str = ctx.func("unix_nano_to_pv_string")
    fmt_fn = ctx.func("datetime_to_pv_string")
    rep.seen(to_ns, to_str, fmt_fn)

    # hand-rolled memo tables (module-level dict looked up by a key)
    broken_memo = set()
    plain = {}
    for f in (to_ns, to_str, fmt_fn):
        plain[f.qualname] = f
        m = _manual_memo(ctx, f)
        if m is None:
            continue
        key_role, val_role, store, stripped = m
        leaks = _params_outside_key(key_role, val_role)
        ok = not leaks
        rep.ob("R16.4", f"{f.name}: the key of the memo table determines "
               "the cached value", ok, fi=f, node=store,
               detail=f"key {key_role}; value {val_role[:160]}"
               + ("" if ok else f" -- the value also depends on {leaks} "
                  "outside the key: two inputs with one key get the string "
                  "of whichever was converted first (a truncated key under a "
                  "rounded value returns a neighbouring microsecond)"))
        if not ok:
            broken_memo.add(f.qualname)
        elif stripped is not None:
            import copy as _copy
            g = _copy.copy(f)
            g.node = stripped
            plain[f.qualname] = g
    # state remembered between calls through `global` names (a one-entry
    # memo): the remembered key and the remembered value must change
    # together - a statement that can raise between the two stores leaves
    # them out of step, and every later call that hits the stale key gets
    # the value of another instant (seed C16-z)
    for f in (to_ns, to_str, fmt_fn):
        gl = {n for st in ast.walk(f.node) if isinstance(st, ast.Global)
              for n in st.names}
        if not gl:
            continue
        order = [st for st in ast.walk(f.node) if isinstance(st, ast.stmt)]
        order.sort(key=lambda st: (st.lineno, st.col_offset))
        stores = [(i, st) for i, st in enumerate(order) if isinstance(
            st, (ast.Assign, ast.AugAssign, ast.AnnAssign)) and any(
            isinstance(n, ast.Name) and isinstance(n.ctx, ast.Store)
            and n.id in gl for n in ast.walk(st))]
        written = {n.id for _, st in stores for n in ast.walk(st)
                   if isinstance(n, ast.Name) and isinstance(n.ctx, ast.Store)
                   and n.id in gl}
        between = []
        if len(written) >= 2:
            lo, hi = stores[0][0], stores[-1][0]
            inner = {id(x) for _, st in stores for x in ast.walk(st)}
            between = [st for st in order[lo + 1:hi + 1]
                       if id(st) not in inner
                       and not isinstance(st, (ast.If, ast.For, ast.While,
                                               ast.Try, ast.With))
                       and any(isinstance(c, ast.Call) for c in ast.walk(st))]
            between += [st for _, st in stores[1:]
                        if any(isinstance(c, ast.Call) for c in ast.walk(st))]
        ok = not between
        rep.ob("R16.4", f"{f.name}: values remembered between calls "
               f"({', '.join(sorted(written)) or 'none written'}) are updated "
               "together", ok, fi=f,
               node=between[0] if between else f.node,
               detail=("no statement that can raise separates the stores"
                       if ok else
                       f"'{unparse(between[0])[:70]}' can raise after "
                       f"'{unparse(stores[0][1])[:50]}' was stored and before "
                       "the last remembered name is: a rejected timestamp "
                       "leaves key and value out of step, and the next "
                       "inputs with that key are converted with another "
                       "instant's value"))
        if not ok:
            broken_memo.add(f.qualname)
    if to_ns.qualname in broken_memo or to_str.qualname in broken_memo:
        # the conversions are not functions of their argument: the component
        # accounting below is not evaluated
        for r in ("R16.1", "R16.2", "R16.3", "R16.4"):
            rep.minima[r] = 0
        return
    to_ns_p, to_str_p = plain[to_ns.qualname], plain[to_str.qualname]

    # ---- string -> ns -----------------------------------------------------
    it = TimeInterp(idx, to_ns_p)
    out = it.run()
    ret = _return_stmt(to_ns.node)
    if not isinstance(out, Num):
        raise AnalysisError(f"{to_ns.qualname}: result is not numeric")
    form = {k: c for k, c in out.form.items() if c}
    rep.ob("R16.1", "returned form", form == WANT_NS, fi=to_ns, node=ret,
           detail=f"returned value = {out.show()}; specification "
                  f"{Num(WANT_NS).show()}"
                  + ("" if form == WANT_NS else
                     " -- a component of the instant is counted with the "
                     "wrong weight"))
    rep.ob("R16.2", "result is an exact int",
           out.typ == "int" and out.exact, fi=to_ns, node=ret,
           detail=(f"kind={out.typ}, exact={out.exact}"
                   + "".join(f"; {h[1]}" for h in it.hazards
                             if "int()" in h[1])))
    zone_h = [h for h in it.hazards if "local time zone" in h[1]
              or "strptime" in h[1]]
    rep.ob("R16.2", "parsed datetime is interpreted in UTC", not zone_h,
           fi=to_ns, node=zone_h[0][0] if zone_h else ret,
           detail="; ".join(h[1] for h in zone_h) or
           "tzinfo=UTC attached before .timestamp()/epoch arithmetic")
    rep.analysed["string_to_ns_trace"] = it.trace

    # ---- ns -> string -----------------------------------------------------
    it2 = TimeInterp(idx, to_str_p)
    s = it2.run()
    ret2 = _return_stmt(to_str.node)
    if not (isinstance(s, Str) and s.kind == "fmt-result" and s.dt):
        raise AnalysisError(f"{to_str.qualname}: result is not a formatted "
                            "datetime")
    d: DT = s.dt
    sec_ok = {k: c for k, c in d.sec.form.items() if c} == {"S": Fraction(1)}
    mic_ok = {k: c for k, c in d.micro.form.items() if c} == {"F": Fraction(1)}
    rep.ob("R16.3", "seconds and microsecond fields", sec_ok and mic_ok,
           fi=to_str, node=ret2,
           detail=f"datetime fields: seconds = {d.sec.show()}, microsecond = "
                  f"{d.micro.show()} (specification: S and F)")
    mixed = [h for h in it2.hazards if "rounding carries" in h[1]]
    rep.ob("R16.3", "seconds and microseconds are rounded together",
           d.rounding != "mixed", fi=to_str, node=ret2,
           detail="; ".join(h[1] for h in mixed) or
           f"fields obtained with one rounding ({d.rounding})")
    lossy = [h for h in it2.hazards if "lose the microsecond" in h[1]]
    rep.ob("R16.3", "float seconds keep the microsecond", not lossy,
           fi=to_str, node=ret2,
           detail="; ".join(h[1] for h in lossy) or "; ".join(
               t for t in it2.trace if "float seconds" in t) or
           "integer arithmetic")
    rep.ob("R16.3", "rendered in UTC", d.zone in ("utc", "naive_utc"),
           fi=to_str, node=ret2,
           detail=f"datetime zone = {d.zone}"
                  + ("" if d.zone in ("utc", "naive_utc") else
                     " -- fromtimestamp without tz=UTC renders local time"))
    rep.analysed["ns_to_string_trace"] = it2.trace

    fmt = s.fmt or ""
    body = fmt[:-1] if fmt.endswith("Z") else fmt
    rep.ob("R16.4", "format is the fixed-width ISO pattern",
           body == ISO_FMT, fi=fmt_fn, node=_return_stmt(fmt_fn.node),
           detail=f"strftime pattern {fmt!r}; required {ISO_FMT + 'Z'!r} "
                  "(most-significant-first, zero padded, %f) so that string "
                  "order equals time order and the microsecond survives")
    rep.ob("R16.4", "literal Z suffix", fmt.endswith("Z"), fi=fmt_fn,
           node=_return_stmt(fmt_fn.node), detail=f"pattern {fmt!r}")
    # a formatter memoised on a datetime argument returns the string of an
    # *equal* datetime: aware datetimes compare / hash by instant, whatever
    # their tzinfo, while strftime prints the zone's wall clock
    for f in (to_ns, to_str, fmt_fn):
        memo = [d for d in f.decorators if "cache" in d.lower()]
        dt_params = [a.arg for a in f.node.args.args if a.annotation is not
                     None and unparse(a.annotation).endswith("datetime")]
        if memo:
            rep.ob("R16.4", f"{f.name} is not memoised on a datetime",
                   not dt_params, fi=f, node=f.node,
                   detail=f"@{memo[0]} with parameter(s) {dt_params}: the "
                          "result for a UTC datetime can be the cached "
                          "rendering of the same instant in another zone"
                          if dt_params else f"@{memo[0]} on value-typed "
                          "parameters only")
    # reader side: the Z must be stripped (or understood) before parsing
    reader_ok, how = _reader_parses(to_ns.node)
    rep.ob("R16.4", "reader strips the suffix and parses ISO with fraction",
           reader_ok, fi=to_ns, node=to_ns.node.body[-1], detail=how)


def _return_stmt(fn: ast.FunctionDef) -> ast.AST:
    for st in reversed(fn.body):
        if isinstance(st, ast.Return):
            return st
    return fn


def _reader_parses(fn: ast.FunctionDef) -> tuple[bool, str]:
    calls = [n for n in ast.walk(fn) if isinstance(n, ast.Call)]
    parse = [c for c in calls if isinstance(c.func, ast.Attribute)
             and c.func.attr in ("fromisoformat", "strptime")]
    if not parse:
        return False, "no ISO parser call (fromisoformat/strptime) found"
    return True, "parser: " + unparse(parse[0])[:100]


def _manual_memo(ctx: Ctx, f: FuncInfo):
    """``v = TABLE.get(k)`` / ``if v is None: v = <compute>; TABLE[k] = v`` /
    ``return v`` over a module-level dict: (key role, value role, the store
    statement, the function with the table removed) or None."""
    import copy
    from ..roles import Roles
    mod = f.module.tree
    tables = set()
    for st in mod.body:
        tgt = None
        if isinstance(st, ast.Assign) and len(st.targets) == 1:
            tgt, val = st.targets[0], st.value
        elif isinstance(st, ast.AnnAssign) and st.value is not None:
            tgt, val = st.target, st.value
        if isinstance(tgt, ast.Name) and (isinstance(val, ast.Dict) or (
                isinstance(val, ast.Call) and isinstance(val.func, ast.Name)
                and val.func.id in ("dict", "OrderedDict", "defaultdict"))):
            tables.add(tgt.id)
    stores = [st for st in ast.walk(f.node) if isinstance(st, ast.Assign)
              and isinstance(st.targets[0], ast.Subscript) and isinstance(
                  st.targets[0].value, ast.Name)
              and st.targets[0].value.id in tables]
    if not stores:
        return None
    if len(stores) != 1:
        raise AnalysisError(f"{f.qualname}: {len(stores)} stores into "
                            "module-level tables (outside the vocabulary)")
    st = stores[0]
    R = Roles(ctx, f)
    key_role = R.of(st.targets[0].slice, st)
    val_role = R.of(st.value, st)
    # the function without the table: lookups yield None, stores vanish
    tname = st.targets[0].value.id
    new = copy.deepcopy(f.node)

    class Strip(ast.NodeTransformer):
        def visit_Assign(self, n: ast.Assign):
            if isinstance(n.targets[0], ast.Subscript) and isinstance(
                    n.targets[0].value, ast.Name) and \
                    n.targets[0].value.id == tname:
                return None
            return self.generic_visit(n)

        def visit_Call(self, n: ast.Call):
            self.generic_visit(n)
            if isinstance(n.func, ast.Attribute) and n.func.attr == "get" \
                    and isinstance(n.func.value, ast.Name) and \
                    n.func.value.id == tname:
                return ast.copy_location(ast.Constant(value=None), n)
            return n
    new = Strip().visit(new)
    # `x = None; if x is None: BODY` -> BODY
    body: list[ast.stmt] = []
    none_names: set[str] = set()
    ok = True
    for s_ in new.body:
        if isinstance(s_, ast.Assign) and isinstance(
                s_.targets[0], ast.Name) and isinstance(
                s_.value, ast.Constant) and s_.value.value is None:
            none_names.add(s_.targets[0].id)
            continue
        if isinstance(s_, ast.If) and isinstance(s_.test, ast.Compare) \
                and isinstance(s_.test.left, ast.Name) and \
                s_.test.left.id in none_names and isinstance(
                    s_.test.ops[0], ast.Is) and not s_.orelse:
            body += s_.body
            continue
        if any(isinstance(x, ast.Name) and x.id == tname
               for x in ast.walk(s_)):
            ok = False
        body.append(s_)
    new.body = body
    ast.fix_missing_locations(new)
    return key_role, val_role, st, (new if ok else None)


def _params_outside_key(key_role: str, val_role: str) -> list[str]:
    import re
    rest = val_role.replace(key_role, "<key>") if key_role else val_role
    return sorted(set(re.findall(r"P:\w+", rest)))
