"""E5 -- abstract interpreter for SQLAlchemy *construction* code.

Evaluates the builder expressions of a function (never the database) to a
small algebra of abstract values and records which statement every
``session.execute`` / ``session.add_all`` runs.  Vocabulary (anything else
becomes ``Opaque`` and raises ``AnalysisError`` only if a rule needs it):

  select/query/filter/where/join/group_by/having/order_by/slice/limit/offset/
  distinct/subquery/exists/not_/or_/and_/in_/not_in/is_/is_not/between,
  ``&`` ``|`` ``~`` and comparisons on columns, ``func.<f>(..).filter(P)``,
  insert/delete/update/values/from_select, Table(...)/CreateTable/DropTable,
  ``<subquery>.c.<col>``, ``<Table>.c.<col>``, ``<Model>.<col>``.

Predicates print in a *normal form*: commutative AND/OR operands sorted,
column on the left of a comparison (operator flipped), ``not_(x.in_(y))`` ==
``x.not_in(y)``, ``between`` expanded, double negation removed -- so sibling
predicates written differently compare equal.  ``evaluate`` gives a predicate
a truth value under an assignment of numbers to columns and parameters (used
for the finite-ordering check of the window predicate).
"""
from __future__ import annotations

import ast
from dataclasses import dataclass, field
from typing import Any, Callable, Optional

from .core import (AnalysisError, ClassInfo, FuncInfo, Index, ModuleInfo,
                   dotted, unparse)

# --------------------------------------------------------------------------
# values
# --------------------------------------------------------------------------


class V:
    def nf(self) -> str:  # normal form
        return repr(self)


@dataclass(frozen=True)
class Opaque(V):
    text: str

    def nf(self) -> str:
        return f"?{self.text}"


@dataclass(frozen=True)
class Param(V):
    """A Python-side value (bound parameter of the statement)."""
    text: str

    def nf(self) -> str:
        return f":{self.text}"


@dataclass(frozen=True)
class Lit(V):
    value: Any

    def nf(self) -> str:
        return repr(self.value)


@dataclass(frozen=True)
class TableRef(V):
    name: str
    temporary: bool = False
    columns: tuple[str, ...] = ()
    is_model: bool = False

    def nf(self) -> str:
        return self.name


@dataclass(frozen=True)
class Col(V):
    table: str
    name: str
    sub: Any = None           # the Select a subquery column belongs to

    def nf(self) -> str:
        return f"{self.table}.{self.name}"


@dataclass(frozen=True)
class Cmp(V):
    op: str
    left: V
    right: V

    def col_left(self) -> "Cmp":
        """The same comparison with the column operand on the left."""
        if not isinstance(self.left, (Col, Agg)) and isinstance(
                self.right, (Col, Agg)):
            return Cmp(FLIP[self.op], self.right, self.left)
        return self

    def nf(self) -> str:
        l, r, op = self.left, self.right, self.op
        if not isinstance(l, (Col, Agg)) and isinstance(r, (Col, Agg)):
            l, r, op = r, l, FLIP[op]
        elif isinstance(l, Col) and isinstance(r, Col) and l.nf() > r.nf() \
                and op in ("==", "!="):
            l, r = r, l
        return f"({l.nf()} {op} {r.nf()})"


FLIP = {"<": ">", "<=": ">=", ">": "<", ">=": "<=", "==": "==", "!=": "!="}
NEG = {"<": ">=", "<=": ">", ">": "<=", ">=": "<", "==": "!=", "!=": "=="}


@dataclass(frozen=True)
class And(V):
    items: tuple[V, ...]

    def nf(self) -> str:
        flat = _flatten(And, self.items)
        return "AND(" + ", ".join(sorted(i.nf() for i in flat)) + ")"


@dataclass(frozen=True)
class Or(V):
    items: tuple[V, ...]

    def nf(self) -> str:
        flat = _flatten(Or, self.items)
        return "OR(" + ", ".join(sorted(i.nf() for i in flat)) + ")"


def _flatten(kind: type, items: tuple[V, ...]) -> list[V]:
    out: list[V] = []
    for i in items:
        if isinstance(i, kind):
            out.extend(_flatten(kind, i.items))  # type: ignore[attr-defined]
        else:
            out.append(i)
    return out


@dataclass(frozen=True)
class Not(V):
    item: V

    def nf(self) -> str:
        i = self.item
        if isinstance(i, Not):
            return i.item.nf()
        if isinstance(i, In):
            return In(i.col, i.what, not i.negated).nf()
        if isinstance(i, IsNull):
            return IsNull(i.col, not i.negated).nf()
        if isinstance(i, Exists):
            return Exists(i.select, not i.negated).nf()
        if isinstance(i, Cmp):
            return Cmp(NEG[i.op], i.left, i.right).nf()
        return f"NOT({i.nf()})"


@dataclass(frozen=True)
class In(V):
    col: V
    what: V
    negated: bool = False

    def nf(self) -> str:
        return f"({self.col.nf()} {'NOT IN' if self.negated else 'IN'} " \
               f"{self.what.nf()})"


@dataclass(frozen=True)
class IsNull(V):
    col: V
    negated: bool = False

    def nf(self) -> str:
        return f"({self.col.nf()} IS {'NOT ' if self.negated else ''}NULL)"


@dataclass(frozen=True)
class Exists(V):
    select: V
    negated: bool = False

    def nf(self) -> str:
        return f"{'NOT ' if self.negated else ''}EXISTS({self.select.nf()})"


@dataclass(frozen=True)
class Agg(V):
    func: str
    args: tuple[V, ...]
    filter: Optional[V] = None

    def nf(self) -> str:
        s = f"{self.func}({', '.join(a.nf() for a in self.args)})"
        return s + (f" FILTER {self.filter.nf()}" if self.filter else "")


@dataclass(frozen=True)
class Guarded(V):
    """A clause applied only when a Python-side condition holds."""
    test: str
    item: V

    def nf(self) -> str:
        return f"WHEN[{self.test}]{self.item.nf()}"


@dataclass(frozen=True)
class ForEach(V):
    """``[elt for target in iter]`` of predicates (spread by ``*``)."""
    elt: V
    target: str
    iter: str

    def nf(self) -> str:
        return f"FOREACH[{self.target} in {self.iter}]{self.elt.nf()}"


@dataclass(frozen=True)
class Select(V):
    cols: tuple[V, ...] = ()
    where: tuple[V, ...] = ()
    joins: tuple[tuple[V, Optional[V]], ...] = ()
    group_by: tuple[V, ...] = ()
    having: tuple[V, ...] = ()
    order_by: tuple[V, ...] = ()
    distinct: bool = False
    window: Optional[tuple[V, V]] = None       # slice(start, stop) / limit
    subquery: bool = False
    style: str = "select"                      # select | query | exists
    extras: tuple[str, ...] = ()               # yield_per etc.

    def with_(self, **kw: Any) -> "Select":
        d = {f: getattr(self, f) for f in self.__dataclass_fields__}
        d.update(kw)
        return Select(**d)

    def nf(self) -> str:
        if self.style == "exists":
            w = (And(self.where).nf() if len(self.where) > 1
                 else self.where[0].nf() if self.where else "TRUE")
            return f"EXISTS({w})"
        parts = ["SELECT" + (" DISTINCT" if self.distinct else ""),
                 ", ".join(c.nf() for c in self.cols)]
        subs = []
        for c in self.cols:
            if isinstance(c, Col) and c.sub is not None and c.sub not in subs:
                subs.append(c.sub)
        for sq in subs:
            parts.append(f"FROM {sq.nf()}")
        for t, on in self.joins:
            parts.append(f"JOIN {t.nf()} ON {on.nf() if on else '?'}")
        if self.where:
            parts.append("WHERE " + And(self.where).nf()
                         if len(self.where) > 1 else
                         "WHERE " + self.where[0].nf())
        if self.group_by:
            parts.append("GROUP BY " + ", ".join(
                sorted(c.nf() for c in self.group_by)))
        if self.having:
            parts.append("HAVING " + (And(self.having).nf()
                                      if len(self.having) > 1
                                      else self.having[0].nf()))
        if self.order_by:
            parts.append("ORDER BY " + ", ".join(
                c.nf() for c in self.order_by))
        if self.window:
            parts.append(f"SLICE {self.window[0].nf()}..{self.window[1].nf()}")
        return "(" + " ".join(parts) + ")"

    def tables(self) -> set[str]:
        out: set[str] = set()
        for c in self.cols:
            if isinstance(c, Col):
                out.add(c.table)
            elif isinstance(c, TableRef):
                out.add(c.name)
        for t, _ in self.joins:
            if isinstance(t, TableRef):
                out.add(t.name)
        return out


@dataclass(frozen=True)
class Delete(V):
    table: V
    where: tuple[V, ...] = ()

    def nf(self) -> str:
        w = (And(self.where).nf() if len(self.where) > 1
             else self.where[0].nf() if self.where else "TRUE")
        return f"DELETE FROM {self.table.nf()} WHERE {w}"


@dataclass(frozen=True)
class Update(V):
    table: V
    where: tuple[V, ...] = ()
    values: tuple[tuple[str, V], ...] = ()

    def nf(self) -> str:
        w = (And(self.where).nf() if len(self.where) > 1
             else self.where[0].nf() if self.where else "TRUE")
        vs = ", ".join(f"{k}={v.nf()}" for k, v in self.values)
        return f"UPDATE {self.table.nf()} SET {vs} WHERE {w}"


@dataclass(frozen=True)
class Insert(V):
    table: V
    from_select: Optional[tuple[tuple[str, ...], V]] = None
    values: Optional[V] = None
    prefixes: tuple[str, ...] = ()

    def nf(self) -> str:
        if self.from_select:
            return (f"INSERT INTO {self.table.nf()}"
                    f"({', '.join(self.from_select[0])}) "
                    f"{self.from_select[1].nf()}")
        return f"INSERT INTO {self.table.nf()} VALUES " \
               f"{self.values.nf() if self.values else '?'}"


@dataclass(frozen=True)
class DDL(V):
    kind: str                    # create | drop
    table: V

    def nf(self) -> str:
        return f"{self.kind.upper()} TABLE {self.table.nf()}"


@dataclass(frozen=True)
class SessionV(V):
    text: str


@dataclass(frozen=True)
class Result(V):
    stmt: V
    how: str

    def nf(self) -> str:
        return f"RESULT[{self.how}]{self.stmt.nf()}"


@dataclass(frozen=True)
class ModelObj(V):
    """Instance(s) of a mapped class (to be add_all-ed)."""
    table: str
    text: str

    def nf(self) -> str:
        return f"<{self.table} objects {self.text}>"


@dataclass
class Exec:
    kind: str                    # execute | add_all | commit | rollback | close
    stmt: Optional[V]
    node: ast.AST
    func: FuncInfo
    in_try: bool = False
    in_finally: bool = False
    in_loop: bool = False
    guards: tuple[str, ...] = ()
    chain: tuple[str, ...] = ()  # interprocedural path of function names
    sites: tuple[tuple[FuncInfo, ast.AST], ...] = ()  # (function, node) steps

    def where(self) -> str:
        return " -> ".join(self.chain)


# --------------------------------------------------------------------------
# schema
# --------------------------------------------------------------------------

@dataclass
class Schema:
    models: dict[str, TableRef] = field(default_factory=dict)   # class name
    tables: dict[str, TableRef] = field(default_factory=dict)   # variable
    unique: dict[str, set[str]] = field(default_factory=dict)   # table -> cols
    pk: dict[str, list[str]] = field(default_factory=dict)
    fks: dict[str, dict[str, str]] = field(default_factory=dict)
    relationships: dict[str, dict[str, dict[str, str]]] = field(
        default_factory=dict)
    nodes: dict[str, ast.AST] = field(default_factory=dict)


def extract_schema(index: Index) -> Schema:
    sch = Schema()
    for mod in index.modules.values():
        for cname, ci in mod.classes.items():
            tn = None
            for st in ci.node.body:
                if isinstance(st, ast.Assign) and any(
                        isinstance(t, ast.Name) and t.id == "__tablename__"
                        for t in st.targets) and isinstance(
                        st.value, ast.Constant):
                    tn = st.value.value
            if tn is None:
                continue
            cols = []
            for fname, st in ci.fields():
                if isinstance(st.value, ast.Call) and dotted(
                        st.value.func) in ("mapped_column", "Column",
                                           "sa.Column"):
                    cols.append(fname)
                    for k in st.value.keywords:
                        if k.arg == "unique" and isinstance(
                                k.value, ast.Constant) and k.value.value:
                            sch.unique.setdefault(tn, set()).add(fname)
                        if k.arg == "primary_key" and isinstance(
                                k.value, ast.Constant) and k.value.value:
                            sch.pk.setdefault(tn, []).append(fname)
                    for a in st.value.args:
                        if isinstance(a, ast.Call) and dotted(a.func) in (
                                "ForeignKey", "sa.ForeignKey") and a.args \
                                and isinstance(a.args[0], ast.Constant):
                            sch.fks.setdefault(tn, {})[fname] = \
                                a.args[0].value
                elif isinstance(st.value, ast.Call) and dotted(
                        st.value.func) in ("relationship",):
                    rel = {k.arg: unparse(k.value)
                           for k in st.value.keywords if k.arg}
                    sch.relationships.setdefault(tn, {})[fname] = rel
                    sch.nodes[f"{tn}.{fname}"] = st
            sch.models[cname] = TableRef(tn, False, tuple(cols), True)
            sch.nodes[tn] = ci.node
        for vname, sts in mod.assigns.items():
            for st in sts:
                v = st.value  # type: ignore[attr-defined]
                if isinstance(v, ast.Call) and dotted(v.func) in (
                        "Table", "sa.Table") and v.args and isinstance(
                        v.args[0], ast.Constant):
                    t = _table_from_call(v, sch)
                    sch.tables[vname] = t
                    sch.nodes[t.name] = st
    return sch


def _table_from_call(v: ast.Call, sch: Schema, resolve=None) -> TableRef:
    tn = v.args[0].value  # type: ignore[attr-defined]
    cols, temp = [], False
    for a in v.args[1:]:
        if isinstance(a, ast.Call) and dotted(a.func) in ("Column",
                                                           "sa.Column") \
                and a.args and isinstance(a.args[0], ast.Constant):
            cn = a.args[0].value
            cols.append(cn)
            for k in a.keywords:
                if k.arg == "primary_key" and isinstance(
                        k.value, ast.Constant) and k.value.value:
                    sch.pk.setdefault(tn, []).append(cn)
                if k.arg == "unique" and isinstance(
                        k.value, ast.Constant) and k.value.value:
                    sch.unique.setdefault(tn, set()).add(cn)
            for x in a.args[1:]:
                if isinstance(x, ast.Call) and dotted(x.func) in (
                        "ForeignKey", "sa.ForeignKey") and x.args \
                        and isinstance(x.args[0], ast.Constant):
                    sch.fks.setdefault(tn, {})[cn] = x.args[0].value
    for k in v.keywords:
        if k.arg == "prefixes":
            kv = resolve(k.value) if resolve is not None else k.value
            try:
                vals = [e.value for e in kv.elts]  # type: ignore
            except Exception:
                vals = []
            temp = any(str(x).upper() in ("TEMPORARY", "TEMP") for x in vals)
    return TableRef(tn, temp, tuple(cols), False)


# --------------------------------------------------------------------------
# interpreter
# --------------------------------------------------------------------------

BOOL_FUNCS = {"or_": Or, "and_": And}
CMP_OPS = {ast.Lt: "<", ast.LtE: "<=", ast.Gt: ">", ast.GtE: ">=",
           ast.Eq: "==", ast.NotEq: "!="}


class SqlInterp:
    """Abstractly evaluates one function (and, on request, repository
    callees) and collects :class:`Exec` records."""

    def __init__(self, index: Index, schema: Schema, fi: FuncInfo,
                 args: Optional[dict[str, V]] = None,
                 chain: tuple[str, ...] = (), depth: int = 0,
                 follow: bool = True,
                 sites: tuple[tuple[FuncInfo, ast.AST], ...] = ()) -> None:
        self.index, self.schema, self.fi = index, schema, fi
        self.env: dict[str, V] = {}
        self.execs: list[Exec] = []
        self.returns: list[V] = []
        self.chain = chain + (fi.short,)
        self.sites = sites
        self.depth = depth
        self.follow = follow
        self._try = 0
        self._finally = 0
        self._loop = 0
        self._guards: list[str] = []
        for p in fi.node.args.args + fi.node.args.kwonlyargs:
            ann = unparse(p.annotation) if p.annotation else ""
            if args and p.arg in args:
                self.env[p.arg] = args[p.arg]
            elif ann.endswith("Table"):
                self.env[p.arg] = TableRef(f"<param {p.arg}>")
            elif ann.endswith("Session"):
                self.env[p.arg] = SessionV(p.arg)
            else:
                m = self._model_of_annotation(p.annotation)
                self.env[p.arg] = m if m is not None else Param(p.arg)

    def _model_of_annotation(self, ann: Optional[ast.AST]) -> Optional[V]:
        if ann is None:
            return None
        for n in ast.walk(ann):
            if isinstance(n, ast.Name) and n.id in self.schema.models \
                    and not (isinstance(ann, ast.Name)):
                return ModelObj(self.schema.models[n.id].name, unparse(ann))
        return None

    def _self_attr_model(self, attr: str) -> Optional[V]:
        for c in self.fi.cls.mro():  # type: ignore[union-attr]
            for n in ast.walk(c.node):
                if isinstance(n, ast.AnnAssign) and isinstance(
                        n.target, ast.Attribute) and n.target.attr == attr \
                        and isinstance(n.target.value, ast.Name) \
                        and n.target.value.id == "self":
                    for x in ast.walk(n.annotation):
                        if isinstance(x, ast.Name) and x.id in \
                                self.schema.models:
                            return ModelObj(self.schema.models[x.id].name,
                                            f"self.{attr}")
        return None

    # -- statements -----------------------------------------------------------
    def run(self) -> "SqlInterp":
        self.block(self.fi.node.body)
        return self

    def block(self, stmts: list[ast.stmt]) -> None:
        for st in stmts:
            self.stmt(st)

    def stmt(self, st: ast.stmt) -> None:
        if isinstance(st, ast.Assign):
            v = self.ev(st.value)
            for t in st.targets:
                self._bind(t, v)
        elif isinstance(st, ast.AnnAssign):
            if st.value is not None:
                self._bind(st.target, self.ev(st.value))
        elif isinstance(st, ast.AugAssign):
            self.ev(st.value)
            if isinstance(st.target, ast.Name):
                self.env[st.target.id] = Param(st.target.id)
        elif isinstance(st, ast.Expr):
            self.ev(st.value)
        elif isinstance(st, ast.Return):
            if st.value is not None:
                self.returns.append(self.ev(st.value))
        elif isinstance(st, (ast.With, ast.AsyncWith)):
            exits: list[FuncInfo] = []
            for it in st.items:
                v = self.ev(it.context_expr)
                if it.optional_vars is not None:
                    self._bind(it.optional_vars, v)
                if not isinstance(v, SessionV) and isinstance(
                        it.context_expr, (ast.Name, ast.Attribute)):
                    ex = self._context_exit()
                    if ex is not None:
                        exits.append(ex)
            self.block(st.body)
            for ex in exits:
                if self.follow and self.depth < 8 \
                        and ex.short not in self.chain:
                    sub = self._sub(ex, {}, st)
                    sub._loop, sub._try = self._loop, self._try
                    sub._guards = list(self._guards)
                    sub.run()
                    self.execs.extend(sub.execs)
        elif isinstance(st, ast.If):
            test = unparse(st.test)
            self.ev(st.test)
            before = dict(self.env)
            self._guards.append(test)
            self.block(st.body)
            self._guards.pop()
            after_t = dict(self.env)
            self.env = dict(before)
            self._guards.append(f"not ({test})")
            self.block(st.orelse)
            self._guards.pop()
            after_f = dict(self.env)
            self.env = self._merge(test, before, after_t, after_f)
        elif isinstance(st, (ast.For, ast.AsyncFor)):
            it = self.ev(st.iter)
            if isinstance(it, Select):
                self._rec("read", it, st.iter)
            self._loop_carried(st)
            self._bind(st.target, Param(f"<each of {unparse(st.iter)[:40]}>")
                       if not isinstance(it, (Result, ModelObj)) else
                       Param(f"<row of {unparse(st.iter)[:40]}>"))
            self._loop += 1
            self.block(st.body)
            self._loop -= 1
            self.block(st.orelse)
        elif isinstance(st, ast.While):
            self._loop_carried(st)
            self._loop += 1
            self.block(st.body)
            self._loop -= 1
        elif isinstance(st, ast.Try):
            self._try += 1
            self.block(st.body)
            self._try -= 1
            for h in st.handlers:
                self.block(h.body)
            self.block(st.orelse)
            self._finally += 1
            self.block(st.finalbody)
            self._finally -= 1
        elif isinstance(st, ast.Match):
            for c in st.cases:
                self.block(c.body)
        # raise / pass / break / continue / def / import: nothing to do

    def _context_exit(self) -> Optional[FuncInfo]:
        """``with <repository object>:`` -- the most derived ``__exit__`` of
        the only class family that defines one."""
        exits = [m for m in self.index.by_simple_name.get("__exit__", [])
                 if m.cls is not None]
        if not exits:
            return None
        leaf = [m for m in exits if not any(
            o is not m and o.cls in m.cls.all_subclasses() for o in exits)]
        roots = {m.cls.mro()[-1].name for m in exits}
        if len(leaf) == 1 and len(roots) == 1:
            return leaf[0]
        return None

    def _loop_carried(self, loop: ast.AST) -> None:
        """Names updated inside a loop are not their pre-loop value."""
        for n in ast.walk(loop):
            if isinstance(n, ast.AugAssign) and isinstance(n.target, ast.Name):
                self.env[n.target.id] = Param(n.target.id)

    def _merge(self, test: str, before: dict[str, V], t: dict[str, V],
               f: dict[str, V]) -> dict[str, V]:
        out: dict[str, V] = {}
        for k in set(t) | set(f):
            a, b = t.get(k), f.get(k)
            if a is None or b is None:
                out[k] = a if a is not None else b  # type: ignore
            elif a == b:
                out[k] = a
            elif isinstance(a, Select) and isinstance(b, Select) \
                    and a.where[:len(b.where)] == b.where \
                    and a.with_(where=b.where) == b:
                extra = tuple(Guarded(test, w) for w in a.where[len(b.where):])
                out[k] = b.with_(where=b.where + extra)
            elif isinstance(a, Select) and isinstance(b, Select) \
                    and b.where[:len(a.where)] == a.where \
                    and b.with_(where=a.where) == a:
                extra = tuple(Guarded(f"not ({test})", w)
                              for w in b.where[len(a.where):])
                out[k] = a.with_(where=a.where + extra)
            else:
                out[k] = Opaque(f"<{k}: differs by branch on {test}>")
        return out

    def _bind(self, target: ast.AST, v: V) -> None:
        if isinstance(target, ast.Name):
            self.env[target.id] = v
        elif isinstance(target, (ast.Tuple, ast.List)):
            for i, e in enumerate(target.elts):
                if isinstance(v, Param) and not v.text.startswith("<"):
                    self._bind(e, Param(f"{v.text}[{i}]"))
                else:
                    self._bind(e, Param(f"<part of {v.nf()[:40]}>"))

    # -- expressions ----------------------------------------------------------
    def ev(self, e: ast.AST) -> V:
        if isinstance(e, ast.Constant):
            return Lit(e.value)
        if isinstance(e, ast.Name):
            if e.id in self.env:
                return self.env[e.id]
            if e.id in self.schema.models:
                return self.schema.models[e.id]
            if e.id in self.schema.tables:
                return self.schema.tables[e.id]
            return Param(e.id)
        if isinstance(e, ast.Attribute):
            return self._attr(e)
        if isinstance(e, ast.Subscript):
            base = self.ev(e.value)
            if isinstance(base, (Param, Opaque)):
                return Param(unparse(e))
            return Param(unparse(e))
        if isinstance(e, ast.Compare) and len(e.ops) == 1:
            l, r = self.ev(e.left), self.ev(e.comparators[0])
            op = CMP_OPS.get(type(e.ops[0]))
            if op and (_is_sql(l) or _is_sql(r)):
                return Cmp(op, l, r)
            return Param(unparse(e))
        if isinstance(e, ast.BinOp) and isinstance(e.op, (ast.BitAnd,
                                                           ast.BitOr)):
            l, r = self.ev(e.left), self.ev(e.right)
            if _is_sql(l) or _is_sql(r):
                return (And if isinstance(e.op, ast.BitAnd) else Or)((l, r))
            return Param(unparse(e))
        if isinstance(e, ast.BinOp):
            l, r = self.ev(e.left), self.ev(e.right)
            if _is_sql(l) or _is_sql(r):
                return Opaque(unparse(e))
            return Param(unparse(e))
        if isinstance(e, ast.UnaryOp) and isinstance(e.op, ast.Invert):
            v = self.ev(e.operand)
            return Not(v) if _is_sql(v) else Param(unparse(e))
        if isinstance(e, ast.Call):
            return self._call(e)
        if isinstance(e, (ast.ListComp, ast.GeneratorExp, ast.SetComp)):
            if len(e.generators) == 1:
                g = e.generators[0]
                saved = dict(self.env)
                self.ev(g.iter)
                self._bind(g.target, Param("<comp>"))
                for n in ast.walk(g.target):
                    if isinstance(n, ast.Name):
                        self.env[n.id] = Param(n.id)
                elt = self.ev(e.elt)
                self.env = saved
                if _is_sql(elt):
                    return ForEach(elt, unparse(g.target), unparse(g.iter))
                if isinstance(elt, ModelObj):
                    return ModelObj(elt.table, unparse(e)[:60])
            return Param(unparse(e)[:80])
        if isinstance(e, (ast.List, ast.Tuple, ast.Set)):
            items = [self.ev(x) for x in e.elts]
            if items and all(isinstance(i, ModelObj) for i in items):
                return ModelObj(items[0].table, unparse(e)[:60])  # type: ignore
            return Param(unparse(e)[:80])
        if isinstance(e, ast.Starred):
            return self.ev(e.value)
        if isinstance(e, ast.IfExp):
            return Param(unparse(e)[:80])
        if isinstance(e, ast.JoinedStr):
            return Param("<f-string>")
        if isinstance(e, ast.Lambda):
            return Param("<lambda>")
        if isinstance(e, (ast.Dict, ast.DictComp)):
            return Param(unparse(e)[:80])
        if isinstance(e, ast.BoolOp):
            for v in e.values:
                self.ev(v)
            return Param(unparse(e)[:80])
        if isinstance(e, ast.UnaryOp):
            self.ev(e.operand)
            return Param(unparse(e)[:80])
        return Opaque(unparse(e)[:80])

    def _attr(self, e: ast.Attribute) -> V:
        d = dotted(e) or ""
        if e.attr == "session":
            return SessionV(d)
        if isinstance(e.value, ast.Name) and e.value.id == "self" \
                and self.fi.cls is not None:
            m = self._self_attr_model(e.attr)
            if m is not None:
                return m
        base = self.ev(e.value)
        if isinstance(base, TableRef):
            if e.attr == "c":
                return base
            if base.is_model or e.attr in base.columns or True:
                if e.attr in ("metadata", "__table__"):
                    return Param(d)
                return Col(base.name, e.attr)
        if isinstance(base, Select) and e.attr == "c":
            return base
        if isinstance(base, Select):
            # <subquery>.c.<col>
            return Col(f"sub", e.attr, base)
        if isinstance(base, ModelObj):
            return Param(d)
        if isinstance(base, Result):
            return Param(d)
        return Param(d or unparse(e))

    def _call(self, e: ast.Call) -> V:
        f = e.func
        d = dotted(f) or ""
        last = d.split(".")[-1] if d else (
            f.attr if isinstance(f, ast.Attribute) else "")
        args = [self.ev(a) for a in e.args]
        kws = {k.arg: self.ev(k.value) for k in e.keywords if k.arg}
        # ---- free functions / constructors
        if d in ("sa.select", "select"):
            cols: list[V] = []
            for a in args:
                if isinstance(a, Select) and a.subquery:
                    cols.extend(Col("sub", _colname(c), a) for c in a.cols)
                else:
                    cols.append(a)
            return Select(tuple(cols))
        if d in ("sa.delete", "delete"):
            return Delete(args[0])
        if d in ("sa.update", "update"):
            return Update(args[0])
        if d in ("sa.insert", "insert"):
            return Insert(args[0])
        if d in ("sa.exists", "exists"):
            return Select(tuple(args), style="exists")
        if last in ("not_",) and len(args) == 1:
            return Not(args[0])
        if last in BOOL_FUNCS:
            return BOOL_FUNCS[last](tuple(args))
        if d in ("sa.Table", "Table") and e.args and isinstance(
                e.args[0], ast.Constant):
            from .dataflow import Defs
            d_ = Defs(self.fi.node)

            def _res(x: ast.AST) -> ast.AST:
                if isinstance(x, ast.Name):
                    bs = [b for b in d_.of(x.id) if b.value is not None]
                    if len(bs) == 1:
                        return bs[0].value
                return x
            return _table_from_call(e, self.schema, _res)
        if last in ("CreateTable", "DropTable") and args:
            return DDL("create" if last == "CreateTable" else "drop", args[0])
        if d.startswith(("sa.func.", "func.")):
            return Agg(last, tuple(args))
        if isinstance(f, ast.Name) and f.id in self.schema.models:
            return ModelObj(self.schema.models[f.id].name, unparse(e)[:60])
        # ---- methods
        if isinstance(f, ast.Attribute):
            recv = self.ev(f.value)
            r = self._method(recv, f.attr, args, kws, e)
            if r is not None:
                return r
        # ---- repository callees (interprocedural)
        callee = self._resolve_callee(e)
        if callee is not None and self.follow and self.depth < 8 \
                and callee.short not in self.chain:
            actuals: dict[str, V] = {}
            params = [p.arg for p in callee.node.args.args]
            if callee.cls is not None and params and params[0] == "self":
                params = params[1:]
            for p, a in zip(params, args):
                actuals[p] = a
            for k, v in kws.items():
                actuals[k] = v
            sub = self._sub(callee, actuals, e)
            sub._loop = self._loop
            sub._try = self._try
            sub._guards = list(self._guards)
            sub.run()
            self.execs.extend(sub.execs)
            if sub.returns:
                return sub.returns[-1]
            return Param(f"<{callee.short}()>")
        if isinstance(f, ast.Name) and f.id in ("list", "set", "tuple",
                                                "sorted", "tqdm", "iter",
                                                "enumerate") and args:
            if isinstance(args[0], Select):
                self._rec("read", args[0], e)
                return Result(args[0], f.id)
            return args[0] if isinstance(args[0], (ModelObj, Result)) \
                else Param(unparse(e)[:80])
        return Param(unparse(e)[:80])

    def _sub(self, callee: FuncInfo, actuals: dict[str, V], site: ast.AST
             ) -> "SqlInterp":
        return SqlInterp(self.index, self.schema, callee, actuals,
                         self.chain, self.depth + 1, self.follow,
                         self.sites + ((self.fi, site),))

    def _resolve_callee(self, e: ast.Call) -> Optional[FuncInfo]:
        f = e.func
        if isinstance(f, ast.Name):
            got = self.index.resolve_name(self.fi.module, f.id)
            return got if isinstance(got, FuncInfo) else None
        if isinstance(f, ast.Attribute):
            if isinstance(f.value, ast.Name) and f.value.id == "self" \
                    and self.fi.cls is not None:
                ms = [m for m in self.fi.cls.lookup(f.attr)
                      if not m.is_property_setter]
                for sub in self.fi.cls.all_subclasses():
                    ms += sub.methods.get(f.attr, [])
                conc = [m for m in ms if "abstractmethod" not in m.decorators]
                if len(conc) == 1:
                    return conc[0]
                return ms[0] if ms else None
            if isinstance(f.value, ast.Call) and isinstance(
                    f.value.func, ast.Name) and f.value.func.id == "super" \
                    and self.fi.cls is not None:
                for b in self.fi.cls.bases:
                    ms = b.lookup(f.attr)
                    if ms:
                        return ms[0]
                return None
            cands = [m for m in self.index.by_simple_name.get(f.attr, [])
                     if m.cls is not None and not m.is_property_getter]
            if len(cands) == 1 and f.attr not in ("get", "add", "update",
                                                   "append", "execute",
                                                   "commit", "close"):
                return cands[0]
            # abstract base + one concrete override
            concrete = [m for m in cands if "abstractmethod"
                        not in m.decorators]
            if cands and len(concrete) == 1 and len(cands) <= 2:
                return concrete[0]
        return None

    def _rec(self, kind: str, stmt: Optional[V], node: ast.AST) -> None:
        self.execs.append(Exec(kind, stmt, node, self.fi, self._try > 0,
                               self._finally > 0, self._loop > 0,
                               tuple(self._guards), self.chain,
                               self.sites + ((self.fi, node),)))

    def _method(self, recv: V, m: str, args: list[V], kws: dict[str, V],
                e: ast.Call) -> Optional[V]:
        if isinstance(recv, SessionV):
            if m == "query":
                return Select(tuple(args), style="query")
            if m == "execute":
                self._rec("execute", args[0] if args else None, e)
                return Result(args[0] if args else Opaque("?"), "execute")
            if m in ("add_all", "bulk_save_objects"):
                self._rec("add_all", args[0] if args else None, e)
                return Lit(None)
            if m == "add":
                self._rec("add_all", args[0] if args else None, e)
                return Lit(None)
            if m in ("commit", "rollback", "close", "flush"):
                self._rec(m, None, e)
                return Lit(None)
            if m in ("scalars", "scalar"):
                self._rec("execute", args[0] if args else None, e)
                return Result(args[0] if args else Opaque("?"), m)
            return Param(unparse(e)[:60])
        if isinstance(recv, Select):
            s = recv
            if m in ("filter", "where"):
                return s.with_(where=s.where + tuple(args))
            if m == "filter_by":
                return s.with_(where=s.where + tuple(
                    Cmp("==", Col("?", k), v) for k, v in kws.items()))
            if m == "join":
                on = args[1] if len(args) > 1 else kws.get("onclause")
                return s.with_(joins=s.joins + ((args[0], on),))
            if m in ("outerjoin",):
                on = args[1] if len(args) > 1 else kws.get("onclause")
                return s.with_(joins=s.joins + ((args[0], on),),
                               extras=s.extras + ("outerjoin",))
            if m == "group_by":
                return s.with_(group_by=s.group_by + tuple(args))
            if m == "having":
                return s.with_(having=s.having + tuple(args))
            if m == "order_by":
                return s.with_(order_by=s.order_by + tuple(args))
            if m == "distinct":
                return s.with_(distinct=True)
            if m == "slice" and len(args) == 2:
                return s.with_(window=(args[0], args[1]))
            if m == "limit" and args:
                return s.with_(window=(Lit(0), args[0]),
                               extras=s.extras + ("limit",))
            if m == "offset" and args:
                return s.with_(extras=s.extras + (f"offset {args[0].nf()}",))
            if m == "subquery" or m == "scalar_subquery" or m == "cte":
                return s.with_(subquery=True)
            if m in ("yield_per", "execution_options", "options",
                     "select_from", "correlate", "alias"):
                return s.with_(extras=s.extras + (m,))
            if m in ("all", "first", "one", "count", "scalar", "one_or_none",
                     "fetchall"):
                self._rec("read", s, e)
                return Result(s, m)
            if m == "exists":
                return s.with_(style="exists")
            if m == "delete":
                st = Delete(_table_of_select(s), s.where)
                self._rec("execute", st, e)
                return Result(st, "query.delete")
            if m == "update":
                st = Update(_table_of_select(s), s.where,
                            tuple(("?", a) for a in args))
                self._rec("execute", st, e)
                return Result(st, "query.update")
            return Opaque(unparse(e)[:60])
        if isinstance(recv, (Delete, Update)):
            if m in ("where", "filter"):
                return type(recv)(**{**recv.__dict__,
                                     "where": recv.where + tuple(args)})
            if m == "values" and isinstance(recv, Update):
                return Update(recv.table, recv.where,
                              recv.values + tuple(kws.items()))
            if m in ("execution_options", "returning"):
                return recv
            return Opaque(unparse(e)[:60])
        if isinstance(recv, Insert):
            if m == "from_select" and len(e.args) == 2:
                names = tuple(
                    x.value if isinstance(x, ast.Constant) else unparse(x)
                    for x in getattr(e.args[0], "elts", []))
                return Insert(recv.table, (names, args[1]), None,
                              recv.prefixes)
            if m == "values":
                return Insert(recv.table, None, args[0] if args else Param(
                    str(kws)), recv.prefixes)
            if m in ("prefix_with",):
                return Insert(recv.table, recv.from_select, recv.values,
                              recv.prefixes + tuple(
                                  str(a.value) for a in args
                                  if isinstance(a, Lit)))
            if m in ("on_conflict_do_nothing", "on_conflict_do_update"):
                return Insert(recv.table, recv.from_select, recv.values,
                              recv.prefixes + ("ON CONFLICT",))
            return Opaque(unparse(e)[:60])
        if isinstance(recv, TableRef):
            if m == "insert":
                return Insert(recv)
            if m == "delete":
                return Delete(recv)
            if m == "update":
                return Update(recv)
            if m == "select":
                return Select((recv,))
            if m in ("create", "drop"):
                self._rec("execute", DDL(m, recv), e)
                return Lit(None)
        if isinstance(recv, Col):
            if m == "in_" and args:
                return In(recv, args[0])
            if m in ("not_in", "notin_") and args:
                return In(recv, args[0], True)
            if m == "is_" and args:
                if isinstance(args[0], Lit) and args[0].value is None:
                    return IsNull(recv)
                return Cmp("==", recv, args[0])
            if m in ("is_not", "isnot") and args:
                if isinstance(args[0], Lit) and args[0].value is None:
                    return IsNull(recv, True)
                return Cmp("!=", recv, args[0])
            if m == "between" and len(args) == 2:
                return And((Cmp(">=", recv, args[0]),
                            Cmp("<=", recv, args[1])))
            if m in ("asc",):
                return recv
            if m in ("desc",):
                return Agg("DESC", (recv,))
            return Opaque(unparse(e)[:60])
        if isinstance(recv, Agg):
            if m == "filter":
                p = args[0] if len(args) == 1 else And(tuple(args))
                return Agg(recv.func, recv.args, p)
            if m == "label":
                return recv
        if isinstance(recv, Result):
            if m in ("fetchall", "all", "scalars", "first", "scalar",
                     "scalar_one", "one"):
                return Result(recv.stmt, m)
        if isinstance(recv, (And, Or, Cmp, Not, In, IsNull, Exists)):
            if m == "self_group":
                return recv
        return None


def _is_sql(v: V) -> bool:
    return isinstance(v, (Col, Cmp, And, Or, Not, In, IsNull, Exists, Agg,
                          Select, ForEach, Guarded))


def _colname(c: V) -> str:
    if isinstance(c, Col):
        return c.name
    return c.nf()


def _table_of_select(s: Select) -> V:
    for c in s.cols:
        if isinstance(c, TableRef):
            return c
        if isinstance(c, Col):
            return TableRef(c.table)
    return Opaque("?table")


def exists_of(v: V) -> V:
    """``not_(sa.exists().where(P))`` -> NOT EXISTS."""
    if isinstance(v, Select) and v.style == "exists":
        return Exists(v)
    return v


def normalise(v: V) -> V:
    """Rewrite exists-style selects in predicate position."""
    if isinstance(v, Not):
        return Not(normalise(v.item))
    if isinstance(v, And):
        return And(tuple(normalise(i) for i in v.items))
    if isinstance(v, Or):
        return Or(tuple(normalise(i) for i in v.items))
    return exists_of(v)


# --------------------------------------------------------------------------
# evaluation of a predicate under an assignment (finite orderings)
# --------------------------------------------------------------------------

def evaluate(p: V, cols: dict[str, Any], params: dict[str, Any]) -> bool:
    """Truth value of a row-level predicate.  ``cols`` maps column *names*
    to numbers, ``params`` maps parameter texts to numbers."""
    def val(x: V) -> Any:
        if isinstance(x, Col):
            if x.name not in cols:
                raise AnalysisError(f"predicate mentions column {x.nf()} "
                                    "outside the window vocabulary")
            return cols[x.name]
        if isinstance(x, Param):
            if x.text not in params:
                raise AnalysisError(f"predicate mentions parameter "
                                    f"{x.text} outside the window vocabulary")
            return params[x.text]
        if isinstance(x, Lit):
            return x.value
        raise AnalysisError(f"cannot evaluate {x.nf()}")

    if isinstance(p, And):
        return all(evaluate(i, cols, params) for i in p.items)
    if isinstance(p, Or):
        return any(evaluate(i, cols, params) for i in p.items)
    if isinstance(p, Not):
        return not evaluate(p.item, cols, params)
    if isinstance(p, Cmp):
        a, b = val(p.left), val(p.right)
        return {"<": a < b, "<=": a <= b, ">": a > b, ">=": a >= b,
                "==": a == b, "!=": a != b}[p.op]
    raise AnalysisError(f"predicate {p.nf()[:80]} is outside the row-level "
                        "vocabulary")


def interpret(index: Index, schema: Schema, fi: FuncInfo, *,
              follow: bool = True, args: Optional[dict[str, V]] = None
              ) -> SqlInterp:
    return SqlInterp(index, schema, fi, args=args, follow=follow).run()
