"""Producer-before-consumer obligations for marking channels (R1.1, R5.4)."""
from __future__ import annotations

import ast
from typing import Iterable, Optional

from ..cfg import ENTRY
from ..core import AnalysisError, FuncInfo, Report, norm_stmt
from ..ctx import Ctx
from ..effects import Channel


def stmt_closures(ctx: Ctx, entry: FuncInfo) -> dict[int, set[str]]:
    """CFG node of ``entry`` -> functions reachable from the calls made by
    that statement (resolved call graph), including nothing for statements
    without calls."""
    cfg = ctx.cfg(entry)
    out: dict[int, set[str]] = {}
    for site in ctx.cg.sites_in(entry):
        nid = cfg.container(site.node)
        if nid is None:
            continue
        out.setdefault(nid, set()).update(
            ctx.cg.closure([c.qualname for c in site.callees]))
    return out


def producer_before_consumer(rep: Report, ctx: Ctx, rule: str,
                             entry: FuncInfo, ch: Channel,
                             closures: Optional[dict[int, set[str]]] = None
                             ) -> tuple[set[int], set[int]]:
    """Obligations for one channel at one entry point:
    (i) consumers reachable  =>  a producer is reachable;
    (ii) every consumer statement that is not itself a producer statement is
    reached only through a producer statement (set-dominance in the CFG)."""
    cfg = ctx.cfg(entry)
    if closures is None:
        closures = stmt_closures(ctx, entry)
    pf, cf = ch.producer_funcs(), ch.consumer_funcs()
    prod = {n for n, cl in closures.items() if cl & pf}
    cons = {n for n, cl in closures.items() if cl & cf}
    # sites directly inside the entry
    for s in ch.producers:
        if s.fi == entry:
            nid = cfg.container(s.node) if not cfg.has(s.node) \
                else cfg.node(s.node)
            if nid is not None:
                prod.add(nid)
    for s in ch.consumers:
        if s.fi == entry:
            nid = cfg.container(s.node) if not cfg.has(s.node) \
                else cfg.node(s.node)
            if nid is not None:
                cons.add(nid)
    if not cons:
        rep.ob(rule, f"{ch.name}: not consumed below {entry.short}", True,
               fi=entry, node=entry.node,
               detail="no consumer of this marking is reachable from the "
                      "entry point: nothing to establish")
        return prod, cons
    if not prod:
        c0 = sorted(cons)[0]
        rep.ob(rule, f"{ch.name}: produced before consumed", False,
               fi=entry, node=cfg.nodes[c0].stmt,
               detail=f"'{norm_stmt(cfg.nodes[c0].stmt, 70)}' consumes the "
                      f"marking {ch.name} (in "
                      f"{_names(cf & closures.get(c0, set()))}) but no "
                      "statement of the pipeline reaches a producer "
                      f"({_names(pf) or 'none exists'})")
        return prod, cons
    for c in sorted(cons - prod):
        ok = cfg.every_path_passes(ENTRY, c, prod)
        rep.ob(rule, f"{ch.name}: producer before "
               f"'{norm_stmt(cfg.nodes[c].stmt, 50)}'", ok, fi=entry,
               node=cfg.nodes[c].stmt,
               detail=(f"consumer(s) {_names(cf & closures.get(c, set()))}; "
                       f"producer statement(s): "
                       + "; ".join(f"'{norm_stmt(cfg.nodes[p].stmt, 50)}'"
                                   for p in sorted(prod))
                       + ("" if ok else " -- a path reaches the consumer "
                          "without any producer (phase dropped, reordered or "
                          "made conditional)")))
    if not (cons - prod):
        rep.ob(rule, f"{ch.name}: produced and consumed in the same phase",
               True, fi=entry, node=cfg.nodes[sorted(prod)[0]].stmt,
               detail="self-contained phase")
    return prod, cons


def _names(qs: Iterable[str]) -> str:
    return ", ".join(sorted(q.split(":")[-1] for q in qs))
