import sys,shutil,os
sys.path.insert(0,'/verif')
from sa import selftest
selftest._load_recipes()
prop,vid,dst=sys.argv[1:4]
v=[x for x in selftest.VARIANTS if x.prop==prop and x.vid==vid][0]
if os.path.exists(dst): shutil.rmtree(dst)
os.makedirs(dst); shutil.copytree('/repo/tel2puml',dst+'/tel2puml')
import glob
for f,old,new in v.edits:
    cands=[p for p in glob.glob(dst+'/tel2puml/**/*.py',recursive=True) if p.endswith(f)]
    assert len(cands)==1,(f,cands)
    s=open(cands[0]).read(); assert s.count(old)==1,(f,s.count(old))
    open(cands[0],'w').write(s.replace(old,new))
print("applied",prop,vid,"->",dst)
