"""Helpers for the rules built on the SQLAlchemy abstract interpreter."""
from __future__ import annotations

import ast
import itertools
from fractions import Fraction
from typing import Any, Iterable, Optional

from .. import sqlabs as S
from ..cfg import ENTRY, EXIT
from ..core import AnalysisError, FuncInfo, Report, dotted, unparse
from ..ctx import Ctx
from ..lin import lin_eval, show


class Sql:
    def __init__(self, ctx: Ctx) -> None:
        self.ctx = ctx
        self.schema = S.extract_schema(ctx.index)
        self._cache: dict[tuple[str, bool], S.SqlInterp] = {}

    def run(self, fi: FuncInfo, follow: bool = True) -> S.SqlInterp:
        key = (fi.qualname, follow)
        if key not in self._cache:
            self._cache[key] = S.interpret(self.ctx.index, self.schema, fi,
                                           follow=follow)
        return self._cache[key]

    def writes(self, fi: FuncInfo) -> list[S.Exec]:
        return [x for x in self.run(fi).execs
                if x.kind in ("execute", "add_all")
                and not isinstance(x.stmt, S.Select)]


def sql_of(ctx: Ctx) -> Sql:
    if not hasattr(ctx, "_sql"):
        ctx._sql = Sql(ctx)  # type: ignore[attr-defined]
    return ctx._sql  # type: ignore[attr-defined]


def table_of(stmt: Optional[S.V]) -> Optional[str]:
    if isinstance(stmt, (S.Delete, S.Update, S.Insert)):
        t = stmt.table
        return t.name if isinstance(t, S.TableRef) else None
    if isinstance(stmt, S.ModelObj):
        return stmt.table
    if isinstance(stmt, S.DDL):
        t = stmt.table
        return t.name if isinstance(t, S.TableRef) else None
    return None


def stmt_kind(x: S.Exec) -> str:
    s = x.stmt
    if x.kind == "add_all":
        return "INSERT"
    if isinstance(s, S.Delete):
        return "DELETE"
    if isinstance(s, S.Update):
        return "UPDATE"
    if isinstance(s, S.Insert):
        return "INSERT"
    if isinstance(s, S.DDL):
        return s.kind.upper()
    if isinstance(s, S.Select):
        return "SELECT"
    return "?"


def _stmt_node_in(ctx: Ctx, fi: FuncInfo, node: ast.AST) -> int:
    cfg = ctx.cfg(fi)
    if cfg.has(node):
        return cfg.node(node)
    nid = cfg.container(node)
    if nid is None:
        raise AnalysisError(f"cannot place a call site in the CFG of "
                            f"{fi.qualname}")
    return nid


def always_executed(ctx: Ctx, fi: FuncInfo, node: ast.AST) -> bool:
    """Every normally-returning path of ``fi`` executes the statement that
    contains ``node``."""
    cfg = ctx.cfg(fi)
    return cfg.every_path_passes(ENTRY, EXIT, {_stmt_node_in(ctx, fi, node)})


def exec_dominates(ctx: Ctx, a: S.Exec, b: S.Exec) -> tuple[bool, str]:
    """Does statement execution ``a`` happen on every path that reaches
    ``b``?  Compared in the function where their interprocedural call
    chains diverge; below the divergence point ``a`` must be executed on
    every normal path of each callee."""
    i = 0
    while i < len(a.sites) and i < len(b.sites) \
            and a.sites[i][0] == b.sites[i][0] \
            and a.sites[i][1] is b.sites[i][1]:
        i += 1
    if i >= len(a.sites) or i >= len(b.sites):
        return False, "same site"
    fa, na = a.sites[i]
    fb, nb = b.sites[i]
    if fa != fb:
        return False, f"chains diverge in different functions ({fa.short}/{fb.short})"
    cfg = ctx.cfg(fa)
    x, y = _stmt_node_in(ctx, fa, na), _stmt_node_in(ctx, fa, nb)
    if x == y:
        return False, "same statement"
    if not cfg.dominates(x, y):
        return False, (f"in {fa.short}: '{S_norm(cfg.nodes[x].stmt)}' does "
                       f"not dominate '{S_norm(cfg.nodes[y].stmt)}'")
    for f, n in a.sites[i + 1:]:
        if not always_executed(ctx, f, n):
            return False, (f"inside {f.short} the statement is not on every "
                           "path")
    return True, f"dominates in {fa.short}"


def S_norm(st: Optional[ast.AST]) -> str:
    from ..core import norm_stmt
    return norm_stmt(st, 70)


# --------------------------------------------------------------------------
# the time window
# --------------------------------------------------------------------------

def time_window_bounds(ctx: Ctx, rep: Report, rule: str) -> tuple[int, int]:
    """Which tuple index of ``get_time_window`` is the lower / upper bound,
    established from its return expression:  (min + b, max - b) with
    b = time_buffer minutes in nanoseconds.  Returns (lower_idx, upper_idx).
    """
    fi = ctx.func("get_time_window")
    defs = ctx.defs(fi)
    rets = [n for n in ast.walk(fi.node) if isinstance(n, ast.Return)
            and n.value is not None]
    rv = ctx.reach(fi).resolve(rets[0].value, at=rets[0]) if len(rets) == 1 \
        else None
    if rv is None or not isinstance(rv, ast.Tuple) or len(rv.elts) != 2:
        raise AnalysisError(f"{fi.qualname}: expected one return of a pair")

    def atom(e: ast.AST) -> Optional[str]:
        if isinstance(e, ast.Attribute) and e.attr in ("min_timestamp",
                                                       "max_timestamp"):
            return e.attr
        if isinstance(e, ast.Name) and e.id == "time_buffer" \
                and defs.only_param("time_buffer"):
            return "time_buffer"
        return None
    # exactness: span times are unix nanoseconds (~1.7e18 > 2**53); one
    # float operand turns a bound into a float64 that is rounded to a
    # multiple of 256 ns, and the inclusive comparison at the window's edge
    # then deletes / keeps the wrong trace
    bad = []
    for x in rv.elts:
        deep = ctx.reach(fi).resolve_deep(x, at=rets[0])
        for n in ast.walk(deep):
            if isinstance(n, ast.Constant) and isinstance(n.value, float):
                bad.append(f"float constant {n.value!r}")
            elif isinstance(n, ast.BinOp) and isinstance(n.op, ast.Div):
                bad.append(f"true division '{unparse(n)[:40]}'")
            elif isinstance(n, ast.Call) and (dotted(n.func) or "").split(
                    ".")[-1] in ("float", "round", "timestamp",
                                 "total_seconds"):
                bad.append(f"float-valued call '{unparse(n)[:40]}'")
    rep.ob(rule, "the window bounds are computed in exact integer "
           "arithmetic", not bad, fi=fi, node=rets[0],
           detail=("; ".join(sorted(set(bad))) + " in the dataflow of the "
                   "returned bounds: nanosecond timestamps are not exact in "
                   "float64") if bad else
           "no float constant, true division or float-valued call in the "
           "dataflow of the returned bounds")
    try:
        forms = [lin_eval(x, defs, atom) for x in rv.elts]
    except AnalysisError:
        if bad:          # already reported as inexact arithmetic
            return 0, 1
        raise
    ns_per_min = Fraction(60 * 10**9)
    want_lo = {"min_timestamp": Fraction(1), "time_buffer": ns_per_min}
    want_hi = {"max_timestamp": Fraction(1), "time_buffer": -ns_per_min}
    lo = [i for i, f in enumerate(forms) if f == want_lo]
    hi = [i for i, f in enumerate(forms) if f == want_hi]
    ok = len(lo) == 1 and len(hi) == 1
    rep.ob(rule, "window = (min + buffer, max - buffer), buffer in minutes",
           ok, fi=fi, node=rets[0],
           detail=f"returned pair = ({show(forms[0])}, {show(forms[1])}); "
                  "specification (min_timestamp + 60e9*time_buffer, "
                  "max_timestamp - 60e9*time_buffer) "
                  "(docs/user/Config.md: time_buffer in minutes)")
    if not ok:
        return 0, 1
    return lo[0], hi[0]


POINTS = [5, 10, 12, 17, 20, 25]     # below, =w0, inside, inside, =w1, above


def window_orderings() -> list[dict[str, int]]:
    """All orderings of start <= end against the bounds: w0 < w1 and the
    degenerate w0 == w1."""
    out = []
    for s, e in itertools.combinations_with_replacement(POINTS, 2):
        out.append({"w0": 10, "w1": 20, "start": s, "end": e})
    for s, e in itertools.combinations_with_replacement([5, 10, 15], 2):
        out.append({"w0": 10, "w1": 10, "start": s, "end": e})
    return out


def spec_in_window(o: dict[str, int]) -> bool:
    return (o["w0"] <= o["start"] <= o["w1"]) or \
           (o["w0"] <= o["end"] <= o["w1"])


def check_window_predicate(pred: S.V, lower_text: str, upper_text: str
                           ) -> tuple[list[dict[str, int]], int]:
    """Evaluate the extracted row predicate on every ordering; returns the
    orderings on which it disagrees with the specification."""
    bad = []
    n = 0
    for o in window_orderings():
        n += 1
        got = S.evaluate(
            pred, {"start_timestamp": o["start"], "end_timestamp": o["end"]},
            {lower_text: o["w0"], upper_text: o["w1"]})
        if got != spec_in_window(o):
            bad.append({**o, "predicate": got, "specification":
                        spec_in_window(o)})
    return bad, n


def some_span_predicate(sel: S.Select) -> Optional[S.V]:
    """``SELECT job_id .. GROUP BY job_id HAVING count(..) FILTER P > 0`` ->
    P ("some span of the job satisfies P")."""
    if len(sel.having) != 1:
        return None
    h = sel.having[0]
    if isinstance(h, S.Cmp) and isinstance(h.left, S.Agg) \
            and h.left.func == "count" and h.left.filter is not None \
            and isinstance(h.right, S.Lit):
        if (h.op, h.right.value) in ((">", 0), (">=", 1), ("!=", 0)):
            return h.left.filter
    if isinstance(h, S.Cmp) and isinstance(h.right, S.Agg) \
            and h.right.func == "count" and h.right.filter is not None \
            and isinstance(h.left, S.Lit):
        if (h.op, h.left.value) in (("<", 0), ("<=", 1), ("!=", 0)):
            return h.right.filter
    return None


def param_texts(v: S.V) -> set[str]:
    out: set[str] = set()

    def rec(x: Any) -> None:
        if isinstance(x, S.Param):
            out.add(x.text)
        elif isinstance(x, (S.And, S.Or)):
            for i in x.items:
                rec(i)
        elif isinstance(x, S.Not):
            rec(x.item)
        elif isinstance(x, S.Cmp):
            rec(x.left)
            rec(x.right)
    rec(v)
    return out


def window_params(ctx: Ctx, fi: FuncInfo, pred: S.V, lo_idx: int, hi_idx: int
                  ) -> tuple[str, str]:
    """The parameter texts that denote the lower / upper bound inside
    ``fi`` (``time_window[<idx>]`` where ``time_window`` is the result of
    get_time_window or the parameter carrying it)."""
    texts = param_texts(pred)
    lo = [t for t in texts if t.endswith(f"[{lo_idx}]")]
    hi = [t for t in texts if t.endswith(f"[{hi_idx}]")]
    if len(lo) != 1 or len(hi) != 1 or len(texts) != 2:
        raise AnalysisError(
            f"{fi.qualname}: window predicate parameters {sorted(texts)} are "
            "not exactly the two bounds of the time window")
    base_lo, base_hi = lo[0].rsplit("[", 1)[0], hi[0].rsplit("[", 1)[0]
    if base_lo != base_hi:
        raise AnalysisError(f"{fi.qualname}: bounds come from different "
                            "objects")
    return lo[0], hi[0]


def link_rows_follow_node_deletes(rep: Report, ctx: Ctx, rule: str,
                                  it: S.SqlInterp) -> None:
    """Every DELETE on nodes is followed, before the commit and on every
    path, by a DELETE of the link rows whose child no longer exists."""
    cascade = _has_cascade(ctx)
    for i, x in enumerate(it.execs):
        if not (isinstance(x.stmt, S.Delete) and table_of(x.stmt) == "nodes"):
            continue
        ok, why = False, "no DELETE on NODE_ASSOCIATION before the commit"
        for y in it.execs[i + 1:]:
            if y.kind == "commit":
                break
            if isinstance(y.stmt, S.Delete) and table_of(
                    y.stmt) == "NODE_ASSOCIATION":
                good, why = _removes_orphans(y.stmt)
                if good:
                    # same transaction: y must be on every path after x
                    dom, how = exec_dominates(ctx, x, y)
                    post = _postdominates(ctx, y, x)
                    ok = dom and post
                    why = why + (f"; {how}" if not ok else "")
                    break
        if not ok:
            # alternative: the links of exactly the spans about to be deleted
            # are removed first, in the same transaction
            for y in reversed(it.execs[:i]):
                if y.kind == "commit":
                    break
                if isinstance(y.stmt, S.Delete) and table_of(
                        y.stmt) == "NODE_ASSOCIATION" and len(
                        y.stmt.where) == 1:
                    w = y.stmt.where[0]
                    if isinstance(w, S.In) and not w.negated and isinstance(
                            w.col, S.Col) and w.col.name == "child_id" \
                            and isinstance(w.what, S.Select) and [
                                c.nf() for c in w.what.cols] == [
                                "nodes.event_id"] and tuple(
                                q.nf() for q in w.what.where) == tuple(
                                q.nf() for q in x.stmt.where):
                        dom, how = exec_dominates(ctx, y, x)
                        if dom:
                            ok, why = True, ("links of the spans selected "
                                             "for deletion are removed "
                                             "first")
                        break
        if not ok and cascade:
            raise AnalysisError("link rows are maintained by an ON DELETE "
                                "CASCADE design: outside the rule's "
                                "vocabulary")
        rep.ob(rule, f"node delete in {x.func.short}", ok, fi=x.func,
               node=x.node, path=x.chain,
               detail=why + ("" if ok else
                             " -- the links of the deleted spans stay "
                             "behind; re-ingesting the same files re-inserts "
                             "the spans and then collides on "
                             "NODE_ASSOCIATION's composite key"))



def _postdominates(ctx: Ctx, y: S.Exec, x: S.Exec) -> bool:
    """y is executed on every normal path after x (same divergence
    function)."""
    i = 0
    while i < len(x.sites) and i < len(y.sites) \
            and x.sites[i][0] == y.sites[i][0] \
            and x.sites[i][1] is y.sites[i][1]:
        i += 1
    if i >= len(x.sites) or i >= len(y.sites) \
            or x.sites[i][0] != y.sites[i][0]:
        return False
    f = x.sites[i][0]
    cfg = ctx.cfg(f)
    a, b = _stmt_node_in(ctx, f, x.sites[i][1]), _stmt_node_in(
        ctx, f, y.sites[i][1])
    if not cfg.postdominates(b, a):
        return False
    return all(always_executed(ctx, g, n) for g, n in y.sites[i + 1:])


def _removes_orphans(d: S.Delete) -> tuple[bool, str]:
    """DELETE FROM NODE_ASSOCIATION WHERE child_id NOT IN (SELECT
    nodes.event_id) -- or the NOT EXISTS form."""
    if len(d.where) != 1:
        return False, f"link delete has {len(d.where)} where clauses"
    w = S.normalise(d.where[0])
    if isinstance(w, S.Not) and isinstance(w.item, S.In):
        w = S.In(w.item.col, w.item.what, not w.item.negated)
    if isinstance(w, S.Not) and isinstance(w.item, S.Exists):
        w = S.Exists(w.item.select, not w.item.negated)
    if isinstance(w, S.In) and w.negated and isinstance(w.col, S.Col) \
            and w.col.name == "child_id" and isinstance(w.what, S.Select):
        sel = w.what
        if len(sel.cols) == 1 and isinstance(sel.cols[0], S.Col) \
                and sel.cols[0].table == "nodes" \
                and sel.cols[0].name == "event_id" and not sel.where \
                and not sel.joins and not sel.having:
            return True, "link rows whose child_id is not a stored event_id"
    if isinstance(w, S.Exists) and w.negated and isinstance(
            w.select, S.Select) and len(w.select.where) == 1:
        c = w.select.where[0]
        if isinstance(c, S.Cmp) and c.op == "==":
            names = {(x.table, x.name) for x in (c.left, c.right)
                     if isinstance(x, S.Col)}
            if names == {("NODE_ASSOCIATION", "child_id"),
                         ("nodes", "event_id")}:
                return True, "link rows with no stored child (NOT EXISTS)"
    return False, (f"link delete '{d.nf()[:120]}' does not select the rows "
                   "whose child no longer exists")


def _has_cascade(ctx: Ctx) -> bool:
    for m in ctx.index.modules.values():
        if "ondelete" in m.src and "foreign_keys" in m.src.lower():
            return True
    return False
